import RsslVerif.Lemmas.SlotsInline
import RsslVerif.Lemmas.FixpointStmt
import RsslVerif.Gen.FixpointTables
import RsslVerif.Lemmas.FixpointText
import RsslVerif.Lemmas.FixpointSlots
import RsslVerif.Thm.C05Layers
import RsslVerif.Lemmas.FixpointLeaf
import RsslVerif.Thm.C09
import RsslVerif.Lemmas.FixpointNamesWF
import RsslVerif.Lemmas.FixpointNamesEnum
import RsslVerif.Gen.PathLookup
import RsslVerif.Gen.TemplateConst
import RsslVerif.Lemmas.FixpointTemplate
import RsslVerif.Gen.NameReserve
import RsslVerif.Lemmas.FixpointGenNames
import RsslVerif.Gen.ProtoParams
import RsslVerif.Lemmas.FixpointProto
/-!
# C04 — emitted DirectX HLSL is accepted by the front end and is a fixpoint

C04 is a composition: the second generation equals the first if (a) the printed tree re-parses to the
same tree (C09, instantiated with the rssl grammar), (b) every literal re-reads with the same value
(C10), (c) first-generation names are unique and unreserved so the second name generation keeps them
(C15), (d) a fully explicit program needs no new conversions (C03), and (e) binding slots are
re-derived identically.  This file proves (e) over the C06 allocator model; the other legs are the
property theorems of C09 / C10 / C15 / C03 and are cited in `checks/c04.py` once those are merged.
-/
namespace RsslVerif.Thm.C04
open RsslVerif.Gen.SlotTables RsslVerif.Model.Slots RsslVerif.Spec.Slots RsslVerif.Lemmas.Slots

/-- what the exporter writes back: every declaration carries its bind group explicitly
    (`register(x, spaceN)` / the group attribute), everything else is unchanged -/
def explicit (dflt : Nat) : Decl → Decl
  | .other => .other
  | .cbuffer s => .cbuffer (some (s.getD dflt))
  | .global s ss k l => .global (some (s.getD dflt)) ss k l

theorem step_explicit (p : Params) (dflt dflt' : Nat) (st : State) (d : Decl) :
    step p dflt' st (explicit dflt d) = step p dflt st d := by
  cases d <;> simp [explicit, step]

theorem run_explicit (p : Params) (dflt dflt' : Nat) :
    ∀ (ds : List Decl) (st : State), run p dflt' st (ds.map (explicit dflt)) = run p dflt st ds := by
  intro ds
  induction ds with
  | nil => intro st; rfl
  | cons d ds ih =>
    intro st
    simp only [List.map_cons, run, step_explicit]
    cases step p dflt st d with
    | error e => rfl
    | ok r => obtain ⟨st1, ob⟩ := r; simp only [ih]

/-- **Slots are stable under re-compilation.** Re-running the allocator on the declaration sequence
    in which every group was made explicit (what the emitted `register(.., spaceN)` annotations say),
    with *any* default group (no-pipeline mode uses 0), reproduces exactly the first result: same
    bindings for every declaration and the same inline constant blocks. -/
theorem slots_stable (p : Params) (dflt dflt' : Nat) (ds : List Decl) :
    assign p dflt' (ds.map (explicit dflt)) = assign p dflt ds := by
  simp only [assign, run_explicit]

/-! Non-vacuity: a mixed sequence with implicit groups and default group 2. -/
example : assign paramsDefault 0 ([Decl.cbuffer none, .global (some 1) false (some .Texture2D) (some 2),
      .global none false (some .SamplerState) none].map (explicit 2)) =
    assign paramsDefault 2 [Decl.cbuffer none, .global (some 1) false (some .Texture2D) (some 2),
      .global none false (some .SamplerState) none] := slots_stable _ _ _ _

/-! ## Slots as re-read from the printed annotations -/
section Reread
open RsslVerif.Gen.MetaTables RsslVerif.Model.Meta RsslVerif.Spec.Meta RsslVerif.Model.FixpointSlots
open RsslVerif.Lemmas.FixpointSlots

/-- the DirectX target allocates with register types and without buffer addresses, whatever `support_buffer_address`
    says (re-extracted `binding_params` of `compile()`) -/
theorem dx_params (sba : Bool) : DxParams (paramsFor .HlslForDirectX sba) := by
  cases sba <;> exact ⟨rfl, rfl⟩

/-- **Every resource keeps its slot when the emitted text is compiled again.**  First generation: `assign` over the
    declarations `ds` (default group `dflt` of the selected pipeline) gives `res`.  The exporter prints
    ` : register(<letter><index>[, space<group>])` for every bound declaration; the second generation sees each
    declaration with the bind group that C05's character-level reader reads from that printed text (`secondDecls`:
    print, then read back, then "space 0 / no space = no explicit group") and runs without a pipeline (default group 0).
    It computes exactly `res` again: the same group, index and register class for every declaration and the same
    inline constant blocks. -/
theorem slots_stable_reread {p : Params} (hp : DxParams p) (dflt : Nat) (ds : List Decl) (res : Result)
    (h : assign p dflt ds = .ok res) : assign p 0 (secondDecls ds res.bindings) = .ok res := by
  simp only [assign] at h ⊢
  split at h
  · simp at h
  · rename_i st bs hrun
    simp at h; subst h
    simp only [run_second hp dflt ds State.init st bs hrun]

/-- …and therefore prints the same annotations again -/
theorem annotations_stable {p : Params} (hp : DxParams p) (dflt : Nat) (ds : List Decl) (res res2 : Result)
    (h : assign p dflt ds = .ok res) (h2 : assign p 0 (secondDecls ds res.bindings) = .ok res2) :
    res2.bindings.map regAnnot = res.bindings.map regAnnot := by
  rw [slots_stable_reread hp dflt ds res h] at h2
  cases h2; rfl

/-- what is read back from a printed annotation is the group of the binding it was printed for -/
theorem reread_names_group (r : RegT) (i g : Nat) : (rereadSet (Annot.reg r i g).print).getD 0 = g :=
  rereadSet_reg r i g

/-! Non-vacuity: a cbuffer in the pipeline's default group 2, a texture array with an explicit group, a sampler -/
def dsEx : List Decl :=
  [Decl.cbuffer none, .global (some 1) false (some .Texture2D) (some 2), .global none false (some .SamplerState) none]

example :
    (match assign paramsDefault 2 dsEx with
     | .ok res =>
       decide (res.bindings.map (fun b => b.map (·.set)) = [some 2, some 1, some 2]) &&
       decide (secondDecls dsEx res.bindings =
         [Decl.cbuffer (some 2), .global (some 1) false (some .Texture2D) (some 2),
          .global (some 2) false (some .SamplerState) none]) &&
       (match assign paramsDefault 0 (secondDecls dsEx res.bindings) with
        | .ok res2 => decide (res2 = res)
        | .error _ => false)
     | .error _ => false) = true := by decide

end Reread

/-! ## Resources declared through typedefs (seeded mutant C04-7)

The exporter prints no typedef: `typedef Texture2D<float4> TextureTable[4]; TextureTable g;` is emitted as
`Texture2D<float4> g[4] : register(t0);`.  The second generation therefore allocates over OTHER layer chains than the
first one; the slot clause of the property needs the allocator's peel to see the same thing through both. -/
section TypedefSpelling
open RsslVerif.Gen.MetaTables RsslVerif.Model.Meta RsslVerif.Spec.Meta RsslVerif.Model.FixpointSlots
open RsslVerif.Lemmas.FixpointSlots RsslVerif.Lemmas.MetaLayers

/-- Tie to the source: the GlobalVariable arm of `process_definition` (`assign_api_bindings`) peels the declared type in
    the order *outer modifier, sized array layer, modifier of the element* — both as the ordered operation list C05's
    symbolic reader extracts from the `let` statements (`Gen.MetaTables.allocPeel`; an unknown helper call reads as
    `[.unknown]`) and as C06's statement-level regex fact.  Seeded mutant C04-7 (`extract_sized_array`: the array layer is
    matched on the id as given, the outer modifier is never removed in front of it) falsifies both. -/
theorem slot_peel_as_modelled :
    allocPeel = [.removeModifier, .takeArray true, .removeModifierAfterArray] ∧
    allocShape.peelsModifierArrayModifier = true := ⟨rfl, by decide⟩

/-- A resource as the SOURCE spells it: object type `kind`, reached through the typedef chain `steps`
    (`typedef [const] <cur> X[n]?;`, innermost first), optional `const` keyword, declarator dimensions `dims`. -/
structure RDecl where
  name : String
  set : Option Nat
  staticSampler : Bool
  kind : ObjKind
  steps : List TypedefStep
  constKw : Bool
  dims : List (Option Nat)
  bindless : Bool
  deriving Repr

/-- the layer chain the typer builds for it (`Model.Meta.globalTy`: the implicit const of an extern global wraps the NAMED type) -/
def RDecl.ty (r : RDecl) : Ty := globalTy (.object r.kind) r.steps r.constKw .extern r.dims

/-- the root definition of the first generation -/
def RDecl.first (r : RDecl) : TDecl := .global r.name r.set r.staticSampler r.ty r.bindless .extern

/-- The chain the SECOND generation builds: the exporter prints neither typedefs nor `const` on a resource, it prints
    the object type and every array layer of the chain on the declarator (`Texture2D<float4> g[4]`), so the implicit
    const now sits INSIDE the array layers. -/
def RDecl.exportedTy (r : RDecl) : Ty := globalTy (.object r.kind) [] false .extern (Ty.dims r.ty)

/-- the root definition the second generation sees (same name, group annotation, flags) -/
def RDecl.exported (r : RDecl) : TDecl := .global r.name r.set r.staticSampler r.exportedTy r.bindless .extern

/-- what the allocator's peel sees depends on the array lengths and the innermost object of a well-formed chain only,
    not on where the modifier layers sit (from C05's `descriptor_kind_count_from_layers`) -/
theorem toSlot_of_dims_base {n : String} {s : Option Nat} {ss bl : Bool} {t t' : Ty}
    (hw : Ty.wf t = true) (hw' : Ty.wf t' = true) (hd : Ty.dims t' = Ty.dims t) (hb : Ty.base t' = Ty.base t) :
    (TDecl.global n s ss t' bl .extern).toSlot allocPeel = (TDecl.global n s ss t bl .extern).toSlot allocPeel := by
  rw [(C05.descriptor_kind_count_from_layers (n := n) (s := s) (ss := ss) (bl := bl) (st := .extern) hw).2.2,
    (C05.descriptor_kind_count_from_layers (n := n) (s := s) (ss := ss) (bl := bl) (st := .extern) hw').2.2]
  simp only [specAllocKind, specAllocLen, specKind, hd, hb]

/-- the exported declarator carries the declarator's dimensions followed by the typedefs', last typedef outermost -/
theorem exported_dims (r : RDecl) :
    Ty.dims r.exportedTy = r.dims ++ (r.steps.reverse.filterMap (·.dim)).map some := by
  have hd := (globalTy_shape r.kind r.steps r.constKw .extern r.dims).2.2
  have hd' := (globalTy_shape r.kind [] false .extern (Ty.dims r.ty)).2.2
  unfold RDecl.exportedTy
  rw [hd']
  unfold RDecl.ty
  rw [hd]; simp

/-- **A resource declared through typedefs and its exported direct spelling are the same declaration to the allocator**:
    same object kind, same array length — for every object kind, every typedef chain (const anywhere, array typedefs,
    aliases of aliases), with or without the `const` keyword, any declarator dimensions.  `const(array(obj, n))`
    (`typedef T TA[n]; TA g;`) and `array(const(obj), n)` (`T g[n];`) in particular. -/
theorem typedef_spelling_same_slot (r : RDecl) :
    r.exported.toSlot allocPeel = r.first.toSlot allocPeel := by
  obtain ⟨hw, hb, _⟩ := globalTy_shape r.kind r.steps r.constKw .extern r.dims
  obtain ⟨hw', hb', hd'⟩ := globalTy_shape r.kind [] false .extern (Ty.dims r.ty)
  unfold RDecl.exported RDecl.first
  apply toSlot_of_dims_base
  · exact hw
  · exact hw'
  · unfold RDecl.exportedTy; rw [hd']; simp
  · unfold RDecl.exportedTy; rw [hb']; unfold RDecl.ty; rw [hb]

/-- **Every resource keeps its slot when typedef'd spellings are exported as direct ones**: `slots_stable_reread` with
    the second generation's declarations built from the EXPORTED chains (and the bind groups re-read from the printed
    annotations): the allocator computes the first generation's result again — same group, index, register class for
    every declaration, same inline blocks; all declaration lists, all typedef chains. -/
theorem typedef_spelling_slots_stable {p : Params} (hp : DxParams p) (dflt : Nat) (rs : List RDecl) (res : Result)
    (h : assign p dflt (rs.map (fun r => r.first.toSlot allocPeel)) = .ok res) :
    assign p 0 (secondDecls (rs.map (fun r => r.exported.toSlot allocPeel)) res.bindings) = .ok res := by
  have e : rs.map (fun r => r.exported.toSlot allocPeel) = rs.map (fun r => r.first.toSlot allocPeel) :=
    List.map_congr_left (fun r _ => typedef_spelling_same_slot r)
  rw [e]
  exact slots_stable_reread hp dflt _ res h

/-! Non-vacuity (the demo program of the seeded mutant): `typedef Texture2D<float4> TextureTable[4]; TextureTable g_table;
    Texture2D<float4> g_plain[2]; RWStructuredBuffer<uint> g_out; ByteAddressBuffer g_after;` — the chains differ, the
    table takes slots 0..3 and the followers keep 4, 6, 7 in the second generation. -/
def rsEx : List RDecl :=
  [⟨"g_table", none, false, .Texture2D, [⟨false, some 4⟩], false, [], false⟩,
   ⟨"g_plain", none, false, .Texture2D, [], false, [some 2], false⟩,
   ⟨"g_out", none, false, .RWStructuredBuffer, [], false, [], false⟩,
   ⟨"g_after", none, false, .ByteAddressBuffer, [], false, [], false⟩]

example :
    decide ((rsEx.map RDecl.ty).map Ty.layers =
      [[.mod, .arr (some 4), .obj .Texture2D], [.arr (some 2), .mod, .obj .Texture2D],
       [.mod, .obj .RWStructuredBuffer], [.mod, .obj .ByteAddressBuffer]]) &&
    decide ((rsEx.map RDecl.exportedTy).map Ty.layers =
      [[.arr (some 4), .mod, .obj .Texture2D], [.arr (some 2), .mod, .obj .Texture2D],
       [.mod, .obj .RWStructuredBuffer], [.mod, .obj .ByteAddressBuffer]]) &&
    (match assign (paramsFor .HlslForDirectX false) 0 (rsEx.map (fun r => r.first.toSlot allocPeel)) with
     | .ok res =>
       decide (res.bindings.map (fun b => b.map (·.loc)) = [some (.index 0), some (.index 4), some (.index 6), some (.index 7)]) &&
       (match assign (paramsFor .HlslForDirectX false) 0
           (secondDecls (rsEx.map (fun r => r.exported.toSlot allocPeel)) res.bindings) with
        | .ok res2 => decide (res2 = res)
        | .error _ => false)
     | .error _ => false) = true := by decide

/-- `TypeRegistry::extract_sized_array` of seeded mutant C04-7 (NOT the code): the sized array layer is matched on the id
    as given and a modifier is removed from the element only (from the type itself when it is no such array) -/
def mutantPeel : List PeelOp := [.takeArray true, .removeModifierAfterArray, .removeModifier]

/-- **Negation witness for the mutant's peel**: over the demo program the mutant's peel finds no object behind the
    typedef'd table (`const(array(..))`: no array on the outside, then an array layer instead of an object), gives it no
    slot and numbers the followers 0, 2, 3; over the exported chains it finds the table and numbers them 4, 6, 7 — the
    slots move (and the first text carries no `register` for the table, the second does: not a fixpoint). -/
theorem mutant_peel_moves_slots :
    (match assign (paramsFor .HlslForDirectX false) 0 (rsEx.map (fun r => r.first.toSlot mutantPeel)),
           assign (paramsFor .HlslForDirectX false) 0 (rsEx.map (fun r => r.exported.toSlot mutantPeel)) with
     | .ok r1, .ok r2 =>
       decide (r1.bindings.map (fun b => b.map (·.loc)) = [none, some (.index 0), some (.index 2), some (.index 3)]) &&
       decide (r2.bindings.map (fun b => b.map (·.loc)) = [some (.index 0), some (.index 4), some (.index 6), some (.index 7)])
     | _, _ => false) = true := by decide

end TypedefSpelling

/-! ## Re-elaboration of the exported program adds no conversion (type level, C03 model × exporter shadow)

`Model.Fixpoint.Unelab Γ' i s` says that `s` is a syntax tree the front end can read from the text exported for the
elaborated expression `i` (`generate_expression` node by node: typed `Int32` constants lose their kind, negative
constants become `-` applied to the magnitude, casts to literal types are dropped, every function has its own name).
The theorems are about `Model.Elab.elabE` (C03's model of `parse_expr_internal`, any types, any nesting, any overload
sets) in the first generation and in the second. -/
section Reelab
open RsslVerif.Gen.RankTable RsslVerif.Gen.TypingTables RsslVerif.Gen.FixpointTables
open RsslVerif.Model.Conv RsslVerif.Model.Overload RsslVerif.Model.IrTyping RsslVerif.Model.Elab RsslVerif.Model.Fixpoint
open RsslVerif.Lemmas.FixpointElab RsslVerif.Lemmas.FixpointStmt

/-- the hand-written `rereadTable` is `parse_literal` as re-extracted from typer/src/typer/expressions.rs: same
    constant variant for every suffix kind, the same three kinds rejected, payload = the literal's own value -/
theorem reread_table_agrees : ∀ k : RsslVerif.Gen.HlslGenTables.LitKind,
    (parseLiteralTable.find? (fun r => r.1 == k.name)).map (fun r => r.2.map (·.1)) =
      some ((rereadTable k).map Scalar.name) := by
  intro k; cases k <;> decide

/-- `litTyped` is the re-extracted `to_literal` test of the `Cast` arm (after `remove_modifier`) -/
theorem cast_drop_agrees (m : Modifier) (l : Layer) :
    litTyped ⟨m, l⟩ = (match l with | .scalar s => castDropLayers.contains s.name | _ => false) := by
  cases l with
  | scalar s => cases s <;> simp [litTyped] <;> decide
  | _ => rfl

/-- only typed `Int32` constants change their kind when exported and read back (`3` is an `IntLiteral`); every
    other kind has a suffix of its own -/
theorem reread_only_int32 (k : Scalar) : rereadKind k = if k = .int32 then .intLiteral else k := rereadKind_eq k

/-- **reelab_no_new_casts.**  Let `i : τ` be the elaboration of a source expression `s` (any expression of the C03
    model: literals, variables, all unary and binary operators, `?:`, `,`, casts, calls through overload resolution;
    scalar, vector, matrix, modified, struct/object types) in the environment `Γ`, and `Γ'` the environment of the
    exported program (same variables and signatures, every function named on its own).  Then **every** tree `s'` the
    front end can read from the export of `i` elaborates — in `Γ'`, in debug or release builds — to `i` itself with
    the same type `τ`: no conversion is added or lost, every literal gets its kind back, every call selects the same
    function, every operator works on the same type, every written operand and every `out` / `inout` argument is
    accepted as a mutable place again.

    Hypothesis: `SrcOk s` (the first source is one the parser can produce: no `Int32` literal, no cast to an unnamed
    literal type — exported trees satisfy it again: `export_is_source`).  Until fix batch 2 the statement needed a
    second hypothesis, `OutArgsPlain Γ i` (no `Cast` node in an `out` / `inout` argument position), and was false
    without it (`void g(out float1 p); float y; g(y)` was accepted as `g(Cast(float1, y))`, whose export is rejected).
    Since fix 3758fdd `check_output_arguments` runs on the converted arguments, so that hypothesis is a theorem about
    every accepted expression (`out_arguments_plain`) and the statement holds without exception. -/
theorem reelab_no_new_casts {Γ Γ' : Env} (hR : Renamed Γ Γ') (dbg dbg' : Bool) {s : SExpr} {i : IExpr} {τ : ETy}
    (hs : SrcOk s) (h : elabE dbg Γ s = .ok (i, τ)) {s' : SExpr} (hu : Unelab Γ' i s') :
    elabE dbg' Γ' s' = .ok (i, τ) := reelab_any hR dbg dbg' hs h hu

/-- the same for statements: expression statements, `return e` (conversion to the return type) and `T v = e`
    (conversion to the variable's type) are rebuilt identically -/
theorem reelab_stmt_no_new_casts {Γ Γ' : Env} (hR : Renamed Γ Γ') (dbg dbg' : Bool) {s : SStmt} {st : IStmt}
    (hs : SrcStmtOk s) (h : elabStmt dbg Γ s = .ok st) {s' : SStmt}
    (hu : UnelabStmt Γ' st s') : elabStmt dbg' Γ' s' = .ok st := reelab_stmt hR dbg dbg' hs h hu

/-- **out_arguments_plain** (positive form of the former witness `reelab_fails_out_argument`, fix 3758fdd): in every
    accepted expression, at every call anywhere in the tree, no argument given for an `out` / `inout` parameter is a
    `Cast` node — the type checker refuses (`LvalueRequired`) a call whose `out` / `inout` argument needs a conversion,
    because a `Cast` is an rvalue for `check_mutable_place`.  Debug or release build; any source expression. -/
theorem out_arguments_plain {Γ : Env} (dbg : Bool) {s : SExpr} {i : IExpr} {τ : ETy}
    (h : elabE dbg Γ s = .ok (i, τ)) : OutArgsPlain Γ i := outArgsPlain_any dbg h

/-- …and in every accepted statement (the conversion to the return / variable type wraps the whole expression) -/
theorem out_arguments_plain_stmt {Γ : Env} (dbg : Bool) {s : SStmt} {st : IStmt}
    (h : elabStmt dbg Γ s = .ok st) : OutArgsPlainStmt Γ st := outArgsPlainStmt_any dbg h

/-- an exported tree is a source tree again, so the two theorems above apply to every further generation -/
theorem export_is_source {Γ' : Env} {i : IExpr} {s' : SExpr} (hu : Unelab Γ' i s') : SrcOk s' := unelab_srcOk i s' hu

/-- the executable exporter shadow the driver runs (`Model.Fixpoint.unelab`) produces such a tree -/
theorem unelab_is_export {Γ' : Env} {i : IExpr} {s' : SExpr} (h : unelab Γ' i = some s') : Unelab Γ' i s' :=
  unelab_sound i s' h

/-- every environment has an exported version (`uniqueNames`: function `i` is called `i`) -/
theorem renamed_exists (Γ : Env) : Renamed Γ (uniqueNames Γ) := renamed_uniqueNames Γ

/-- **idempotence**: elaborating the export of an elaborated expression gives an expression whose export elaborates
    to it again — the composition `elab ∘ export` is idempotent from the first generation on -/
theorem reelab_idempotent {Γ Γ' : Env} (hR : Renamed Γ Γ') (hR' : Renamed Γ' Γ') (dbg : Bool) {s s' s'' : SExpr}
    {i : IExpr} {τ : ETy} (hs : SrcOk s) (h : elabE dbg Γ s = .ok (i, τ))
    (hu : Unelab Γ' i s') (hu' : Unelab Γ' i s'') : elabE dbg Γ' s'' = .ok (i, τ) :=
  reelab_no_new_casts hR' dbg dbg (export_is_source hu) (reelab_no_new_casts hR dbg dbg hs h hu) hu'

/-! ### non-vacuity -/

/-- `float v0; const int v1; bool v2;`  `int k(int); int k(float);` (one overload set) -/
def ΓEx : Env :=
  { vars := [⟨{}, .scalar .float32⟩, ⟨{ isConst := true }, .scalar .int32⟩, ⟨{}, .scalar .bool⟩],
    funcs := [⟨5, [⟨⟨{}, .scalar .int32⟩, .in⟩], 1, ⟨{}, .scalar .int32⟩⟩,
              ⟨5, [⟨⟨{}, .scalar .float32⟩, .in⟩], 1, ⟨{}, .scalar .int32⟩⟩] }

/-- `v0 = v1 + 1 + k(v2 + 1) + (v2 ? 1 : 2)`: elaborates to
    `Assignment(v0, Cast(float, Add(Add(Cast(int, v1), Int32 1), k#0(Cast(int, Add(Cast(IntLiteral, v2), 1)))) + …`
    with re-tagged literals, a dropped cast to `IntLiteral`, an overload chosen by promotion, and a cast of an
    `IntLiteral`-typed conditional; its export is accepted and elaborates to the same tree. -/
def sEx : SExpr :=
  .bin .assignment (.var 0)
    (.bin .add (.bin .add (.bin .add (.var 1) (.lit .intLiteral))
      (.call 5 (.cons (.bin .add (.var 2) (.lit .intLiteral)) .nil)))
      (.tern (.var 2) (.lit .intLiteral) (.lit .intLiteral)))

example :
    (match elabE true ΓEx sEx with
     | .ok (i, τ) =>
       (match unelab (uniqueNames ΓEx) i with
        | some s' =>
          (match elabE true (uniqueNames ΓEx) s' with
           | .ok (_, τ') => decide (τ' = τ) && decide (τ = ⟨⟨{}, .scalar .float32⟩, .lvalue⟩)
           | .error _ => false)
        | none => false)
     | .error _ => false) = true := by decide

/-- the hypotheses of the theorem hold for it -/
example : SrcOk sEx := by simp [sEx, SrcOk, SrcArgsOk]; decide

/-- `int3 v0; bool3 v1; bool v2;` -/
def ΓVec : Env := { vars := [⟨{}, .vector .int32 3⟩, ⟨{}, .vector .bool 3⟩, ⟨{}, .scalar .bool⟩], funcs := [] }

/-- non-vacuity on the class fixes 40c6233 / c05bffa made exportable (vector / matrix operations and conditional
    expressions with a literal operand / arm: `v2 ? v0 : 1.5` is `Tern(v2, Cast(float3, v0), Cast(float3, FloatLiteral))`,
    exported `v2 ? (float3)v0 : (float3)1.5`; the
    working type used to be a vector of `IntLiteral` / `FloatLiteral`, which no exporter can name): `v1 + 1` elaborates
    to `Add(Cast(int3, v1), Cast(int3, IntLiteral 1))`, `v0 * 1.5` to `Mul(Cast(float3, v0), Cast(float3, FloatLiteral))`;
    the exports `(int3)v1 + (int3)1` / `(float3)v0 * (float3)1.5` are accepted and elaborate to a tree of the same
    type (and, by `reelab_no_new_casts`, to the same tree: the working kind of the second generation is `int`, not
    `IntLiteral`, but the same after the remap — `arith_stable_remap`) -/
example :
    ((match elabE true ΓVec (.bin .add (.var 1) (.lit .intLiteral)) with
      | .ok (i, τ) =>
        decide (τ = ⟨⟨{}, .vector .int32 3⟩, .rvalue⟩) &&
        (match unelab (uniqueNames ΓVec) i with
         | some s' =>
           (match elabE true (uniqueNames ΓVec) s' with
            | .ok (_, τ') => decide (τ' = τ)
            | .error _ => false)
         | none => false)
      | .error _ => false) &&
     (match elabE true ΓVec (.tern (.var 2) (.var 0) (.lit .floatLiteral)) with
      | .ok (i, τ) =>
        decide (τ = ⟨⟨{}, .vector .float32 3⟩, .rvalue⟩) &&
        (match unelab (uniqueNames ΓVec) i with
         | some s' =>
           (match elabE true (uniqueNames ΓVec) s' with
            | .ok (_, τ') => decide (τ' = τ)
            | .error _ => false)
         | none => false)
      | .error _ => false) &&
     (match elabE true ΓVec (.bin .multiply (.var 0) (.lit .floatLiteral)) with
      | .ok (i, τ) =>
        decide (τ = ⟨⟨{}, .vector .float32 3⟩, .rvalue⟩) &&
        (match unelab (uniqueNames ΓVec) i with
         | some s' =>
           (match elabE true (uniqueNames ΓVec) s' with
            | .ok (_, τ') => decide (τ' = τ)
            | .error _ => false)
         | none => false)
      | .error _ => false)) = true := by decide

/-! ### `out` / `inout` arguments (the former exception, repaired by fix 3758fdd) -/

/-- `float v0;`  `void g(out float1 p);`  `void h(out float p, inout float q);` -/
def ΓOut : Env :=
  { vars := [⟨{}, .scalar .float32⟩],
    funcs := [⟨7, [⟨⟨{}, .vector .float32 1⟩, .out⟩], 1, ⟨{}, .other 0⟩⟩,
              ⟨8, [⟨⟨{}, .scalar .float32⟩, .out⟩, ⟨⟨{}, .scalar .float32⟩, .inOut⟩], 2, ⟨{}, .other 0⟩⟩] }

/-- the input of the former witness: `g(v0)` with `float v0` and `void g(out float1 p)` used to be accepted as
    `g(Cast(float1, v0))`, whose export `g((float1)v0)` was rejected in the second generation.  Now the call itself is
    refused — `LvalueRequired`, as the real compiler reports (`lvalue is required in this context`; replayed by the two
    reproducers kept in corpus/C04.txt, findings converted to `fixed`). -/
theorem out_argument_conversion_rejected :
    ((match elabE true ΓOut (.call 7 (.cons (.var 0) .nil)) with
      | .error (.reject "LvalueRequired") => true
      | _ => false) &&
     (match elabE false ΓOut (.call 7 (.cons (.var 0) .nil)) with
      | .error (.reject "LvalueRequired") => true
      | _ => false)) = true := by decide

/-- non-vacuity of `out_arguments_plain` / `reelab_no_new_casts` on `out` and `inout` parameters: `h(v0, v0)` is
    accepted with both arguments passed as they are, exported, accepted again and elaborated to the same call -/
example :
    (match elabE true ΓOut (.call 8 (.cons (.var 0) (.cons (.var 0) .nil))) with
     | .ok (.call 1 (.cons (.var 0) (.cons (.var 0) .nil)), τ) =>
       (match unelab (uniqueNames ΓOut) (.call 1 (.cons (.var 0) (.cons (.var 0) .nil))) with
        | some s' =>
          (match elabE true (uniqueNames ΓOut) s' with
           | .ok (.call 1 (.cons (.var 0) (.cons (.var 0) .nil)), τ') => decide (τ' = τ)
           | _ => false)
        | none => false)
     | _ => false) = true := by decide

end Reelab

/-! ## The composition: the second generation is the first (C01 exporter model ∘ C09 ∘ C03 elaboration)

`e : Ir.Expr` is a first-generation expression of the C01 subset (constants with their values), `i = erase e` its
skeleton in the C03 model, `a = genExpr cx e` the tree the exporter model of C01 generates for it (names from the
`NameMap`).  The second generation is obtained by printing `a`, parsing the text, resolving names, elaborating, and
exporting again.  Each arrow is a theorem of one layer; the hypotheses that connect them are named. -/
section Fixpoint
open RsslVerif.Gen.RankTable RsslVerif.Gen.TypingTables
open RsslVerif.Model RsslVerif.Model.Conv RsslVerif.Model.Overload RsslVerif.Model.IrTyping RsslVerif.Model.Elab
open RsslVerif.Model.Fixpoint RsslVerif.Model.FixpointBridge RsslVerif.Model.GenHlsl
open RsslVerif.Lemmas.FixpointBridge RsslVerif.Lemmas.FixpointText RsslVerif.Lemmas.Roundtrip RsslVerif.Spec.Roundtrip

/-- **bridge_square.**  The exporter model of C01 and the exporter shadow `Unelab` are the same exporter: for every
    expression of the C01 subset with a C03 counterpart, the tree `GenHlsl.genExpr` generates, read back by the front
    end (`readBack`: `parse_literal`, name lookup, operator and type names), is one of the trees `Unelab` describes.
    `NamesAgree` is name hygiene (C15): an emitted name is looked up to the entity it was emitted for. -/
theorem bridge_square {Γ' : Env} {nm : Names} {cx : Ctx} {ix : Idx} (hA : NamesAgree cx ix nm Γ') {e : Ir.Expr}
    {i : IExpr} {a : HlslAst.Expr} (he : erase ix e = some i) (hg : genExpr cx e = .ok a) :
    ∃ s, readBack nm a = some s ∧ Unelab Γ' i s := genExpr_back hA e i a he hg

/-- an expression of the subset is its skeleton plus its constants (positions name entities uniquely) -/
theorem skeleton_and_constants {ix : Idx} (hI : IdxInj ix) {e e2 : Ir.Expr} {i : IExpr} (h1 : erase ix e = some i)
    (h2 : erase ix e2 = some i) (hl : leaves e = leaves e2) : e = e2 := erase_inj hI e e2 i h1 h2 hl

/-- the payloads of `parse_literal` and of the one re-tagging a re-read constant undergoes are the modelled ones
    (`rereadConst`: `i as i128`, `i as u32`, value unchanged; `retagTo`: `IntLiteral(v) ↦ Int32(v as i32)`), as
    re-extracted from typer/src/typer/expressions.rs and typer/src/casting.rs -/
theorem reread_payloads_as_modelled :
    RsslVerif.Gen.FixpointTables.parseLiteralTable.map (fun r => r.2.map (·.2)) =
      [some "v", some "v as i128", some "v as u32", none, none, some "v", some "v", some "v", some "v", none] ∧
    (RsslVerif.Gen.FixpointTables.retagPayloads.find? (fun r => r.1 == "IntLiteral" && r.2.1 == "Int32")).map (·.2.2) =
      some "v as i32" := by decide

/-- **leaf_value_preserved** — the literal leg at the level of constants: every constant the exporter can print
    (any `Int32` including `i32::MIN`, any `UInt32`, `IntLiteral` within ±(2^64−1), every float bit pattern, booleans)
    gets its value back after `generate_literal`, `parse_literal`, folding of the printed sign and re-tagging to the
    kind the skeleton has at that leaf.  This discharges the hypothesis `leaves e2 = leaves e` of `fixpoint_expr`
    leaf by leaf, up to the digits: that the printed decimal text of a float is read back to the same bits is C10
    (`lex_float_nearest`, `nearest64_correct`) plus Rust's shortest round-trip `Display` (assumption). -/
theorem leaf_value_preserved (c : Ir.Const) (a : HlslAst.Expr) (h : genLiteral c = .ok a) : leafBack c = some c :=
  RsslVerif.Lemmas.FixpointLeaf.leafBack_id c a h

/-- non-vacuity: `i32::MIN` is printed `-2147483648`, read as `IntLiteral(2147483648)`, negated and re-tagged -/
example : leafBack (.int32 (BitVec.intMin 32)) = some (.int32 (BitVec.intMin 32)) ∧
    genLiteral (.int32 (BitVec.intMin 32)) = .ok (.un .Minus (.lit (.intUntyped 2147483648))) := by
  constructor
  · exact leaf_value_preserved _ _ (by rfl : genLiteral (.int32 (BitVec.intMin 32)) = .ok (.un .Minus (.lit (.intUntyped 2147483648))))
  · rfl

/-- the C09 leg for one exported tree: the printed tokens, in front of anything that ends an expression, are read by
    the parser as exactly the tree that was printed -/
def ParsesBack (a : HlslAst.Expr) : Prop :=
  ∃ t, toFmt a = some t ∧ ∀ rest, RsslVerif.Thm.C09.Stops rest → ReadsBack t rest

/-- discharged by C09's `roundtrip_expr_partial` for every exported tree in the fragment of its model (no cast; every
    literal prints as one token reading back as itself: non-negative, floats in the dyadic subset) -/
theorem parsesBack_of_c09 {a : HlslAst.Expr} {t : Format.Expr} (h : toFmt a = some t) (hwf : WF t) : ParsesBack a :=
  ⟨t, h, fun rest hr => RsslVerif.Thm.C09.roundtrip_expr_partial t hwf rest hr⟩

/-- **fixpoint_expr.**  First generation: `s` (source) elaborates to the skeleton `i : τ` of `e`, `e` exports to `a`.
    Then
    1. *(front end accepts, no new conversions)* the tree `a`, read back by the front end, elaborates in the exported
       environment — debug or release build — to `i : τ` again: same casts, same overloads, same operator types, same
       literal kinds (`bridge_square` ∘ `reelab_no_new_casts`);
    2. *(second generation = first)* every second-generation expression `e2` with that skeleton whose constants are
       those of `e` **is** `e`, so it exports to the same tree `a` — and therefore prints the same text.

    Named hypotheses and where they come from:
    * `hA : NamesAgree` — name hygiene, C15 (`verbatim`, `never_reserved`, `injective_per_scope`): the emitted names
      are looked up to the same entities; `hR : Renamed` — every exported function has its own name (same theorems);
    * `hlit : leaves e2 = leaves e` (in 2.) — literal exactness: the constants of the second generation are those of
      the first, i.e. each printed literal is re-read with its value (C10 `lex_float_nearest`, `int_value_exact`, C01
      `literal_value_preserved`) and re-tagged to its kind with that value; checked value by value by the `C04.reelab`
      oracle on the real compiler;
    * `hs` — as in `reelab_no_new_casts` (its former second hypothesis on `out` arguments is gone: fix 3758fdd).
    The text leg (print ∘ parse = id on `a`) is `ParsesBack a`, see `fixpoint_expr_text`. -/
theorem fixpoint_expr {Γ Γ' : Env} (hR : Renamed Γ Γ') {nm : Names} {cx : Ctx} {ix : Idx}
    (hA : NamesAgree cx ix nm Γ') (hI : IdxInj ix) (dbg dbg' : Bool) {s : SExpr} {i : IExpr} {τ : ETy}
    (hs : SrcOk s) (hel : elabE dbg Γ s = .ok (i, τ))
    {e : Ir.Expr} (he : erase ix e = some i) {a : HlslAst.Expr} (hg : genExpr cx e = .ok a) :
    (∃ s', readBack nm a = some s' ∧ elabE dbg' Γ' s' = .ok (i, τ)) ∧
    (∀ e2, erase ix e2 = some i → leaves e2 = leaves e → e2 = e ∧ genExpr cx e2 = .ok a) := by
  refine ⟨?_, ?_⟩
  · obtain ⟨s', hrb, hu⟩ := bridge_square hA he hg
    exact ⟨s', hrb, reelab_no_new_casts hR dbg dbg' hs hel hu⟩
  · intro e2 he2 hlit
    have : e2 = e := skeleton_and_constants hI he2 he hlit
    subst this
    exact ⟨rfl, hg⟩

/-- **fixpoint_expr_text.**  With the C09 leg: the text printed for the first generation is read by the parser as the
    exported tree (so the front end sees `a`), and the text printed for the second generation — the print of the
    export of any `e2` as in `fixpoint_expr` — is byte for byte the text printed for the first. -/
theorem fixpoint_expr_text {cx : Ctx} {ix : Idx} (hI : IdxInj ix) {e : Ir.Expr} {i : IExpr} {a : HlslAst.Expr}
    (he : erase ix e = some i) (hg : genExpr cx e = .ok a) (hparse : ParsesBack a) :
    ∃ t, toFmt a = some t ∧ (∀ rest, RsslVerif.Thm.C09.Stops rest → ReadsBack t rest) ∧
      ∀ e2 a2 t2, erase ix e2 = some i → leaves e2 = leaves e → genExpr cx e2 = .ok a2 → toFmt a2 = some t2 →
        Format.render (Format.fmtExpr t2) = Format.render (Format.fmtExpr t) := by
  obtain ⟨t, ht, hrb⟩ := hparse
  refine ⟨t, ht, hrb, ?_⟩
  intro e2 a2 t2 he2 hlit hg2 ht2
  have : e2 = e := skeleton_and_constants hI he2 he hlit
  subst this
  rw [hg] at hg2
  cases hg2
  rw [ht] at ht2
  cases ht2
  rfl

/-- **fixpoint_stmt** (the statement forms of the C03 model: expression statement, `return`, initialised definition).
    The statement the exporter model of C01 generates (`GenHlsl.genStmt`: `generate_statement`,
    `generate_variable_definition`), read back by the front end, elaborates in the exported environment to the
    first-generation statement: the conversion to the return type / to the variable's type is found again and applied to
    the same effect.  (`if` / loops / `switch` / blocks carry no conversion of their own — conditions are elaborated
    like expression statements — and are outside the C03 statement model; their expressions are covered by
    `fixpoint_expr`, their print / parse round trip by C09.) -/
theorem fixpoint_stmt {Γ Γ' : Env} (hR : Renamed Γ Γ') {nm : Names} {cx : Ctx} {ix : Idx}
    (hA : NamesAgree cx ix nm Γ') (dbg dbg' : Bool) {s : SStmt} {st : IStmt} (hs : SrcStmtOk s)
    (hel : elabStmt dbg Γ s = .ok st)
    {stI : Ir.Stmt} (he : eraseStmt ix cx.vty stI = some st) {sa : HlslAst.Stmt} (hg : genStmt cx stI = .ok sa) :
    ∃ s', readBackStmt nm sa = some s' ∧ elabStmt dbg' Γ' s' = .ok st := by
  cases stI with
  | expr e =>
    simp only [eraseStmt] at he
    cases hee : erase ix e with
    | none => simp [hee] at he
    | some i =>
      simp [hee] at he; subst he
      simp only [genStmt] at hg
      cases hge : genExpr cx e with
      | error x => simp [hge, Except.map] at hg
      | ok a =>
        simp [hge, Except.map] at hg; subst hg
        obtain ⟨s', hrb, hu⟩ := bridge_square hA hee hge
        exact ⟨.expr s', by simp [readBackStmt, hrb], reelab_stmt_no_new_casts hR dbg dbg' hs hel (.expr hu)⟩
  | ret eo =>
    cases eo with
    | none =>
      simp [eraseStmt] at he; subst he
      simp [genStmt, genOptExpr, Except.map] at hg; subst hg
      exact ⟨.ret none, by simp [readBackStmt], reelab_stmt_no_new_casts hR dbg dbg' hs hel .retNone⟩
    | some e =>
      simp only [eraseStmt] at he
      cases hee : erase ix e with
      | none => simp [hee] at he
      | some i =>
        simp [hee] at he; subst he
        simp only [genStmt, genOptExpr] at hg
        cases hge : genExpr cx e with
        | error x => simp [hge, Except.map] at hg
        | ok a =>
          simp [hge, Except.map] at hg; subst hg
          obtain ⟨s', hrb, hu⟩ := bridge_square hA hee hge
          exact ⟨.ret (some s'), by simp [readBackStmt, hrb], reelab_stmt_no_new_casts hR dbg dbg' hs hel (.ret hu)⟩
  | var id init =>
    cases init with
    | none => simp [eraseStmt] at he
    | some e =>
      simp only [eraseStmt] at he
      cases hee : erase ix e with
      | none => simp [hee] at he
      | some i =>
        simp [hee] at he; subst he
        simp only [genStmt, genVarDef] at hg
        cases htn : typeName (cx.vty (.loc id)) with
        | error x => simp [htn] at hg
        | ok tn =>
          simp only [htn, genOptExpr] at hg
          cases hge : genExpr cx e with
          | error x => simp [hge, Except.map] at hg
          | ok a =>
            simp [hge, Except.map] at hg; subst hg
            obtain ⟨s', hrb, hu⟩ := bridge_square hA hee hge
            exact ⟨.init (eraseTy (cx.vty (.loc id))) s',
              by simp [readBackStmt, hrb, RsslVerif.Lemmas.FixpointBridge.tyOfName_typeName _ _ htn],
              reelab_stmt_no_new_casts hR dbg dbg' hs hel (.init hu)⟩
  | _ => simp [eraseStmt] at he

/-! ### non-vacuity: `a = b + 3` with `int a, b` -/

def cxEx : Ctx where
  locName n := match n with | 0 => "a" | 1 => "b" | _ => "v"
  globName _ := "g"
  funcName _ := "f"
  vty _ := .int

def ixEx : Idx where
  var v := match v with | .loc 0 => some 0 | .loc 1 => some 1 | _ => none
  func _ := none

def nmEx : Names where
  res n := if n = "a" then some 0 else if n = "b" then some 1 else none
  fres _ := none

def ΓInt : Env := { vars := [⟨{}, .scalar .int32⟩, ⟨{}, .scalar .int32⟩], funcs := [] }

/-- `Assignment(a, Add(b, Int32 3))` -/
def eEx : Ir.Expr :=
  .op .Assignment (.cons (.var 0) (.cons (.op .Add (.cons (.var 1) (.cons (.lit (.int32 3)) .nil))) .nil))

def aEx : HlslAst.Expr := .bin .Assignment (.ident "a") (.bin .Add (.ident "b") (.lit (.intUntyped 3)))

theorem namesAgreeEx : NamesAgree cxEx ixEx nmEx ΓInt where
  loc id j h := by
    match id, h with
    | 0, h => simp [ixEx] at h; subst h; rfl
    | 1, h => simp [ixEx] at h; subst h; rfl
    | n + 2, h => simp [ixEx] at h
  glob id j h := by simp [ixEx] at h
  func f j h := by simp [ixEx] at h

theorem idxInjEx : IdxInj ixEx where
  var v w j hv hw := by
    match v, w, hv, hw with
    | .loc 0, .loc 0, _, _ => rfl
    | .loc 1, .loc 1, _, _ => rfl
    | .loc 0, .loc 1, hv, hw => simp [ixEx] at hv hw; omega
    | .loc 1, .loc 0, hv, hw => simp [ixEx] at hv hw; omega
    | .loc (n + 2), _, hv, _ => simp [ixEx] at hv
    | _, .loc (n + 2), _, hw => simp [ixEx] at hw
    | .glob _, _, hv, _ => simp [ixEx] at hv
    | _, .glob _, _, hw => simp [ixEx] at hw
  func f g j hf _ := by simp [ixEx] at hf

/-- all hypotheses of `fixpoint_expr` and `fixpoint_expr_text` hold for the example: the text `a = b + 3` is parsed
    back to the exported tree, re-elaborated to the first-generation skeleton (the literal re-tagged to `Int32`
    again), and any second generation with the constant `3` prints `a = b + 3` again -/
example :
    (∃ s', readBack nmEx aEx = some s' ∧
      elabE true ΓInt s' = elabE true ΓInt (.bin .assignment (.var 0) (.bin .add (.var 1) (.lit .intLiteral)))) ∧
    ParsesBack aEx := by
  have hR : Renamed ΓInt ΓInt :=
    ⟨rfl, rfl, fun f sg h => by simp [ΓInt] at h, fun f g sf sg h => by simp [ΓInt] at h⟩
  have hel : ∃ i τ, elabE true ΓInt (.bin .assignment (.var 0) (.bin .add (.var 1) (.lit .intLiteral))) = .ok (i, τ) ∧
      erase ixEx eEx = some i := ⟨_, _, rfl, rfl⟩
  obtain ⟨i, τ, h1, h2⟩ := hel
  have hg : genExpr cxEx eEx = .ok aEx := by rfl
  obtain ⟨⟨s', hrb, hs'⟩, _⟩ := fixpoint_expr hR namesAgreeEx idxInjEx true true
    (by simp [SrcOk]; decide) h1 h2 hg
  refine ⟨⟨s', hrb, by rw [hs', h1]⟩, ?_⟩
  exact parsesBack_of_c09 (t := .bin .Assignment (.id "a") (.bin .Add (.id "b") (.lit ⟨.IntUntyped, false, 3⟩))) rfl
    (by simp [WF]; decide)

end Fixpoint

/-! ## name lookup of the emitted paths (`Model.FixpointNames`) -/
section Names
open RsslVerif.Model.FixpointNames RsslVerif.Lemmas.FixpointNames
open RsslVerif.Gen.RankTable RsslVerif.Gen.TypingTables
open RsslVerif.Model RsslVerif.Model.Conv RsslVerif.Model.Overload RsslVerif.Model.IrTyping RsslVerif.Model.Elab
open RsslVerif.Model.Fixpoint RsslVerif.Model.FixpointBridge RsslVerif.Model.GenHlsl

/-- **path_lookup_as_modelled.**  The lookup discipline `Model.FixpointNames.find` / `walkInto` / `findInScope` / `emitPath`
    mirror is the one of the current source: the bodies of `Context::find_identifier`, `Context::walk_into_scopes` and
    `scoped_name_to_identifier`, re-extracted on every run (`Gen.PathLookup`), are the transcribed ones; a relative
    identifier starts in the current scope and an absolute one in scope 0; the exporter builds relative identifiers;
    `find_identifier_in_scope` tries locals, then the symbol loop (functions are gathered, every value symbol returns,
    types / namespaces / enum scopes are skipped), then the overloads, then struct members, then types.  A change of the
    outward walk (seeded mutant C04-3: stop at the innermost scope that declares the first qualifier) breaks this
    obligation.  Declarations: `register_enum_value` refuses a value of the enum's own scope, then a local / global /
    cbuffer member / enum value / type / function of the scope that contains the enum, then (fix fe5dd8d) a namespace of
    that scope — `enumValueRefused`; the promotion loop of `end_enum` has no assertion about the other symbols of the
    name (a revert of the fix breaks both conjuncts). -/
theorem path_lookup_as_modelled :
    RsslVerif.Gen.PathLookup.findIdentifierSource = findIdentifierSource ∧
    RsslVerif.Gen.PathLookup.walkIntoScopesSource = walkIntoScopesSource ∧
    RsslVerif.Gen.PathLookup.scopedNameToIdentifierSource = scopedNameToIdentifierSource ∧
    RsslVerif.Gen.PathLookup.startScope = [("Relative", "self.current_scope"), ("Absolute", "0")] ∧
    RsslVerif.Gen.PathLookup.emittedBase = "Relative" ∧
    RsslVerif.Gen.PathLookup.findInScopeStages = findInScopeStages ∧
    RsslVerif.Gen.PathLookup.findInScopeArms = findInScopeArms ∧
    RsslVerif.Gen.PathLookup.enumValueChecks = enumValueChecks ∧
    RsslVerif.Gen.PathLookup.endEnumPromotion = endEnumPromotion :=
  ⟨rfl, rfl, rfl, rfl, rfl, rfl, rfl, rfl, rfl⟩

/-- the exporter's identifier for a qualified name is relative, its qualifiers and leaf are the segments in order -/
theorem emitPath_relative {full : List String} {p : Path} (h : emitPath full = some p) :
    p.abs = false ∧ p.quals ++ [p.leaf] = full := by
  unfold emitPath at h
  split at h
  · cases h
  · rename_i leaf rq hrev
    cases h
    refine ⟨rfl, ?_⟩
    have : full = (leaf :: rq).reverse := by rw [← hrev, List.reverse_reverse]
    simp [this]

/-- one use of the exported program: the scope it stands in, the full printed path (from the root) of the entity the
    first generation resolved it to, and that entity -/
structure EmittedUse where
  scope : Nat
  full : List String
  ent : Model.FixpointNames.Res

/-- **PathsResolveBack** — what the re-resolution of the emitted paths must satisfy for the second generation to be
    the first (the name-hygiene hypothesis of `fixpoint_expr`, spelled out for qualified names): in the scope table `T'`
    the front end has built from the exported program when it reaches the use, `find_identifier` — started in the scope of
    the use, with the *relative* identifier `scoped_name_to_identifier` builds from the full path of the entity — returns
    that entity. -/
def PathsResolveBack (T' : Table) (uses : List EmittedUse) : Prop :=
  ∀ u ∈ uses, ∃ p, emitPath u.full = some p ∧ find T' u.scope p = .ok (some u.ent)

/-- the full path denotes the entity when it is followed from the root of the exported program (`get_name_qualified`
    lists the namespaces from the root; names are unique per scope in the output: C15 `injective_per_scope`) -/
def DenotesFromRoot (T' : Table) (u : EmittedUse) : Prop :=
  ∃ p, emitPath u.full = some p ∧ resolveAt T' 0 p.quals p.leaf = .ok (some u.ent)

/-- no scope between the use and the root resolves the whole emitted path -/
def NoCloserMatch (T' : Table) (u : EmittedUse) : Prop :=
  ∃ p, emitPath u.full = some p ∧ ∀ v, OnChain T' u.scope v → v ≠ 0 → resolveAt T' v p.quals p.leaf = .ok none

/-- no scope between the use and the root declares anything under the first name of the emitted path ("no homonymous
    inner scope") -/
def NoInnerHomonym (T' : Table) (u : EmittedUse) : Prop :=
  ∃ p, emitPath u.full = some p ∧
    ∀ v sc, OnChain T' u.scope v → v ≠ 0 → T'[v]? = some sc → Undeclared sc (headName p.quals p.leaf)

theorem noCloserMatch_of_noInnerHomonym {T' : Table} (wf : TableWF T') {u : EmittedUse} (hu : u.scope < T'.length)
    (h : NoInnerHomonym T' u) : NoCloserMatch T' u := by
  obtain ⟨p, hp, hno⟩ := h
  exact ⟨p, hp, clear_of_undeclared wf hu hno⟩

/-- **emitted_path_resolves_of_no_closer_match** (the code's discipline, full strength): in a well-formed scope table, an
    emitted path that denotes its entity from the root and that no scope between the use and the root resolves is looked
    up, from the scope of the use, to that entity — for every table, every nesting depth, every path length. -/
theorem emitted_path_resolves_of_no_closer_match {T' : Table} (wf : TableWF T') (u : EmittedUse) (hu : u.scope < T'.length)
    (hd : DenotesFromRoot T' u) (hc : NoCloserMatch T' u) :
    ∃ p, emitPath u.full = some p ∧ find T' u.scope p = .ok (some u.ent) := by
  obtain ⟨p, hp, hroot⟩ := hd
  obtain ⟨p', hp', hclear⟩ := hc
  rw [hp] at hp'; cases hp'
  refine ⟨p, hp, ?_⟩
  have hrel := (emitPath_relative hp).1
  have : p = ⟨false, p.quals, p.leaf⟩ := by cases p; simp_all
  rw [this]
  exact find_of_root_only wf hu hroot hclear

/-- **emitted_path_resolves_to_same_entity**: for scope trees without a homonymous inner scope — nothing between the use
    and the root declares the first name of the emitted path — the emitted path is looked up to the entity it was printed
    for, **under both disciplines**: the code's (retry the whole path from every enclosing scope) and the one of seeded
    mutant C04-3 (stop where the first qualifier resolves).  The two differ only on tables with such a homonym
    (`mutant_discipline_loses_emitted_path`). -/
theorem emitted_path_resolves_to_same_entity {T' : Table} (wf : TableWF T') (u : EmittedUse) (hu : u.scope < T'.length)
    (hd : DenotesFromRoot T' u) (hn : NoInnerHomonym T' u) :
    ∃ p, emitPath u.full = some p ∧ find T' u.scope p = .ok (some u.ent) ∧ findStop T' u.scope p = .ok (some u.ent) := by
  obtain ⟨p, hp, hf⟩ := emitted_path_resolves_of_no_closer_match wf u hu hd (noCloserMatch_of_noInnerHomonym wf hu hn)
  obtain ⟨p1, hp1, hroot⟩ := hd
  obtain ⟨p2, hp2, hno⟩ := hn
  rw [hp] at hp1 hp2; cases hp1; cases hp2
  refine ⟨p, hp, hf, ?_⟩
  have hrel := (emitPath_relative hp).1
  have : p = ⟨false, p.quals, p.leaf⟩ := by cases p; simp_all
  rw [this]
  exact findStop_of_undeclared wf hu hroot hno

/-- `PathsResolveBack` holds for every exported program whose uses have no closer match — in particular
    (`noCloserMatch_of_noInnerHomonym`) when no inner scope reuses the first name of an emitted path -/
theorem pathsResolveBack_of_no_closer_match {T' : Table} (wf : TableWF T') (uses : List EmittedUse)
    (h : ∀ u ∈ uses, u.scope < T'.length ∧ DenotesFromRoot T' u ∧ NoCloserMatch T' u) : PathsResolveBack T' uses :=
  fun u hu => emitted_path_resolves_of_no_closer_match wf u (h u hu).1 (h u hu).2.1 (h u hu).2.2

/-- the tables of the descriptor machine are well formed: `TableWF` is not an assumption for the programs of the
    `C04.names` stream -/
theorem machine_tables_wf (is : List Instr) : TableWF (run is).T ∧ (run is).cur < (run is).T.length :=
  ⟨(run_inv is).wf, (run_inv is).cur⟩

/-! ### witnesses -/

/-- **enum_value_named_like_namespace_refused** (fix fe5dd8d; until then the real front end panicked in `end_enum`, the
    model predicted `g1:panic` and the input was a known finding).  For every descriptor prefix `pre`, every enum — any
    name, any list of values — one of whose values is spelled like a namespace / enum scope of the scope the enum stands
    in, and every continuation `rest`: the compilation of `pre ++ en n vals :: rest` does not end with every use
    resolved (`register_enum_value` returns `ValueAlreadyDefined`; `verdictOf` is `reject`, or the outcome of a use in
    front of the enum).  No bound on depth, number of values or position of the value. -/
theorem enum_value_named_like_namespace_refused (pre rest : List Instr) (n : String) {vals : List String} {v : String}
    (hv : v ∈ vals) (hns : HasScopeSym (run pre).T (run pre).cur v) (xs : List String) :
    verdictOf (run (pre ++ .en n vals :: rest)) ≠ .resolved xs :=
  run_en_refused pre rest n hv hns xs

/-- the step itself, in every state: the refusal is recorded with the number of uses in front of the enum -/
theorem enum_value_named_like_namespace_refused_step (st : St) (n : String) {vals : List String} {v : String} (hv : v ∈ vals)
    (hns : HasScopeSym st.T st.cur v) :
    ∃ why, (exec st (.en n vals)).refused = st.refused.orElse fun _ => some (st.uses.length, why) :=
  exec_en_refused st n hv hns

/-- non-vacuity and the former reproducer: `namespace A {} enum E { A };` (corpus: `ns A end en E A end`) is refused —
    also with other values around it, inside a namespace, and with a use in front; an enum whose values meet no
    namespace is accepted and its uses resolve (`ns A end en E B end` + a use of `B`) -/
example :
    HasScopeSym (run [.ns "A", .end]).T (run [.ns "A", .end]).cur "A" ∧
    verdictOf (run [.ns "A", .end, .en "E" ["A"]]) = .reject ∧
    verdictOf (run [.ns "M", .ns "A", .gv "q", .end, .gv "g", .fn "f" "-", .use .v ⟨false, [], "g"⟩, .end,
                    .en "E" ["V1", "A", "V2"], .end]) = .reject ∧
    (run [.ns "A", .end, .en "E" ["B"], .fn "f" "-", .use .e ⟨false, [], "B"⟩, .end]).refused = none ∧
    verdictOf (run [.ns "A", .end, .en "E" ["B"], .fn "f" "-", .use .e ⟨false, [], "B"⟩, .end]) = .resolved ["v1"] := by
  refine ⟨⟨_, rfl, by decide⟩, by decide, by decide, by decide, by decide⟩

/-- `namespace Util { int twice(int); } namespace App { namespace Util { int halve(int); } int f(int) { ::Util::twice(K); } }` -/
def homonymInstrs : List Instr :=
  [.ns "Util", .fn "twice" "-", .end, .end,
   .ns "App", .ns "Util", .fn "halve" "-", .end, .end, .fn "f" "-", .use .f ⟨true, ["Util"], "twice"⟩, .end, .end]

def homonymTable : Table := (run homonymInstrs).T

/-- the use `::Util::twice` of `App::f`: scope 6 (the body of `f`), entity 0 (`Util::twice`), emitted `Util::twice` -/
def homonymUse : EmittedUse := ⟨6, ["Util", "twice"], .fns [0]⟩

/-- the machine puts the use there and resolves the source path to that entity -/
example : (run homonymInstrs).uses.map (fun u => (u.scope, u.res)) = [(6, .ok (some (.fns [0])))] := by decide

/-- **mutant_discipline_loses_emitted_path** (negation witness for the discipline of seeded mutant C04-3): with a nested
    namespace `App::Util` next to `::Util`, the emitted path `Util::twice` denotes `twice` from the root and no enclosing
    scope resolves the whole path (so the code's discipline finds it: `PathsResolveBack` holds), but `App` declares the
    first qualifier — the stop-at-the-first-qualifier discipline gives up in `App` and reports an unknown identifier.
    The same program is the first entry of `SEARCH_NAMES` / corpus and is rejected by the real compiler with the mutant. -/
theorem mutant_discipline_loses_emitted_path :
    DenotesFromRoot homonymTable homonymUse ∧
    PathsResolveBack homonymTable [homonymUse] ∧
    findStop homonymTable homonymUse.scope ⟨false, ["Util"], "twice"⟩ = .ok none ∧
    ¬ NoInnerHomonym homonymTable homonymUse := by
  refine ⟨⟨⟨false, ["Util"], "twice"⟩, by decide, by decide⟩, ?_, by decide, ?_⟩
  · intro u hu
    simp only [List.mem_singleton] at hu
    subst hu
    exact ⟨⟨false, ["Util"], "twice"⟩, by decide, by decide⟩
  · rintro ⟨p, hp, hno⟩
    have hp' : p = ⟨false, ["Util"], "twice"⟩ := by
      have : emitPath homonymUse.full = some ⟨false, ["Util"], "twice"⟩ := by decide
      rw [this] at hp; cases hp; rfl
    subst hp'
    -- scope 3 is `App`, the parent of the body of `f`; it declares `Util`
    have hch : OnChain homonymTable 6 3 := .step (sc := homonymTable[6]) (by decide) (by decide) (.refl 3)
    have := hno 3 homonymTable[3] hch (by decide) (by decide)
    exact absurd (undeclared_iff.mpr this) (by decide)

/-- `namespace Util { int twice(int); } namespace App { namespace Util { int twice(int); } int f(int) { ::Util::twice(K); } }` -/
def captureInstrs : List Instr :=
  [.ns "Util", .fn "twice" "-", .end, .end,
   .ns "App", .ns "Util", .fn "twice" "-", .end, .end, .fn "f" "-", .use .f ⟨true, ["Util"], "twice"⟩, .end, .end]

/-- **emitted_path_captured_witness** (negation witness on the current code — the known findings
    `names:relative-path-captured/..`, C15 `relative-path-resolves-elsewhere`): when a scope between the use and the root
    resolves the whole emitted path, the code's discipline returns that closer entity: `::Util::twice` (entity 0), emitted
    as `Util::twice` inside `App`, is looked up to `App::Util::twice` (entity 2), so `PathsResolveBack` fails.  Replayed on
    the real compiler (corpus): the second generation prints `App::Util::twice`. -/
theorem emitted_path_captured_witness :
    (run captureInstrs).uses.map (fun u => (u.scope, u.res)) = [(6, .ok (some (.fns [0])))] ∧
    find (run captureInstrs).T 6 ⟨false, ["Util"], "twice"⟩ = .ok (some (.fns [2])) ∧
    ¬ PathsResolveBack (run captureInstrs).T [⟨6, ["Util", "twice"], .fns [0]⟩] := by
  refine ⟨by decide, by decide, ?_⟩
  intro h
  obtain ⟨p, hp, hf⟩ := h ⟨6, ["Util", "twice"], .fns [0]⟩ (by simp)
  have : emitPath ["Util", "twice"] = some ⟨false, ["Util"], "twice"⟩ := by decide
  rw [this] at hp; cases hp
  revert hf
  decide

/-- `namespace Util { int twice(int); } namespace App { namespace Detail { int halve(int); } int f(int) { ::Util::twice(K); } }` -/
def plainInstrs : List Instr :=
  [.ns "Util", .fn "twice" "-", .end, .end,
   .ns "App", .ns "Detail", .fn "halve" "-", .end, .end, .fn "f" "-", .use .f ⟨true, ["Util"], "twice"⟩, .end, .end]

/-- non-vacuity of `emitted_path_resolves_to_same_entity`: the table of a program with nested namespaces of other names
    satisfies every hypothesis (well-formedness comes from `machine_tables_wf`), and both disciplines find the entity -/
example :
    ∃ p, emitPath ["Util", "twice"] = some p ∧ find (run plainInstrs).T 6 p = .ok (some (.fns [0])) ∧
      findStop (run plainInstrs).T 6 p = .ok (some (.fns [0])) := by
  have wf := (machine_tables_wf plainInstrs).1
  exact emitted_path_resolves_to_same_entity wf ⟨6, ["Util", "twice"], .fns [0]⟩ (by decide)
    ⟨⟨false, ["Util"], "twice"⟩, by decide, by decide⟩
    ⟨⟨false, ["Util"], "twice"⟩, by decide,
      undeclared_of_noInnerHomonymB wf (u := 6) (h := "Util") (by decide)⟩

/-! ### from `PathsResolveBack` to the name hypothesis of `fixpoint_expr` -/

/-- the lookup of the exported program seen from one use position, as the `Names` the front-end model `readBack` asks:
    `dec` splits a printed identifier into its path, `pos` / `fpos` give the position (in the C03 environment) of the
    variable / function an entity of the table is -/
def namesAt (T' : Table) (u : Nat) (dec : String → Option Path) (pos fpos : Model.FixpointNames.Res → Option Nat) : Names where
  res s := (dec s).bind fun p => match find T' u p with
    | .ok (some r) => pos r
    | _ => none
  fres s := (dec s).bind fun p => match find T' u p with
    | .ok (some r) => fpos r
    | _ => none

/-- **namesAgree_of_pathsResolveBack**: when every name the exporter printed for a variable / function of the expression
    is the emitted path of a use (at position `u`) for which `PathsResolveBack` holds, the lookup of the exported program
    agrees with the exporter's names — the hypothesis `NamesAgree` of `bridge_square` / `fixpoint_expr`. -/
theorem namesAgree_of_pathsResolveBack {T' : Table} {u : Nat} {dec : String → Option Path} {pos fpos : Model.FixpointNames.Res → Option Nat}
    {cx : Ctx} {ix : Idx} {Γ' : Env} (uses : List EmittedUse) (hP : PathsResolveBack T' uses)
    (hloc : ∀ id j, ix.var (.loc id) = some j →
      ∃ e ∈ uses, e.scope = u ∧ dec (cx.locName id) = emitPath e.full ∧ pos e.ent = some j)
    (hglob : ∀ id j, ix.var (.glob id) = some j →
      ∃ e ∈ uses, e.scope = u ∧ dec (cx.globName id) = emitPath e.full ∧ pos e.ent = some j)
    (hfunc : ∀ f j, ix.func f = some j →
      (∃ e ∈ uses, e.scope = u ∧ dec (cx.funcName f) = emitPath e.full ∧ fpos e.ent = some j) ∧
      ∃ sg, Γ'.funcs[j]? = some sg ∧ sg.name = j) :
    NamesAgree cx ix (namesAt T' u dec pos fpos) Γ' := by
  have key : ∀ (s : String) (e : EmittedUse), e ∈ uses → e.scope = u → dec s = emitPath e.full →
      ∀ g : Model.FixpointNames.Res → Option Nat, ((dec s).bind fun p => match find T' u p with
        | .ok (some r) => g r
        | _ => none) = g e.ent := by
    intro s e he hu hd g
    obtain ⟨p, hp, hf⟩ := hP e he
    rw [hd, hp, ← hu]
    simp [hf]
  refine ⟨?_, ?_, ?_⟩
  · intro id j h
    obtain ⟨e, he, hu, hd, hpos⟩ := hloc id j h
    simp only [namesAt]
    rw [key _ e he hu hd pos, hpos]
  · intro id j h
    obtain ⟨e, he, hu, hd, hpos⟩ := hglob id j h
    simp only [namesAt]
    rw [key _ e he hu hd pos, hpos]
  · intro f j h
    obtain ⟨⟨e, he, hu, hd, hpos⟩, hsg⟩ := hfunc f j h
    refine ⟨?_, hsg⟩
    simp only [namesAt]
    rw [key _ e he hu hd fpos, hpos]

/-- **fixpoint_expr_paths** — `fixpoint_expr` with the name hypothesis stated on the scope table of the exported program:
    if the emitted paths resolve back (`PathsResolveBack`, e.g. by `pathsResolveBack_of_no_closer_match`), the exported
    tree read back through that table elaborates to the first-generation skeleton again, and the second generation is the
    first. -/
theorem fixpoint_expr_paths {Γ Γ' : Env} (hR : Renamed Γ Γ') {T' : Table} {u : Nat} {dec : String → Option Path}
    {pos fpos : Model.FixpointNames.Res → Option Nat} {cx : Ctx} {ix : Idx} (uses : List EmittedUse) (hP : PathsResolveBack T' uses)
    (hloc : ∀ id j, ix.var (.loc id) = some j →
      ∃ e ∈ uses, e.scope = u ∧ dec (cx.locName id) = emitPath e.full ∧ pos e.ent = some j)
    (hglob : ∀ id j, ix.var (.glob id) = some j →
      ∃ e ∈ uses, e.scope = u ∧ dec (cx.globName id) = emitPath e.full ∧ pos e.ent = some j)
    (hfunc : ∀ f j, ix.func f = some j →
      (∃ e ∈ uses, e.scope = u ∧ dec (cx.funcName f) = emitPath e.full ∧ fpos e.ent = some j) ∧
      ∃ sg, Γ'.funcs[j]? = some sg ∧ sg.name = j)
    (hI : IdxInj ix) (dbg dbg' : Bool) {s : SExpr} {i : IExpr} {τ : ETy}
    (hs : SrcOk s) (hel : elabE dbg Γ s = .ok (i, τ))
    {e : Ir.Expr} (he : erase ix e = some i) {a : HlslAst.Expr} (hg : genExpr cx e = .ok a) :
    (∃ s', readBack (namesAt T' u dec pos fpos) a = some s' ∧ elabE dbg' Γ' s' = .ok (i, τ)) ∧
    (∀ e2, erase ix e2 = some i → leaves e2 = leaves e → e2 = e ∧ genExpr cx e2 = .ok a) :=
  fixpoint_expr hR (namesAgree_of_pathsResolveBack uses hP hloc hglob hfunc) hI dbg dbg' hs hel he hg

end Names

/-! ## Template value arguments: the literal KIND leg (seeded mutant C04-4)

`leaf_value_preserved` speaks of the *values* of constants.  A constant also has a *kind*, and the printed text carries
it only through its spelling: `3` is an `IntLiteral`, `3u` a `UInt32`, `true` a `Bool` — an `Int32` has no spelling of
its own (`reread_only_int32`).  For constants that arise under a conversion (`int y = 3;`) the conversion is found again
(`reelab_no_new_casts`).  A template value parameter is the place where a constant enters an expression **without** a
conversion: every use of `N` inside the instance is a constant of the kind recorded for the argument. -/
section Template
open RsslVerif.Gen.RankTable RsslVerif.Gen.TypingTables
open RsslVerif.Model.Conv RsslVerif.Model.Overload RsslVerif.Model.IrTyping RsslVerif.Model.Elab RsslVerif.Model.Fixpoint
open RsslVerif.Model.FixpointTemplate RsslVerif.Lemmas.FixpointTemplate RsslVerif.Lemmas.FixpointElab
open RsslVerif.Lemmas.FixpointStmt

/-- **template_const_as_modelled** (obligation, re-extracted on every run by `Gen.TemplateConst`): `find_overload_casts`
    records a constant template argument unchanged (`Constant(c) => Constant(c)`: `recordKind = restrictKind`; seeded
    mutant C04-4 breaks this conjunct); `parse_and_evaluate_constant_expression` and `unrestrict` keep the kind of every
    constant (`restrictKind`, `unrestrictKind`; the 64-bit kinds are outside `Scalar`); the instance gets
    `ScopeSymbol::Constant(c.unrestrict())` for the parameter (`substValue`); the call site prints
    `generate_literal(c.unrestrict())` (`secondRecordKind` goes through `rereadKind`); the parameter's printed type name
    per kind is `valueTypeName`. -/
theorem template_const_as_modelled :
    RsslVerif.Gen.TemplateConst.recordArms =
      [("Type", "ir::TypeOrConstant::Type(normalize_template_type(ty, context))"),
       ("Constant", "ir::TypeOrConstant::Constant(c)")] ∧
    (∀ k : Scalar, (RsslVerif.Gen.TemplateConst.restrictTable.find? (fun r => r.1 == k.name)).map (·.2) =
      (restrictKind k).map Scalar.name) ∧
    (∀ r ∈ RsslVerif.Gen.TemplateConst.restrictTable, r.1 = r.2) ∧
    (∀ r ∈ RsslVerif.Gen.TemplateConst.unrestrictTable, r.1 = r.2) ∧
    (∀ r ∈ RsslVerif.Gen.TemplateConst.restrictTable, r ∈ RsslVerif.Gen.TemplateConst.unrestrictTable) ∧
    RsslVerif.Gen.TemplateConst.substitutedSymbol = "ScopeSymbol::Constant(c.clone().unrestrict())" ∧
    RsslVerif.Gen.TemplateConst.callSiteExpr = "generate_literal(&c.clone().unrestrict(), context)?" ∧
    (∀ k : Scalar, (RsslVerif.Gen.TemplateConst.valueTypeNames.find? (fun r => r.1 == k.name)).map (·.2) =
      valueTypeName k) := by
  refine ⟨rfl, ?_, by decide, by decide, by decide, rfl, rfl, ?_⟩
  · intro k; cases k <;> decide
  · intro k; cases k <;> decide

/-- **emitted_literal_kind_stable** — the KIND clause next to `leaf_value_preserved`.  (1) every constant kind except
    `Int32` is read back from its printed spelling with the kind the IR constant had (all eight scalar kinds are
    printed and accepted); (2) a template argument the parser can write as a literal (any suffix kind `l` that
    `parse_literal` accepts and the evaluator admits as a template argument) is recorded with a kind `r` that is not
    `Int32`, the constant substituted for the parameter has that kind, and the second compilation — which sees the
    argument as printed at the call site — records `r` again; (3) in general the second compilation records
    `if r = Int32 then IntLiteral else r`.  Under the discipline of seeded mutant C04-4 (2) is false
    (`mutant_discipline_loses_literal_kind`). -/
theorem emitted_literal_kind_stable :
    (∀ k : Scalar, k ≠ .int32 → rereadKind? k = some k) ∧
    (∀ (l : RsslVerif.Gen.HlslGenTables.LitKind) (k r : Scalar), rereadTable l = some k → recordKind k = some r →
      r ≠ .int32 ∧ instanceKind r = k ∧ rereadKind (instanceKind r) = instanceKind r ∧ secondRecordKind r = some r) ∧
    (∀ k r : Scalar, recordKind k = some r → secondRecordKind r = some (if r = .int32 then .intLiteral else r)) := by
  refine ⟨?_, ?_, ?_⟩
  · intro k hk; cases k <;> first | exact absurd rfl hk | decide
  · intro l k r hl hr
    cases l <;> simp [rereadTable] at hl <;> subst hl <;> revert hr <;> cases r <;> decide
  · intro k r hr
    cases k <;> simp [recordKind, restrictKind] at hr <;> subst hr <;> decide

/-- the second generation of an instance body.  Let `body` be a template body the parser can produce (`SrcOk`), `x` its
    value parameter and `r` the kind recorded for the argument, **not `Int32`** (by `emitted_literal_kind_stable` every
    argument written as a literal qualifies).  Then the instance body `substValue x r body` is again a parser-producible
    tree, so `reelab_no_new_casts` applies to it: every tree read from the export of its elaboration elaborates to the
    same IR — no conversion appears around `N + 1`. -/
theorem template_instance_reelab {Γ Γ' : Env} (hR : Renamed Γ Γ') (dbg dbg' : Bool) (x : Nat) {r : Scalar}
    (hr : r ≠ .int32) {body : SExpr} (hb : SrcOk body) {i : IExpr} {τ : ETy}
    (h : elabE dbg Γ (substValue x (instanceKind r) body) = .ok (i, τ)) {s' : SExpr} (hu : Unelab Γ' i s') :
    elabE dbg' Γ' s' = .ok (i, τ) :=
  reelab_no_new_casts hR dbg dbg' (subst_srcOk x (rereadKind_of_ne hr) body hb) h hu

/-- …and for the statements of the C03 model (initialised definition, `return`, expression statement) -/
theorem template_instance_reelab_stmt {Γ Γ' : Env} (hR : Renamed Γ Γ') (dbg dbg' : Bool) (x : Nat) {r : Scalar}
    (hr : r ≠ .int32) {body : SStmt} (hb : SrcStmtOk body) {st : IStmt}
    (h : elabStmt dbg Γ (substStmt x (instanceKind r) body) = .ok st) {s' : SStmt} (hu : UnelabStmt Γ' st s') :
    elabStmt dbg' Γ' s' = .ok st :=
  reelab_stmt_no_new_casts hR dbg dbg' (substStmt_srcOk x (rereadKind_of_ne hr) body hb) h hu

/-- `template<int N> .. { int y = N + 1; }`: variable 0 is `N`, variable 1 an `int` -/
def ΓTpl : Env := { vars := [⟨{}, .scalar .int32⟩, ⟨{}, .scalar .int32⟩], funcs := [] }

/-- `int y = N + 1;` -/
def tplBody : SStmt := .init ⟨{}, .scalar .int32⟩ (.bin .add (.var 0) (.lit .intLiteral))

/-- non-vacuity of `template_instance_reelab_stmt`: `f<3>` — the instance body `int y = 3 + 1;` (literal arithmetic under
    a conversion to `int`) is accepted, its export `int y = (int)(3 + 1);` is accepted and elaborates to the same
    statement; `f<3u>` likewise -/
example :
    (match elabStmt true ΓTpl (substStmt 0 (instanceKind .intLiteral) tplBody) with
     | .ok (.init t (.cast c (.op .add args))) =>
       (match unelab (uniqueNames ΓTpl) (.cast c (.op .add args)) with
        | some s' => (match elabStmt false (uniqueNames ΓTpl) (.init t s') with
                      | .ok (.init _ (.cast _ (.op .add _))) => true
                      | _ => false)
        | none => false)
     | _ => false) = true := by decide

/-- **emitted_literal_kind_int32_witness** (negation witness on the *current* code = known finding `a template value
    argument of kind Int32 is printed bare`): `static const int K = 3; .. f<K>(..)` records `Int32`; the second
    compilation records `IntLiteral`; the instance body `int y = N + 1;` is `int y = Add(Int32, Int32)` (no cast: the
    literal `1` is re-tagged), its export reads `Add(IntLiteral, IntLiteral)` and elaborates to
    `int y = Cast(int, Add(IntLiteral, IntLiteral))` — printed `(int)(3 + 1)`: accepted, not a fixpoint.  So the
    hypothesis `r ≠ Int32` of `template_instance_reelab_stmt` can not be dropped.  Reproducer in corpus/C04.txt. -/
theorem emitted_literal_kind_int32_witness :
    recordKind .int32 = some .int32 ∧ secondRecordKind .int32 = some .intLiteral ∧
    rereadKind (instanceKind .int32) ≠ instanceKind .int32 ∧
    (match elabStmt true ΓTpl (substStmt 0 (instanceKind .int32) tplBody) with
     | .ok (.init t (.op .add (.cons (.lit .int32) (.cons (.lit .int32) .nil)))) =>
       (match unelab (uniqueNames ΓTpl) (.op .add (.cons (.lit .int32) (.cons (.lit .int32) .nil))) with
        | some s' => (match elabStmt true (uniqueNames ΓTpl) (.init t s') with
                      | .ok (.init _ (.cast _ (.op .add (.cons (.lit .intLiteral) (.cons (.lit .intLiteral) .nil))))) => true
                      | _ => false)
        | none => false)
     | _ => false) = true := by
  refine ⟨by decide, by decide, by decide, by decide⟩

/-- **mutant_discipline_loses_literal_kind** (negation witness for the discipline of seeded mutant C04-4, `f<3>` with
    `normalize_template_constant`): a literal argument is recorded as `Int32`, the second compilation — which applies the
    same discipline to the re-read `IntLiteral` — records `Int32` again, but the *body* of the instance was printed with
    bare constants, so by `emitted_literal_kind_int32_witness` its second generation differs.  Clause (2) of
    `emitted_literal_kind_stable` fails for it: the recorded kind of a literal argument is `Int32`. -/
theorem mutant_discipline_loses_literal_kind :
    rereadTable .IntUntyped = some .intLiteral ∧ recordKindNormalized .intLiteral = some .int32 ∧
    recordKind .intLiteral = some .intLiteral ∧
    rereadKind (instanceKind .int32) = .intLiteral := by
  refine ⟨rfl, by decide, by decide, by decide⟩

end Template

/-! ## Generated names are reserved against locals (seeded mutant C04-5)

A type is emitted as a root-relative path, a local / parameter as a plain identifier, and `find_identifier_in_scope`
looks at the locals of a scope first (`path_lookup_as_modelled`, stage order).  So the emitted text is only read back
if no local is printed with the name of a type its scope uses.  For names the exporter *keeps* this is the known
capture class (`names:relative-path-captured/..:by-local`, finding 3); for names the exporter *generates*
(`texture` → `texture_0`) it is a theorem about `NameMap::build` (C15's model `Model.Names.build`), all inputs. -/
section GeneratedNames
open RsslVerif.Model.Names RsslVerif.Lemmas.FixpointGenNames

/-- **generated_names_reserved_as_modelled** (obligation, re-extracted on every run by `Gen.NameReserve`): the statements
of `NameMap::build` that touch `used_names_all_scopes`, in source order with the loops around them — the set is created
(from the reserved names) *before* the per-scope loop; inside that loop every candidate that could be inserted into the
scope's `used_names` is recorded in it (`St.gen` of `Model.Names.assignSym`); the usage loop adds the names of used
functions / globals (`usedNames`); the local pass tests membership in this set and extends it (`assignLocals`:
`reserved ++ gen of all scopes ++ usedNames`).  Breaks under seeded mutant C04-5 (declaration after the loop, candidate
not recorded). -/
theorem generated_names_reserved_as_modelled :
    Gen.NameReserve.allScopesEvents =
      [("", "", "let mut used_names_all_scopes = reserved_name_set.clone();"),
       ("for scope in &scopes > for (name, symbols) in name_to_symbol_vec > for symbol in symbols > loop",
        "if used_names.insert(candidate.clone())", "used_names_all_scopes.insert(candidate.clone());"),
       ("for id in module.function_registry.iter() > for used_symbol in usage.get_usage_for_function(id)",
        "if let Some(name_string) = name_map.names.get(&symbol)", "used_names_all_scopes.insert(name_string.name.clone());"),
       ("for id in module.variable_registry.iter()", "", "let picked_name = if used_names_all_scopes.contains(name)"),
       ("for id in module.variable_registry.iter() > loop", "",
        "if !all_local_names.contains(&candidate) && used_names_all_scopes.insert(candidate.clone())")] ∧
    (Gen.NameReserve.topLevelOrder.dropWhile (· ≠ "let mut used_names_all_scopes = reserved_name_set.clone();")).take 2 =
      ["let mut used_names_all_scopes = reserved_name_set.clone();", "for scope in &scopes"] := by
  decide

/-- **local_meets_only_kept_names** (full, every input of the model): a local variable / parameter that is printed with
the name of a namespace, struct, enum, enum value, global or function (of any scope) meets a symbol that *kept its source
name*.  (`hwf`: the module's entries are not local variables.) -/
theorem local_meets_only_kept_names {reserved : List String} {inp : Input} {names : List Named}
    (h : build reserved inp = .ok names) (hwf : ∀ e, e ∈ inp.entries → e.sym.kind ≠ .localVar) :
    ∀ l ∈ names, ∀ g ∈ names, l.sym.kind = .localVar → g.sym.kind ≠ .localVar → l.name = g.name →
      (g.name, g.sym) ∈ scopeSyms inp g.scope :=
  Lemmas.FixpointGenNames.local_meets_only_kept_names h hwf

/-- **generated_names_apart_from_locals** (full): a symbol printed under a generated name (it has no source name equal to
the printed one) shares that name with no local variable / parameter — in the emitted text no local shadows a renamed
type, enum value, namespace, function or global. -/
theorem generated_names_apart_from_locals {reserved : List String} {inp : Input} {names : List Named}
    (h : build reserved inp = .ok names) (hwf : ∀ e, e ∈ inp.entries → e.sym.kind ≠ .localVar) :
    ∀ l ∈ names, ∀ g ∈ names, l.sym.kind = .localVar → g.sym.kind ≠ .localVar →
      (∀ src, (src, g.sym) ∈ scopeSyms inp g.scope → src ≠ g.name) → l.name ≠ g.name :=
  Lemmas.FixpointGenNames.generated_names_apart_from_locals h hwf

/-- `struct texture`, a namespace `A` next to a struct `A`, parameters `texture_0`, `A_1` -/
def nonVacGenerated : Input :=
  { nss := [(none, "A")], locals := ["texture_0", "A_1"], used := [],
    entries := [⟨⟨.struct, 0⟩, none, "texture"⟩, ⟨⟨.struct, 1⟩, none, "A"⟩] }

/-- non-vacuity: `build` succeeds on `nonVacGenerated`, its entries are not locals, the two structs are printed under
generated names (`texture_0`, `A_1`: the hypothesis "no source name equals the printed name" holds for them) and the locals
step aside -/
example :
    (build Gen.Reserved.hlsl nonVacGenerated).toOption.map (·.map (fun n => (n.sym.kind, n.name))) =
      some [(.ns, "A_0"), (.struct, "A_1"), (.struct, "texture_0"), (.localVar, "texture_0_0"), (.localVar, "A_1_0")] ∧
    (∀ e, e ∈ nonVacGenerated.entries → e.sym.kind ≠ .localVar) ∧
    (∀ src, (src, (⟨.struct, 0⟩ : Sym)) ∈ scopeSyms nonVacGenerated none → src ≠ "texture_0") ∧
    (∀ src, (src, (⟨.struct, 1⟩ : Sym)) ∈ scopeSyms nonVacGenerated none → src ≠ "A_1") := by
  have h : ∀ p ∈ scopeSyms nonVacGenerated none,
      (p.2 = ⟨.struct, 0⟩ → p.1 ≠ "texture_0") ∧ (p.2 = ⟨.struct, 1⟩ → p.1 ≠ "A_1") := by decide +kernel
  exact ⟨by decide +kernel, by decide +kernel, fun src hs => (h _ hs).1 rfl, fun src hs => (h _ hs).2 rfl⟩

/-- **late_set_loses_generated_type_names** (negation witness for the discipline of seeded mutant C04-5, `buildLate`,
**not** the code): with the set created after the per-scope loop, `struct texture`, `enum pass` and the locals
`texture_0`, `pass_0` are printed `texture_0`, `pass_0`, `texture_0`, `pass_0` — the locals carry the names generated for
the types; the function `technique` that a body uses is still avoided.  The code's `build` gives `texture_0_0`,
`pass_0_0`.  The program is in corpus/C04.txt. -/
theorem late_set_loses_generated_type_names :
    (build Gen.Reserved.hlsl witnessGenerated).toOption.map (·.map (fun n => (n.sym.kind, n.name))) =
      some [(.enumValue, "V"), (.func, "f"), (.enum, "pass_0"), (.func, "technique_0"), (.struct, "texture_0"),
            (.localVar, "texture_0_0"), (.localVar, "pass_0_0"), (.localVar, "technique_0_0")] ∧
    (buildLate Gen.Reserved.hlsl witnessGenerated).toOption.map (·.map (fun n => (n.sym.kind, n.name))) =
      some [(.enumValue, "V"), (.func, "f"), (.enum, "pass_0"), (.func, "technique_0"), (.struct, "texture_0"),
            (.localVar, "texture_0"), (.localVar, "pass_0"), (.localVar, "technique_0_0")] :=
  Lemmas.FixpointGenNames.late_set_loses_generated_type_names

end GeneratedNames

section Prototypes
open RsslVerif.Model.FixpointProto

/-- **proto_params_as_modelled** (obligation, re-extracted on every run by `Gen.ProtoParams`): the exporter prints EVERY
declaration of a function — prototype (`only_declare = true`) or definition — from the `FunctionImplementation` (`decl`):
attributes, parameters (with `param.default_expr`) and body; `only_declare` decides the body only; without an implementation
it fails with `FunctionNotDefined`.  The typer registers the signature (`non_default_params` = number of parameters without a
default) at the first declaration, a later declaration takes the id of the pre-declaration and its own signature is used for
the look-up only; the parameter list with the default expressions is stored by `parse_function_body`, i.e. for the definition. -/
theorem proto_params_as_modelled :
    RsslVerif.Gen.ProtoParams.exporterDecl =
      ["let decl = match context .module .function_registry .get_function_implementation(id)",
       "Some(decl) => decl, None => return Err(GenerateError::FunctionNotDefined),",
       "for attribute in &decl.attributes", "for param in &decl.params", "for statement in &decl.scope_block.0"] ∧
    RsslVerif.Gen.ProtoParams.exporterOnlyDeclare = ["let body = if only_declare"] ∧
    RsslVerif.Gen.ProtoParams.exporterRootArms =
      ["ir::RootDefinition::Enum(id) => module.enum_registry.get_enum_definition(*id).namespace, ir::RootDefinition::ConstantBuffer(id) => module.cbuffer_registry[id.0 as usize].namespace, ir::RootDefinition::GlobalVariable(id) => module.global_registry[id.0 as usize].namespace, ir::RootDefinition::FunctionDeclaration(id) | ir::RootDefinition::Function(id) =>",
       "ir::RootDefinition::FunctionDeclaration(id) => generate_function(*id, true, context)? .into_iter() .map(ast::RootDefinition::Function) .collect::<Vec<_>>(), ir::RootDefinition::Function(id) => generate_function(*id, false, context)? .into_iter() .map(ast::RootDefinition::Function) .collect::<Vec<_>>(),"] ∧
    RsslVerif.Gen.ProtoParams.exporterDefault =
      ["let default_expr = if let Some(default_expr) = &param.default_expr",
       "Some(generate_expression(default_expr, context)?)", "param_type, declarator, location_annotations, default_expr,"] ∧
    RsslVerif.Gen.ProtoParams.typerPredeclaration =
      ["let id = match context.check_existing_functions(&fd.name, &signature, is_definition)?", "Some(id) =>", "id",
       "let id = context.register_function(fd.name.clone(), signature.clone(), scope, fd.clone())?",
       "context.add_function_to_current_scope(id)?", "id", "parse_function_body(fd, id, signature, context)?",
       "context.module.function_registry.set_implementation(id, def)", "Ok((id, !is_definition))"] ∧
    RsslVerif.Gen.ProtoParams.typerSignature =
      ["let (signature, scope) = parse_function_signature(fd, None, context)?",
       "let id = match context.check_existing_functions(&fd.name, &signature, is_definition)?",
       "let id = context.register_function(fd.name.clone(), signature.clone(), scope, fd.clone())?",
       "if signature.template_params.is_empty()", "parse_function_body(fd, id, signature, context)?"] ∧
    RsslVerif.Gen.ProtoParams.typerNonDefault =
      ["let mut non_default_params = 0", "if non_default_params != vec.len()", "non_default_params += 1",
       "return_type, template_params, param_types, non_default_params,"] ∧
    RsslVerif.Gen.ProtoParams.typerImplDefault =
      [", interpolation_modifier: parsed_param.interpolation_modifier, precise: parsed_param.precise, semantic: parsed_param.semantic, default_expr: parsed_param.default_expr,"] :=
  ⟨rfl, rfl, rfl, rfl, rfl, rfl, rfl, rfl⟩

/-- **emitted_declarations_fixpoint**: for every list of declarations of one function (any number of prototypes in front
of, between and after the definition, any default expressions on any of them) that the exporter prints, the printed list is
printed as itself again, every printed declaration carries the parameter list of the definition, and the signature the second
compilation registers is that of the definition. -/
theorem emitted_declarations_fixpoint (ds ds' : List FDecl) (ps : List (Option String)) (hp : implParams ds = some ps)
    (h : exportDecls ds = some ds') :
    exportDecls ds' = some ds' ∧ (∀ d' ∈ ds', d'.defaults = ps) ∧ sigNonDefault ds' = some (nonDefault ps) :=
  ⟨Lemmas.FixpointProto.export_idempotent h, Lemmas.FixpointProto.export_carries_def hp h,
   Lemmas.FixpointProto.sig_export hp h⟩

/-- **emitted_calls_accepted_again**: if the definition has at least as many default arguments as the first declaration
(`nonDefault ps ≤ k`), every call the first compilation admits (enough arguments for the first declaration's signature) is
admitted by the compilation of the emitted text — in particular for a function without a prototype, with defaults on both
sides, or on the definition only. -/
theorem emitted_calls_accepted_again (ds ds' : List FDecl) (ps : List (Option String)) (k n : Nat)
    (hp : implParams ds = some ps) (h : exportDecls ds = some ds') (hk : sigNonDefault ds = some k)
    (hge : nonDefault ps ≤ k) (hc : CallOk ds n) : CallOk ds' n := by
  obtain ⟨k', hk', hle⟩ := hc
  rw [hk] at hk'
  cases hk'
  exact ⟨nonDefault ps, Lemmas.FixpointProto.sig_export hp h, Nat.le_trans hge hle⟩

/-- the converse direction: the second compilation admits a call exactly when it has enough arguments for the DEFINITION -/
theorem emitted_call_iff (ds ds' : List FDecl) (ps : List (Option String)) (n : Nat)
    (hp : implParams ds = some ps) (h : exportDecls ds = some ds') : CallOk ds' n ↔ nonDefault ps ≤ n := by
  constructor
  · intro ⟨k, hk, hle⟩
    rw [Lemmas.FixpointProto.sig_export hp h] at hk
    cases hk
    exact hle
  · intro hle
    exact ⟨_, Lemmas.FixpointProto.sig_export hp h, hle⟩

/-- non-vacuity: prototype, forward use, definition, repeated prototype — defaults on both sides with different expressions -/
example :
    let ds : List FDecl := [⟨false, [none, some "2.0f"]⟩, ⟨true, [none, some "3.0f"]⟩, ⟨false, [none, some "2.0f"]⟩]
    exportDecls ds = some [⟨false, [none, some "3.0f"]⟩, ⟨true, [none, some "3.0f"]⟩, ⟨false, [none, some "3.0f"]⟩] ∧
    CallOk ds 1 ∧ sigNonDefault ds = some 1 ∧ implParams ds = some [none, some "3.0f"] := by decide

/-- **prototype_default_dropped_witness** (negation witness on the CURRENT code = known finding
`decl-forms:.. / prototype-default-dropped`): `float g(float a, float b = 2.0f); float g(float a, float b) {..}` — the call
`g(1.0f)` is admitted by the first compilation and refused by the compilation of the emitted text, whose prototype reads
`float g(float a, float b);`.  So `nonDefault ps ≤ k` can not be dropped from `emitted_calls_accepted_again`.  The second
conjunct is the sibling: with the default on the definition only the emitted PROTOTYPE carries `K`, an expression of the
definition (refused when `K` is declared between the two: known finding `.. / definition-default-printed-on-earlier-prototype`). -/
theorem prototype_default_dropped_witness :
    (let ds : List FDecl := [⟨false, [none, some "2.0f"]⟩, ⟨true, [none, none]⟩]
     CallOk ds 1 ∧ ∃ ds', exportDecls ds = some ds' ∧ ds' = [⟨false, [none, none]⟩, ⟨true, [none, none]⟩] ∧ ¬ CallOk ds' 1) ∧
    (let ds : List FDecl := [⟨false, [none, none]⟩, ⟨true, [none, some "K"]⟩]
     exportDecls ds = some [⟨false, [none, some "K"]⟩, ⟨true, [none, some "K"]⟩]) := by
  refine ⟨⟨by decide, _, rfl, rfl, by decide⟩, by decide⟩

end Prototypes

end RsslVerif.Thm.C04

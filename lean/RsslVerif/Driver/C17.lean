import RsslVerif.Model.Compile
import RsslVerif.Driver.Util
/-! Line-protocol front end of the C17 model (pipeline selection loop). -/
namespace RsslVerif.Driver.C17
open RsslVerif.Gen.CompileTables RsslVerif.Model.Compile RsslVerif.Driver

def parseStage (s : String) : Option Stage :=
  [Stage.Vertex, .Task, .Mesh, .Pixel, .Compute].find? (fun st => st.name == s)

def parseStages (s : String) : Option (List (Stage × String)) :=
  sequenceOpt ((s.splitOn ",").map fun item =>
    match item.splitOn "=" with
    | [st, f] => (parseStage st).map (·, f)
    | _ => none)

/-- payload = (does the pipeline build on its own, its stages) -/
def parsePipes (s : String) : Option (List (Pipeline (Bool × List (Stage × String)))) :=
  if s.isEmpty then some [] else
  sequenceOpt ((s.splitOn ";").map fun item =>
    match item.splitOn ":" with
    | [n, st] =>
      let fails := n.endsWith "!"
      let n := if fails then (n.dropEnd 1).toString else n
      (parseStages st).map fun l => { name := n, payload := (!fails, l) }
    | _ => none)

def parseMode (s : String) : Option Mode :=
  if s == "all" then some .all
  else if s == "nopipeline" then some .noPipeline
  else if s.startsWith "name=" then some (.named (s.drop 5).toString)
  else none

def showOut (stages : List (Stage × String)) : String :=
  "[" ++ ",".intercalate (stages.map fun (s, f) => s.name ++ "(" ++ f ++ ")") ++ "]"

def handle (op : String) (args : List String) : String :=
  match op, args with
  | "C17.select", [tgt, mode, pipes, _seed, bare] =>
    match parseMode mode, parsePipes pipes with
    | some m, some ps =>
      let msl := tgt == "msl"
      let build : Option (Pipeline (Bool × List (Stage × String))) → Except Unit (List (Stage × String)) :=
        fun p => match p with
          | some p => if p.payload.1 then .ok (reportedStages msl p.payload.2) else .error ()
          | none => if bare == "bare=ok" then .ok [] else .error ()
      match compileLoop build ps m with
      | .ok outs => "ok:" ++ String.join (outs.map showOut)
      | .buildErr _ => "err:build"
      | .errUnknown n => "err:unknown:" ++ n
      | .errNone => "err:none"
      | .panicMultiple => "panic:multiple"
    | _, _ => "bad-request"
  | _, _ => "unsupported-op"

end RsslVerif.Driver.C17

"""Translator plugin for C16 (also used by C03 later): Gen.RankTable, Gen.ResolveShape

Re-extracted from /repo on every run:
  ir/src/ir_types.rs     enum ScalarType, enum NumericDimension
  ir/src/value_types.rs  InputModifier -> ValueType
  typer/src/casting.rs   enum NumericRank, NumericRank::order, NumericRank::compare (the (bool,bool) match),
                         enum VectorRank, VectorRank::worst_to_best, the `(source_scalar, dest_scalar)` rank match of
                         ImplicitConversion::find, the DimensionCast -> VectorRank match of get_rank
"""
import re


def register(gen, T):
    from rustsrc import (ExtractError, fn_body, impl_fn_body, enum_variants, first_match, match_arms,
                         split_top, normws, lean_str)

    def lower(name):
        return name[0].lower() + name[1:]

    @gen("RankTable")
    def rank_table():
        ir_types = T.src("ir/src/ir_types.rs")
        value_types = T.src("ir/src/value_types.rs")
        casting = T.src("typer/src/casting.rs")
        out = [T.header("RankTable", ["ir/src/ir_types.rs", "ir/src/value_types.rs", "typer/src/casting.rs"])]

        # ---------------------------------------------------------------- ScalarType
        scalars = enum_variants(ir_types, "ScalarType")
        if any(payload for _, payload in scalars):
            raise ExtractError("ScalarType has a variant with a payload")
        scalars = [v for v, _ in scalars]
        out.append("/-- `ir::ScalarType` -/\ninductive Scalar where\n" + "".join(f"  | {lower(s)}\n" for s in scalars) +
                   "  deriving DecidableEq, Repr, Inhabited\n\n")
        out.append("def Scalar.all : List Scalar := " + T.lean_list("." + lower(s) for s in scalars) + "\n\n")
        out.append("def Scalar.name : Scalar → String\n" +
                   "".join(f"  | .{lower(s)} => {lean_str(s)}\n" for s in scalars) + "\n")
        out.append("def Scalar.ofName? (s : String) : Option Scalar := Scalar.all.find? (fun k => k.name == s)\n\n")

        # ---------------------------------------------------------------- NumericDimension
        dims = enum_variants(ir_types, "NumericDimension")
        if [(v, normws(p)) for v, p in dims] != [("Scalar", ""), ("Vector", "(u32)"), ("Matrix", "(u32, u32)")]:
            raise ExtractError(f"NumericDimension is {dims!r}, expected Scalar | Vector(u32) | Matrix(u32, u32)")
        out.append("/-- `ir::NumericDimension` -/\ninductive Dim where\n  | scalar\n  | vector (n : Nat)\n  | matrix (x y : Nat)\n"
                   "  deriving DecidableEq, Repr, Inhabited\n\n")

        # ---------------------------------------------------------------- InputModifier -> ValueType
        body = impl_fn_body(value_types, r'From<InputModifier>\s+for\s+ValueType', "from")
        _, arms_text, _ = first_match(body, r'^im$')
        lval, rval = set(), set()
        for pats, guard, result in match_arms(arms_text):
            if guard is not None:
                raise ExtractError("InputModifier->ValueType: guard unsupported")
            for p in pats:
                m = re.fullmatch(r'InputModifier::(In|Out|InOut)', p)
                if not m:
                    raise ExtractError(f"InputModifier->ValueType: pattern {p!r}")
                if result == "ValueType::Lvalue":
                    lval.add(m.group(1))
                elif result == "ValueType::Rvalue":
                    rval.add(m.group(1))
                else:
                    raise ExtractError(f"InputModifier->ValueType: result {result!r}")
        if lval | rval != {"In", "Out", "InOut"}:
            raise ExtractError("InputModifier->ValueType: not all of In/Out/InOut covered")
        out.append("/-- `ir::InputModifier` -/\ninductive InputModifier where | «in» | out | inOut\n"
                   "  deriving DecidableEq, Repr, Inhabited\n\n")
        lname = {"In": "«in»", "Out": "out", "InOut": "inOut"}
        out.append("/-- `impl From<InputModifier> for ValueType`: `true` = the parameter needs an lvalue -/\n"
                   "def InputModifier.needsLvalue : InputModifier → Bool\n" +
                   "".join(f"  | .{lname[k]} => {'true' if k in lval else 'false'}\n" for k in ["In", "Out", "InOut"]) + "\n")

        # ---------------------------------------------------------------- NumericRank + order
        ranks = enum_variants(casting, "NumericRank")
        if any(p for _, p in ranks):
            raise ExtractError("NumericRank has a variant with a payload")
        ranks = [v for v, _ in ranks]
        out.append("/-- `casting::NumericRank` -/\ninductive NumRank where\n" + "".join(f"  | {lower(r)}\n" for r in ranks) +
                   "  deriving DecidableEq, Repr, Inhabited\n\n")
        out.append("def NumRank.all : List NumRank := " + T.lean_list("." + lower(r) for r in ranks) + "\n\n")
        out.append("def NumRank.name : NumRank → String\n" +
                   "".join(f"  | .{lower(r)} => {lean_str(r)}\n" for r in ranks) + "\n")
        body = impl_fn_body(casting, r'NumericRank', "order")
        _, arms_text, _ = first_match(body, r'^\*?self$')
        seen = {}
        for pats, guard, result in match_arms(arms_text):
            if guard is not None or not re.fullmatch(r'\d+', result):
                raise ExtractError(f"NumericRank::order arm {pats} => {result!r} unsupported")
            for p in pats:
                m = re.fullmatch(r'NumericRank::([A-Za-z]+)', p)
                if not m or m.group(1) not in ranks:
                    raise ExtractError(f"NumericRank::order pattern {p!r}")
                seen.setdefault(m.group(1), result)
        if set(seen) != set(ranks):
            raise ExtractError("NumericRank::order does not cover every rank")
        out.append("/-- `NumericRank::order` -/\ndef NumRank.order : NumRank → Nat\n" +
                   "".join(f"  | .{lower(r)} => {seen[r]}\n" for r in ranks) + "\n")

        # ---------------------------------------------------------------- NumericRank::compare
        body = impl_fn_body(casting, r'NumericRank', "compare")
        if not re.search(r'let\s+my_order\s*=\s*self\.order\(\)\s*;', body) or \
                not re.search(r'let\s+other_order\s*=\s*other\.order\(\)\s*;', body):
            raise ExtractError("NumericRank::compare: my_order/other_order bindings not found")
        scrut, arms_text, _ = first_match(body)
        if normws(scrut) != "(my_order < other_order, my_order <= other_order)":
            raise ExtractError(f"NumericRank::compare scrutinee {scrut!r}")
        prios = [v for v, _ in enum_variants(casting, "ConversionPriority")]
        out.append("/-- `casting::ConversionPriority` -/\ninductive Priority where\n" + "".join(f"  | {lower(p)}\n" for p in prios) +
                   "  deriving DecidableEq, Repr, Inhabited\n\n")
        table = {}
        for pats, guard, result in match_arms(arms_text):
            if guard is not None:
                raise ExtractError("compare: guard unsupported")
            for p in pats:
                m = re.fullmatch(r'\((true|false), (true|false)\)', p)
                if not m:
                    raise ExtractError(f"compare: pattern {p!r}")
                rm = re.fullmatch(r'ConversionPriority::([A-Za-z]+)', result)
                if rm and rm.group(1) in prios:
                    val = f"some .{lower(rm.group(1))}"
                elif result == "unreachable!()":
                    val = "none"
                else:
                    raise ExtractError(f"compare: result {result!r}")
                table.setdefault((m.group(1), m.group(2)), val)
        if len(table) != 4:
            raise ExtractError("compare: the (bool, bool) match is not exhaustive")
        out.append("/-- the `match (my_order < other_order, my_order <= other_order)` of `NumericRank::compare`;\n"
                   "    `none` = the `unreachable!()` arm -/\n"
                   "def compareTable : Bool → Bool → Option Priority\n" +
                   "".join(f"  | {a}, {b} => {table[(a, b)]}\n" for a in ("false", "true") for b in ("false", "true")) + "\n")
        out.append("/-- `NumericRank::compare` (`none` = panic) -/\n"
                   "def NumRank.compare (a b : NumRank) : Option Priority :=\n"
                   "  compareTable (decide (a.order < b.order)) (decide (a.order ≤ b.order))\n\n")

        # ---------------------------------------------------------------- VectorRank + worst_to_best
        vranks = enum_variants(casting, "VectorRank")
        if any(p for _, p in vranks):
            raise ExtractError("VectorRank has a variant with a payload")
        vranks = [v for v, _ in vranks]
        out.append("/-- `casting::VectorRank` -/\ninductive VecRank where\n" + "".join(f"  | {lower(r)}\n" for r in vranks) +
                   "  deriving DecidableEq, Repr, Inhabited\n\n")
        out.append("def VecRank.all : List VecRank := " + T.lean_list("." + lower(r) for r in vranks) + "\n\n")
        out.append("def VecRank.name : VecRank → String\n" +
                   "".join(f"  | .{lower(r)} => {lean_str(r)}\n" for r in vranks) + "\n")
        body = impl_fn_body(casting, r'VectorRank', "worst_to_best")
        m = re.search(r'const\s+PRIO\s*:\s*&\[VectorRank\]\s*=\s*&\[([^\]]*)\]\s*;\s*PRIO\s*$', body.strip())
        if not m:
            raise ExtractError("VectorRank::worst_to_best: `const PRIO: &[VectorRank] = &[..]; PRIO` not found")
        prio = []
        for item in split_top(m.group(1), ','):
            item = item.strip()
            if not item:
                continue
            im = re.fullmatch(r'VectorRank::([A-Za-z]+)', item)
            if not im or im.group(1) not in vranks:
                raise ExtractError(f"worst_to_best item {item!r}")
            prio.append(im.group(1))
        out.append("/-- `VectorRank::worst_to_best` -/\ndef VecRank.worstToBest : List VecRank := " +
                   T.lean_list("." + lower(r) for r in prio) + "\n\n")

        # ---------------------------------------------------------------- (source_scalar, dest_scalar) rank match
        fbody = impl_fn_body(casting, r'ImplicitConversion', "find")
        m = re.search(r'let\s+rank\s*=\s*', fbody)
        if not m:
            raise ExtractError("find: `let rank = match (source_scalar, dest_scalar)` not found")
        scrut, arms_text, _ = first_match(fbody, None, m.end() - 1)
        if normws(scrut) != "(source_scalar, dest_scalar)":
            raise ExtractError(f"find: rank scrutinee {scrut!r}")
        table = {}
        for pats, guard, result in match_arms(arms_text):
            if guard is not None or len(pats) != 1:
                raise ExtractError(f"find rank match: arm {pats} unsupported")
            pm = re.fullmatch(r'\(([A-Za-z0-9]+), dest\)', pats[0])
            if not pm or pm.group(1) not in scalars:
                raise ExtractError(f"find rank match: outer pattern {pats[0]!r}")
            src_s = pm.group(1)
            iscrut, inner, _ = first_match(result, r'^dest$')
            if not result.startswith("match dest"):
                raise ExtractError(f"find rank match: arm for {src_s} is not `match dest`")
            for ipats, iguard, iresult in match_arms(inner):
                if iguard is not None:
                    raise ExtractError("find rank match: inner guard unsupported")
                iresult = iresult.strip("{} ")
                rm = re.fullmatch(r'NumericRank::([A-Za-z]+)', iresult)
                if rm and rm.group(1) in ranks:
                    val = f"some .{lower(rm.group(1))}"
                elif iresult == "unreachable!()":
                    val = "none"
                else:
                    raise ExtractError(f"find rank match: result {iresult!r}")
                for p in ipats:
                    if p not in scalars:
                        raise ExtractError(f"find rank match: inner pattern {p!r}")
                    if (src_s, p) not in table:
                        table[(src_s, p)] = val
        missing = [(a, b) for a in scalars for b in scalars if (a, b) not in table]
        if missing:
            raise ExtractError(f"find rank match: no arm for {missing[:3]}")
        out.append("/-- the `match (source_scalar, dest_scalar)` of `ImplicitConversion::find`; `none` = `unreachable!()` -/\n"
                   "def primaryRank : Scalar → Scalar → Option NumRank\n" +
                   "".join(f"  | .{lower(a)}, .{lower(b)} => {table[(a, b)]}\n" for a in scalars for b in scalars) + "\n")

        # ---------------------------------------------------------------- get_rank: DimensionCast -> VectorRank
        gbody = impl_fn_body(casting, r'ImplicitConversion', "get_rank")
        m = re.search(r'let\s+vec\s*=\s*', gbody)
        if not m:
            raise ExtractError("get_rank: `let vec = match *dim_cast` not found")
        scrut, arms_text, _ = first_match(gbody, None, m.end() - 1)
        if normws(scrut) != "*dim_cast":
            raise ExtractError(f"get_rank: vec scrutinee {scrut!r}")

        def dim_pat(p, binders):
            p = p.strip()
            if p == "Scalar":
                return ".scalar"
            mm = re.fullmatch(r'Vector\((\d+|_|ref [a-z]+)\)', p)
            if mm:
                a = mm.group(1)
                if a.startswith("ref "):
                    binders.append(a[4:])
                    return f".vector {a[4:]}"
                return f".vector {a}"
            mm = re.fullmatch(r'Matrix\((\d+|_), (\d+|_)\)', p)
            if mm:
                return f".matrix {mm.group(1)} {mm.group(2)}"
            if re.fullmatch(r'[a-z]+', p):
                return "_"
            raise ExtractError(f"get_rank: dimension pattern {p!r} unsupported")

        clauses = []
        for pats, guard, result in match_arms(arms_text):
            rm = re.fullmatch(r'\{?\s*VectorRank::([A-Za-z]+)\s*\}?', result)
            if rm and rm.group(1) in vranks:
                val = f"some .{lower(rm.group(1))}"
            elif result.startswith("panic!"):
                val = "none"
            else:
                raise ExtractError(f"get_rank: result {result!r}")
            lpats = []
            binders = []
            for p in pats:
                if p == "None":
                    lpats.append("none")
                    continue
                mm = re.fullmatch(r'Some\(DimensionCast\((.*)\)\)', p)
                if not mm:
                    raise ExtractError(f"get_rank: pattern {p!r}")
                parts = split_top(mm.group(1), ',')
                if len(parts) != 2:
                    raise ExtractError(f"get_rank: pattern {p!r}")
                lpats.append(f"some ({dim_pat(parts[0], binders)}, {dim_pat(parts[1], binders)})")
            if guard is None:
                g = "true"
            else:
                gm = re.fullmatch(r'([a-z]+) (>|<|>=|<=|==) ([a-z]+)', guard)
                if not gm or len(pats) != 1 or gm.group(1) not in binders or gm.group(3) not in binders:
                    raise ExtractError(f"get_rank: guard {guard!r} unsupported")
                g = f"decide ({gm.group(1)} {gm.group(2)} {gm.group(3)})"
            clauses.append((lpats, g, val))
        out.append("/-- the `let vec = match *dim_cast` of `ImplicitConversion::get_rank`, arm by arm in source order;\n"
                   "    `none` = the `panic!(\"invalid vector cast ..\")` arm -/\n"
                   "def vecRankOf (c : Option (Dim × Dim)) : Option VecRank :=\n")
        for lpats, g, val in clauses:
            out.append(f"  if (match c with {' '.join('| ' + p for p in lpats)} => {g} | _ => false) then {val} else\n")
        out.append("  none -- no arm matched: a Rust match is exhaustive, so this is unreachable when the last arm is a catch-all\n")
        out.append(T.footer("RankTable"))
        return "".join(out)


    # ------------------------------------------------------------------------------------------------------------
    @gen("ResolveShape")
    def resolve_shape():
        """Fingerprint of the resolution routines: the loops of find_function_type, the template half and the `zip`
        loop of find_overload_casts, try_infer_template_type, normalize_template_type, and the places that hand an
        overload list over.  Each fact is a regular expression over the source with comments and all white space
        removed; the full squashed text of the four transcribed functions is emitted too and compared (Thm.C16) with
        the text the Lean model was transcribed from (Model/OverloadSrc.lean)."""
        expr = T.src("typer/src/typer/expressions.rs")
        scopes = T.src("typer/src/typer/scopes.rs")
        types = T.src("typer/src/typer/types.rs")
        functions = T.src("typer/src/typer/functions.rs")
        casting = T.src("typer/src/casting.rs")
        ir_expr = T.src("ir/src/ir_expressions.rs")
        structs = T.src("typer/src/typer/structs.rs")
        ir_functions = T.src("ir/src/ir_functions.rs")

        def squash(text):
            return re.sub(r'\s+', '', text)

        fft = squash(fn_body(expr, "find_function_type"))
        foc = squash(fn_body(expr, "find_overload_casts"))
        tit = squash(fn_body(expr, "try_infer_template_type"))
        ntt = squash(fn_body(expr, "normalize_template_type"))
        fid = squash(fn_body(scopes, "find_identifier"))
        fis = squash(fn_body(scopes, "find_identifier_in_scope"))
        ifs = squash(fn_body(scopes, "insert_function_in_scope"))
        # the gathering loop of find_identifier_in_scope: the body of its first `for symbol in symbols { .. }`
        gl_at = fis.find("forsymbolinsymbols{")
        if gl_at < 0:
            raise ExtractError("find_identifier_in_scope: the `for symbol in symbols` loop not found")
        depth, k = 0, gl_at + len("forsymbolinsymbols")
        gl_end = None
        while k < len(fis):
            if fis[k] == "{":
                depth += 1
            elif fis[k] == "}":
                depth -= 1
                if depth == 0:
                    gl_end = k
                    break
            k += 1
        if gl_end is None:
            raise ExtractError("find_identifier_in_scope: unbalanced gathering loop")
        gloop = fis[gl_at + len("forsymbolinsymbols{"):gl_end]
        gsm = squash(fn_body(scopes, "get_struct_member_expression"))
        # the routines around the resolution proper: instantiating a candidate's signature (may fail since 5dca4fc) and
        # the check of out / inout arguments that follows a successful resolution (b359800, 3758fdd)
        atts = squash(fn_body(types, "apply_template_type_substitution"))
        # occurrence 0 is the declaration in `trait ApplyTemplates`, occurrence 1 the impl for ir::FunctionSignature
        apt = squash(fn_body(functions, "apply_templates", 1))
        bfts = squash(fn_body(scopes, "build_function_template_signature"))
        bit = squash(fn_body(scopes, "build_intrinsic_template"))
        coa = squash(fn_body(expr, "check_output_arguments"))
        cmp_ = squash(fn_body(expr, "check_mutable_place"))
        wfn = squash(fn_body(expr, "write_function"))
        wme = squash(fn_body(expr, "write_method"))
        app = squash(impl_fn_body(casting, r'ImplicitConversion', "apply"))
        gty = squash(fn_body(ir_expr, "get_type"))
        # what a call that stands between declarations can see: when declarations enter a scope and when bodies are checked
        pfn = squash(fn_body(functions, "parse_function"))
        psi = squash(fn_body(structs, "parse_struct_internal"))
        bftb = squash(fn_body(scopes, "build_function_template_body"))
        est = squash(fn_body(scopes, "ensure_struct_template"))
        fin = squash(fn_body(ir_functions, "find_instantiation"))
        E = re.escape
        facts = [
            # ---- find_function_type
            ("arityGuardThenCasts", fft,
             E("foroverloadinoverloads{letsignature=context.module.function_registry.get_function_signature(*overload);"
               "ifparam_types.len()<=signature.param_types.len()&&param_types.len()>=signature.non_default_params"
               "&&letOk((new_id,param_casts))=find_overload_casts(*overload,template_args,param_types,context)"
               "{casts.push((new_id,param_casts))}}")),
            ("tournamentComparesAllPairsSkippingSelf", fft,
             E("for(candidate,candidate_casts)in&casts{letmutwinning=true;for(against,against_casts)in&casts{"
               "ifcandidate==against{continue;}")),
            ("zipLoopHasNoEarlyExitAndOnlyWorseLoses", fft,
             E("letmutnot_worse_than=true;for(candidate_cast,against_cast)incandidate_casts.iter().zip(against_casts){"
               "letcandidate_rank=*candidate_cast.get_rank().get_numeric_rank();"
               "letagainst_rank=*against_cast.get_rank().get_numeric_rank();"
               "matchcandidate_rank.compare(&against_rank){ConversionPriority::Better=>{}ConversionPriority::Equal=>{}"
               "ConversionPriority::Worse=>not_worse_than=false,};}")),
            ("againstLoopBreaksOnWorseAndWinnersArePushed", fft,
             E("if!not_worse_than{winning=false;break;}}ifwinning{winning_numeric_casts.push((*candidate,"
               "candidate_casts.clone()));}}if!winning_numeric_casts.is_empty(){")),
            ("countByRankCountsEqualVectorRank", fft,
             E("fncount_by_rank(casts:&[ImplicitConversion],rank:&VectorRank)->usize{casts.iter()"
               ".filter(|cast|cast.get_rank().get_vector_rank()==rank).count()}")),
            ("orderVectorIsWorstToBestCounts", fft,
             E("letorder=VectorRank::worst_to_best().iter().map(|rank|count_by_rank(&casts,rank)).collect::<Vec<_>>();"
               "(overload,casts,order)};letcasts=winning_numeric_casts.into_iter().map(map_order).collect::<Vec<_>>();")),
            ("bestOrderIsTheMinimumByLess", fft,
             E("letmutbest_order=casts[0].2.clone();for(_,_,order)in&casts{if*order<best_order{best_order=order.clone();}}")),
            ("keepsExactlyTheMinimal", fft,
             E("letcasts=casts.into_iter().filter(|(_,_,order)|*order==best_order).collect::<Vec<_>>();")),
            ("oneSelectedSeveralAmbiguousElseUnmatched", fft,
             E("ifcasts.len()==1{let(candidate,casts,_)=casts[0].clone();returnOk((candidate,casts));}"
               "ifcasts.len()>1{letambiguous_overloads=casts.iter().map(|c|c.0).collect::<Vec<_>>();"
               "returnErr(TyperError::FunctionArgumentTypeMismatch(ambiguous_overloads,param_types.to_vec(),"
               "call_location,true,));}}Err(TyperError::FunctionArgumentTypeMismatch(overloads.clone(),"
               "param_types.to_vec(),call_location,false,))") + "$"),
            # ---- find_overload_casts
            ("tooManyTemplateArgsNotViable", foc,
             E("if!signature.template_params.is_empty(){iftemplate_args.len()>signature.template_params.len(){returnErr(());}")),
            ("explicitArgsFirstThenInferredValueParamsNever", foc,
             E("foriin0..arg_count{letmutarg=ifi<template_args.len(){template_args[i].clone()}else{") + ".*?" +
             E("ir::TemplateParam::Value(_)=>returnErr(()),};")),
            ("firstParameterThatInfersWins", foc,
             E("for(required_type,source_type)insignature.param_types.clone().iter().zip(param_types.iter()){"
               "ifletSome(ty)=try_infer_template_type(template_type_id,required_type.type_id,source_type.0,context,)"
               "{found_arg=Some(ty);break;}}matchfound_arg{Some(arg)=>Located::none(ir::TypeOrConstant::Type(arg)),"
               "None=>returnErr(()),}};")),
            ("everyTemplateArgIsNormalized", foc,
             E("arg.node=matcharg.node{ir::TypeOrConstant::Type(ty)=>{ir::TypeOrConstant::Type(normalize_template_type(ty,context))}"
               "ir::TypeOrConstant::Constant(c)=>ir::TypeOrConstant::Constant(c),};inferred_args.push(arg);}")),
            ("templateArgsOnPlainFunctionNotViable", foc, E("}elseif!template_args.is_empty(){returnErr(());}")),
            ("zipFindStopsAtFirstFailure", foc,
             E("for(required_type,source_type)insignature.param_types.iter().zip(param_types.iter()){"
               "letety=ExpressionType(required_type.type_id,required_type.input_modifier.into());"
               "ifletOk(cast)=ImplicitConversion::find(*source_type,ety,&mutcontext.module){overload_casts.push(cast)}"
               "else{returnErr(());}}Ok((id,overload_casts))") + "$"),
            ("uninstantiableTemplateNotViable", foc,
             E("{matchcontext.build_intrinsic_template(id,&inferred_args){Some(id)=>id,None=>returnErr(()),}}"
               "else{matchcontext.build_function_template_signature(id,&inferred_args){Some(id)=>id,None=>returnErr(()),}};")),
            # ---- instantiating the signature of a template candidate
            ("signatureSubstitutionFailsAsAWhole", apt,
             "^" + E("forparam_typein&mutself.param_types{param_type.type_id=apply_template_type_substitution("
                     "param_type.type_id,template_args,context)?;}self.return_type.return_type="
                     "apply_template_type_substitution(self.return_type.return_type,template_args,context)?;Some(self)") + "$"),
            ("templateInstantiationPropagatesTheFailure", bfts,
             E("letsignature=base_signature.clone().apply_templates(template_args,self)?;")),
            ("intrinsicInstantiationPropagatesTheFailure", bit,
             E("letsignature=signature.clone().apply_templates(template_args,self)?;")),
            # ---- what follows a successful resolution: the casts are applied, then out / inout arguments are checked
            ("functionCallChecksOutputsAfterCasts", wfn,
             E("let(id,casts)=find_function_type(&unresolved.overloads,template_args,param_types,call_location,context,)?;"
               "letparam_values=apply_casts(casts,param_values,context);"
               "check_output_arguments(id,&param_values,call_location,context)?;")),
            ("methodCallChecksOutputsAfterCasts", wme,
             E("let(id,casts)=find_function_type(&unresolved.overloads,template_args,param_types,call_location,context,)?;"
               "letmutparam_values=apply_casts(casts,param_values,context);"
               "check_output_arguments(id,&param_values,call_location,context)?;")),
            ("applyKeepsTheExpressionOnlyWithoutAnyCast", app,
             "^" + E("ifletImplicitConversion(_,_,None,None,None)=*self{returnexpr;}") + ".*" +
             E("Expression::Cast(target_type.0,Box::new(expr))") + "$"),
            ("aCastIsAnRvalue", gty, E("Expression::Cast(ty,_)=>Ok(ty.to_rvalue()),")),
            # ---- when a declaration becomes visible and when a call is resolved (Model/OverloadSeq.lean)
            ("declarationIsPushedADefinitionOfItReusesTheId", pfn,
             E("letid=matchcontext.check_existing_functions(&fd.name,&signature,is_definition)?{Some(id)=>{id}None=>{"
               "letid=context.register_function(fd.name.clone(),signature.clone(),scope,fd.clone())?;"
               "context.add_function_to_current_scope(id)?;id}};")),
            ("bodyIsCheckedAtTheDefinitionATemplateBodyIsNot", pfn,
             E("ifis_definition{ifsignature.template_params.is_empty(){parse_function_body(fd,id,signature,context)?;}else{")),
            ("allMethodsAreRegisteredBeforeTheFirstBody", psi,
             E("methods_to_parse.push((ast_func,id,signature));}}}letdef=&mutcontext.module.struct_registry[id.0asusize];"
               "def.members=members;def.methods=methods_to_parse.iter().map(|(_,id,_)|*id).collect();"
               "letmutmethods=Vec::new();for(ast_func,id,signature)inmethods_to_parse{ifsignature.template_params.is_empty(){"
               "ifast_func.body.is_some(){parse_function_body(ast_func,id,signature,context)?;}")),
            ("templateBodyIsBuiltOncePerInstanceInTheDeclaringScope", bftb,
             "^" + E("ifself.module.function_registry.get_function_implementation(new_id).is_none(){") + ".*?" +
             E("letparent_scope_id=self.scopes[self.function_to_scope[&new_id]].parent_scope;") + ".*?" +
             E("letcaller_scope_position=self.current_scope;self.current_scope=parent_scope_id;") + ".*?" +
             E("ifast.body.is_some(){parse_function_body(&ast,new_id,signature.clone(),self)?;}") + ".*?" +
             E("self.current_scope=caller_scope_position;}Ok(())") + "$"),
            ("aCallOfAnInstanceBuildsItsBody", wfn,
             E("ifcontext.module.function_registry.get_template_instantiation_data(id).is_some(){"
               "context.build_function_template_body(id)?};")),
            ("structTemplateIsInstantiatedOncePerArgumentsInTheDeclaringScope", est,
             E("ifletSome(id)=struct_template_data.instantiations.get(template_args){") + ".*?" +
             E("}else{") + ".*?" + E("letcurrent_scope=self.current_scope;self.current_scope=struct_template_data.scope;"
               "letsid_res=self.instantiate_struct_template(id,ast,template_args,error_loc);"
               "self.current_scope=current_scope;letsid=sid_res?;") + ".*?" +
             E("struct_template_data.instantiations.insert(template_args.to_vec(),sid);")),
            ("instantiationIsFoundAgainByTemplateAndAllArguments", fin,
             E("ifletSome(instantiation_data)=self.get_template_instantiation_data(other_id)"
               "&&instantiation_data.parent_id==id&&instantiation_data.template_args==template_args{returnSome(other_id);}")),
            ("instantiationIsLookedUpBeforeItIsBuilt", bfts,
             "^" + E("lettemplate_args_no_loc=template_args.iter().map(|t|t.node.clone()).collect::<Vec<_>>();"
                     "ifletSome(id)=self.module.function_registry.find_instantiation(id,&template_args_no_loc){returnSome(id);}")),
            # ---- who hands over which overload list
            ("innermostScopeWithTheNameWins", fid,
             E("ifletSome(ve)=self.find_identifier_in_scope(scope,leaf_name){returnOk(ve);}}"
               "scope_index=self.scopes[scope_index].parent_scope;")),
            ("scopeContributesItsOwnFunctionsOnly", fis,
             E("ScopeSymbol::Function(id)=>overloads.push(*id),") + ".*?" +
             E("if!overloads.is_empty(){returnSome(VariableExpression::Function(UnresolvedFunction{overloads,}));}")),
            # the loop that gathers the overloads visits every symbol of the vector: no `break` / `continue`, no guarded
            # or catch-all arm, a function is pushed, the four kinds that may share a name with a function have empty
            # arms (the other arms return a value: such a symbol never stands in one vector with a function), and the
            # overloads are handed over right after the loop
            ("overloadGatheringVisitsAllSymbols", gloop,
             r"^(?!.*\bbreak\b)(?!.*\bcontinue\b)(?!.*_if)(?!.*[,{]_=>)(?!.*\bif!?overloads)" +
             "".join("(?=.*" + E(a) + ")" for a in
                     ["matchsymbol{ScopeSymbol::Function(id)=>overloads.push(*id),", "ScopeSymbol::ConstantBuffer(_)=>{}",
                      "ScopeSymbol::Type(_)=>{}", "ScopeSymbol::Namespace(_)=>{}", "ScopeSymbol::EnumScope(_)=>{}"])),
            ("overloadsAreHandedOverRightAfterTheGatheringLoop", fis,
             E("ScopeSymbol::EnumScope(_)=>{}}}}if!overloads.is_empty(){returnSome(VariableExpression::Function("
               "UnresolvedFunction{overloads,}));}")),
            ("overloadsAreAppended", ifs,
             E("Entry::Occupied(mutoccupied)=>{occupied.get_mut().push(ScopeSymbol::Function(id));}"
               "Entry::Vacant(vacant)=>{vacant.insert(Vec::from([ScopeSymbol::Function(id)]));}")),
            ("methodsAreAllMethodsOfThatName", gsm,
             E("foridin&self.module.struct_registry[id.0asusize].methods{letfunction_name=self.module.function_registry"
               ".get_function_name(*id);iffunction_name==name.node{overloads.push(*id);}}")),
        ]
        out = [T.header("ResolveShape", ["typer/src/typer/expressions.rs", "typer/src/typer/scopes.rs",
                                         "typer/src/typer/types.rs", "typer/src/typer/functions.rs",
                                         "typer/src/typer/structs.rs", "typer/src/casting.rs", "ir/src/ir_expressions.rs",
                                         "ir/src/ir_functions.rs"])]
        out.append("/-- syntactic facts about the resolution routines (each a regular expression over the comment- and\n"
                   "    white-space-free source); `false` = the source no longer has the shape the model transcribes -/\n")
        out.append("structure Shape where\n" + "".join(f"  {k} : Bool\n" for k, _, _ in facts) + "  deriving DecidableEq, Repr\n\n")
        out.append("def shape : Shape := {\n" +
                   ",\n".join(f"  {k} := {'true' if re.search(rx, text, re.S) else 'false'}" for k, text, rx in facts) + " }\n\n")
        # every caller of find_function_type (the routine is private to expressions.rs)
        callers = []
        for m in re.finditer(r'\bfn\s+([a-z_0-9]+)\b', expr):
            try:
                body = fn_body(expr[m.start():], m.group(1))
            except ExtractError:
                continue
            if m.group(1) != "find_function_type" and re.search(r'\bfind_function_type\s*\(', body):
                callers.append(m.group(1))
        out.append("/-- the functions that call `find_function_type` -/\ndef callers : List String := " +
                   T.lean_list(lean_str(c) for c in callers) + "\n\n")
        # the overload list of a member call on an intrinsic object: all object functions of that name, in order
        member = squash(fn_body(expr, "parse_expr_unchecked"))
        objm = re.search(E("forfunc_idincontext.module.type_registry.get_object_functions(obj_id){"
                           "ifcontext.module.function_registry.get_function_name(*func_id)==member.node{overloads.push(*func_id)}}"),
                         member)
        out.append(f"def objectMethodsAreAllFunctionsOfThatName : Bool := {'true' if objm else 'false'}\n\n")
        # what the resolution reads: every `context...` path in the four resolution routines, every `self...` path in the
        # two routines that instantiate a candidate's signature, and the fields a `Context` has at all
        uses = set()
        for text in (fft, foc, tit, ntt):
            for m in re.finditer(r'context((?:\.[a-z_0-9]+)*)', text):
                uses.add(m.group(0))
        out.append("/-- every path through `context` in `find_function_type`, `find_overload_casts`, `try_infer_template_type`,\n"
                   "    `normalize_template_type` (a bare `context` is handed to a callee) -/\n"
                   "def resolutionContextUses : List String := " + T.lean_list(lean_str(u) for u in sorted(uses)) + "\n\n")
        iuses = set()
        for text in (bfts, bit):
            for m in re.finditer(r'self((?:\.[a-z_0-9]+){1,3})', text):
                iuses.add(m.group(0))
        out.append("/-- every path through `self` (up to three segments) in `build_function_template_signature` and\n"
                   "    `build_intrinsic_template` -/\n"
                   "def instantiationContextUses : List String := " + T.lean_list(lean_str(u) for u in sorted(iuses)) + "\n\n")
        cm = re.search(r'pub\s+struct\s+Context\s*\{(.*?)\n\}', scopes, re.S)
        if not cm:
            raise ExtractError("struct Context not found in scopes.rs")
        fields = re.findall(r'^\s*(?:pub(?:\([a-z]+\))?\s+)?([a-z_0-9]+)\s*:', cm.group(1), re.M)
        out.append("/-- the fields of the typer's `Context`: all the state one call could leave for the next -/\n"
                   "def contextFields : List String := " + T.lean_list(lean_str(f) for f in fields) + "\n\n")
        for name, text in [("findFunctionType", fft), ("findOverloadCasts", foc), ("tryInferTemplateType", tit),
                           ("normalizeTemplateType", ntt), ("applyTemplateTypeSubstitution", atts),
                           ("checkOutputArguments", coa), ("checkMutablePlace", cmp_),
                           ("findIdentifierInScope", fis)]:
            out.append(f"/-- body of `{name}` without comments and white space -/\ndef {name}Src : String :=\n  {lean_str(text)}\n\n")
        out.append(T.footer("ResolveShape"))
        return "".join(out)

import RsslVerif.Lemmas.GenMslVecSim
/-! Vector layer of C02: the induction over `VExpr` / `VSlots` (`sim_mv`, `sim_mslots`), re-using the scalar `sim_exprM` at
the scalar leaves. -/
namespace RsslVerif.Lemmas.GenMslVec
open RsslVerif.Gen.HlslGenTables RsslVerif.Gen.HlslVecTables RsslVerif.Gen.MslGenTables RsslVerif.Gen.MslVecTables
open RsslVerif.Model RsslVerif.Model.IrVec RsslVerif.Model.GenMsl RsslVerif.Model.GenMslVec
open RsslVerif.Spec.Sem RsslVerif.Spec.SemVec RsslVerif.Spec.SemMslVec RsslVerif.Lemmas.GenMsl
open RsslVerif.Model.Ir (Ty Var Const Dir)

set_option linter.unusedSimpArgs false

variable {W : World} {M : Msl.MWorld} {env : VAst.VEnv} {ρ : VStore} {cx : Ctx} {vvty : Var → VTy} {vis : Var → Bool} {rsv : Nat → List Var}

theorem scalarIn_float {k : Ty} (hk : VOk.basicK k = true)
    (h : scalarIn ["Float16", "Float32", "Float64", "FloatLiteral"] k = true) : k = .float := by
  rcases basicK_cases hk with rfl | rfl | rfl | rfl <;> simp [scalarIn, GenHlsl.scalarKey] at h ⊢

mutual
theorem sim_mv (hag : VAgreeM cx vis env vvty) (hw : Worlds cx rsv W M) (hρ : ∀ y, VOk.shaped (vvty y) (ρ y) = true) :
    ∀ (e : VExpr) (a : VAExpr) (t : VTy),
      genMV cx vvty e = .ok a → VIr.typeOf W.sig cx.vty vvty e = some t → VOk.okMV (side cx W vis rsv) vvty e = true →
      VSimM W M env ρ e a t
  | .sc e, a, t, hg, ht, hok => by
    simp only [VOk.okMV, Bool.and_eq_true, Bool.not_eq_true'] at hok
    cases hge : genExpr cx e with
    | error err => simp [genMV, hge] at hg
    | ok a' =>
      simp [genMV, hge] at hg; subst hg
      cases hte : Ir.typeOf W.sig cx.vty e with
      | none => simp [VIr.typeOf, hte] at ht
      | some t' =>
        simp [VIr.typeOf, hte] at ht; subst ht
        exact sim_msc ((sim_exprM hag.base hw e a' t' hge hte hok.1.1).plain hok.1.2)
  | .vvar id, a, t, hg, ht, hok => by
    simp only [VOk.okMV, Bool.and_eq_true] at hok
    simp [VIr.typeOf] at ht; subst ht
    simp [genMV] at hg; subst hg
    have hr := hag.vres (.loc id) hok.1
    simp only [Ctx.name] at hr
    exact ⟨by simp [VMsl.typeOf, hr, hag.vvty], fun σ => by simp [VMsl.eval, hr, VIr.eval]⟩
  | .vglobal id, a, t, hg, ht, hok => by
    simp only [VOk.okMV, Bool.and_eq_true] at hok
    simp [VIr.typeOf] at ht; subst ht
    simp [genMV] at hg; subst hg
    have hr := hag.vres (.glob id) hok.1
    simp only [Ctx.name] at hr
    exact ⟨by simp [VMsl.typeOf, hr, hag.vvty], fun σ => by simp [VMsl.eval, hr, VIr.eval]⟩
  | .cast ty x, a, t, hg, ht, hok => by
    simp only [VOk.okMV, Bool.and_eq_true, Bool.or_eq_true] at hok
    cases htx : VIr.typeOf W.sig cx.vty vvty x with
    | none => simp [VIr.typeOf, htx] at ht
    | some tx =>
      have htt : t = ty := by
        simp only [VIr.typeOf, htx] at ht
        split at ht
        · simp at ht
        · simpa using ht.symm
      subst htt
      rcases hok.2 with hlit | hok2
      · -- a literal operand converted to a concrete type (fixes 40c6233 / c05bffa)
        exact sim_mcast_lit hw.prim hok.1 hlit hg
      · have hgt := getTy_ok hw.ret x tx htx
        have hcond : VOk.tyOKM tx = true ∧ VOk.castFits tx t = true := by
          have := hok2.2
          simp only [side] at this
          rw [htx] at this
          simpa using this
        cases hgx : genMV cx vvty x with
        | error e => simp [genMV, hgt, hgx] at hg
        | ok x' =>
          have hx := sim_mv hag hw hρ x x' tx hgx htx hok2.1
          exact sim_mcast hw.prim hρ hgt hgx hg hx htx hcond.1 hok.1 hcond.2
  | .swz x sl, a, t, hg, ht, hok => by
    simp only [VOk.okMV, Bool.and_eq_true, decide_eq_true_eq] at hok
    cases htx : VIr.typeOf W.sig cx.vty vvty x with
    | none => simp [VIr.typeOf, htx] at ht
    | some tx =>
      have hgt := getTy_ok hw.ret x tx htx
      have hox : VOk.tyOKM tx = true := by
        have := hok.1.2
        simp only [side] at this
        rw [htx] at this
        simpa [VOk.optTyOKM] using this
      cases hgx : genMV cx vvty x with
      | error e => simp [genMV, hgt, hgx] at hg
      | ok x' =>
        have hx := sim_mv hag hw hρ x x' tx hgx htx hok.1.1
        exact sim_mswz hρ hgt hgx hg hx htx ht hox hok.2
  | .ctor ty slots, a, t, hg, ht, hok => by
    simp only [VOk.okMV, Bool.and_eq_true] at hok
    cases hn : GenMslVec.vtypeName ty with
    | error e => simp [genMV, hn] at hg
    | ok n =>
      cases hgs : genMSlots cx vvty slots with
      | error e => simp [genMV, hn, hgs] at hg
      | ok as =>
        simp [genMV, hn, hgs] at hg; subst hg
        cases hso : VIr.slotsOK W.sig cx.vty vvty ty.scalar slots with
        | none => simp [VIr.typeOf, hso] at ht
        | some total =>
          simp only [VIr.typeOf, hso] at ht
          split at ht
          · rename_i hc
            simp only [Option.some.injEq] at ht; subst ht
            have hs := sim_mslots hag hw hρ slots as ty.scalar total hgs hso hok.2
            rw [hc.1] at hs
            have := sim_mctor hn hok.1 hs
            exact this
          · simp at ht
  | .tern c f g, a, t, hg, ht, hok => by
    simp only [VOk.okMV, Bool.and_eq_true] at hok
    obtain ⟨⟨lc, lf⟩, lg⟩ := hok
    cases hgc : genMV cx vvty c with
    | error e => simp [genMV, hgc] at hg
    | ok c' =>
      cases hgf : genMV cx vvty f with
      | error e => simp [genMV, hgc, hgf] at hg
      | ok f' =>
        cases hgg : genMV cx vvty g with
        | error e => simp [genMV, hgc, hgf, hgg] at hg
        | ok g' =>
          simp [genMV, hgc, hgf, hgg] at hg; subst hg
          cases htc : VIr.typeOf W.sig cx.vty vvty c with
          | none => simp [VIr.typeOf, htc] at ht
          | some tc =>
            cases htf : VIr.typeOf W.sig cx.vty vvty f with
            | none => simp only [VIr.typeOf, htc, htf] at ht; simp at ht
            | some tf =>
              cases htg : VIr.typeOf W.sig cx.vty vvty g with
              | none => simp only [VIr.typeOf, htc, htf, htg] at ht; simp at ht
              | some tg =>
                exact sim_mtern (sim_mv hag hw hρ c c' tc hgc htc lc) htc (sim_mv hag hw hρ f f' tf hgf htf lf) htf
                  (sim_mv hag hw hρ g g' tg hgg htg lg) htg ht
  | .op o .nil, a, t, hg, ht, _ => by simp [VIr.typeOf] at ht
  | .op o (.cons x .nil), a, t, hg, ht, hok => by
    simp only [VOk.okMV, VOk.okMVs, Bool.and_eq_true, Bool.and_true] at hok
    cases htx : VIr.typeOf W.sig cx.vty vvty x with
    | none => simp only [VIr.typeOf, htx] at ht; split at ht <;> simp_all
    | some tx =>
      cases hf : mslOpForm o with
      | special => simp [genMV, hf] at hg
      | meshMethod => simp [genMV, hf] at hg
      | meshHelper => simp [genMV, hf] at hg
      | binary b => simp [genMV, hf, genMBinary] at hg
      | floatCall name scalars b =>
        have := (op_floatCallM hf).1
        simp only [VIr.typeOf, htx, this] at ht
        simp at ht
      | floatAssign scalars err outer inner b =>
        -- `%=`: an assignment, typed at statement level only (`sim_massign`)
        have := (op_floatAssignM hf).1
        simp only [VIr.typeOf, htx, this] at ht
        simp at ht
      | unary u =>
        cases hgx : genMV cx vvty x with
        | error e => simp [genMV, hf, hgx] at hg
        | ok x' =>
          simp [genMV, hf, hgx] at hg; subst hg
          have hside := hok.2
          simp only [side] at hside
          rw [htx] at hside
          refine sim_mun hw.prim hρ hf (sim_mv hag hw hρ x x' tx hgx htx hok.1) htx ht ?_
          intro m k hm hl hk
          subst hk
          rw [hm] at hside
          cases m <;> simp at hl <;> simpa using hside
  | .op o (.cons x (.cons y .nil)), a, t, hg, ht, hok => by
    simp only [VOk.okMV, VOk.okMVs, Bool.and_eq_true, Bool.and_true] at hok
    obtain ⟨⟨lx, ly⟩, hside⟩ := hok
    cases htx : VIr.typeOf W.sig cx.vty vvty x with
    | none => simp only [VIr.typeOf, htx] at ht; split at ht <;> simp_all
    | some tx =>
      cases hty : VIr.typeOf W.sig cx.vty vvty y with
      | none => simp only [VIr.typeOf, htx, hty] at ht; split at ht <;> simp_all
      | some ty =>
        simp only [side] at hside
        rw [htx] at hside
        have hbs : ∀ m, irOpSem o = .bin m → binSide m tx := by
          intro m hm
          rw [hm] at hside
          cases tx with
          | vec k n => trivial
          | sc k => simpa [binSide] using hside
        have hgt := getTy_ok hw.ret x tx htx
        have hox := okMV_tyOK (S := side cx W vis rsv) x tx htx lx
        cases hf : mslOpForm o with
        | special => simp [genMV, hf] at hg
        | meshMethod => simp [genMV, hf] at hg
        | meshHelper => simp [genMV, hf] at hg
        | unary u => simp [genMV, hf] at hg
        | binary b =>
          cases hgx : genMV cx vvty x with
          | error e => simp [genMV, hf, genMBinary, hgx] at hg
          | ok x' =>
            cases hgy : genMV cx vvty y with
            | error e => simp [genMV, hf, genMBinary, hgx, hgy] at hg
            | ok y' =>
              simp [genMV, hf, genMBinary, hgx, hgy] at hg; subst hg
              exact sim_mbin hw.prim hρ (op_binaryM hf) (sim_mv hag hw hρ x x' tx hgx htx lx) htx
                (sim_mv hag hw hρ y y' ty hgy hty ly) hty ht hbs (by
                  intro hm; exfalso
                  cases o <;> simp [mslOpForm] at hf <;> simp [irOpSem] at hm)
        | floatCall name scalars b =>
          obtain ⟨hm, hbsem, hlib, hsc⟩ := op_floatCallM hf
          subst hsc
          cases hgx : genMV cx vvty x with
          | error e =>
            simp only [genMV, hf, hgt] at hg
            split at hg <;> simp [genMArgs, genMBinary, hgx] at hg
          | ok x' =>
            cases hgy : genMV cx vvty y with
            | error e =>
              simp only [genMV, hf, hgt] at hg
              split at hg <;> simp [genMArgs, genMBinary, hgx, hgy] at hg
            | ok y' =>
              simp only [genMV, hf, hgt] at hg
              split at hg
              · rename_i hin
                simp [genMArgs, hgx, hgy, hlib] at hg; subst hg
                exact sim_mfmod hw.prim hm (scalarIn_float (tyOKM_scalar hox) hin) (sim_mv hag hw hρ x x' tx hgx htx lx) htx
                  (sim_mv hag hw hρ y y' ty hgy hty ly) hty ht
              · simp [genMBinary, hgx, hgy] at hg; subst hg
                rename_i hnin
                exact sim_mbin hw.prim hρ (hbsem.trans hm.symm) (sim_mv hag hw hρ x x' tx hgx htx lx) htx
                  (sim_mv hag hw hρ y y' ty hgy hty ly) hty ht hbs (by
                    intro _ hfl; apply hnin; rw [hfl]; decide)
        | floatAssign scalars err outer inner b =>
          have := (op_floatAssignM hf).1
          simp only [VIr.typeOf, htx, hty, this] at ht
          simp at ht
  | .op o (.cons x (.cons y (.cons z r))), a, t, hg, ht, _ => by simp [VIr.typeOf] at ht
theorem sim_mslots (hag : VAgreeM cx vis env vvty) (hw : Worlds cx rsv W M) (hρ : ∀ y, VOk.shaped (vvty y) (ρ y) = true) :
    ∀ (slots : VSlots) (as : VAExprs) (k : Ty) (total : Nat),
      genMSlots cx vvty slots = .ok as → VIr.slotsOK W.sig cx.vty vvty k slots = some total →
      VOk.okMVSlots (side cx W vis rsv) vvty slots = true → SlotsSim W M env ρ k slots as total
  | .nil, as, k, total, hg, hso, _ => by
    simp [genMSlots] at hg; subst hg
    simp [VIr.slotsOK] at hso; subst hso
    exact ⟨[], rfl, by simp, rfl, fun σ => by simp [VMsl.evalArgs, VIr.evalSlots, flat, shapedAll]⟩
  | .cons n e r, as, k, total, hg, hso, hok => by
    simp only [VOk.okMVSlots, Bool.and_eq_true] at hok
    cases hge : genMV cx vvty e with
    | error err => simp [genMSlots, hge] at hg
    | ok a1 =>
      cases hgr : genMSlots cx vvty r with
      | error err => simp [genMSlots, hge, hgr] at hg
      | ok ar =>
        simp [genMSlots, hge, hgr] at hg; subst hg
        cases hte : VIr.typeOf W.sig cx.vty vvty e with
        | none => simp [VIr.slotsOK, hte] at hso
        | some te =>
          cases hsr : VIr.slotsOK W.sig cx.vty vvty k r with
          | none => simp [VIr.slotsOK, hte, hsr] at hso
          | some m =>
            simp only [VIr.slotsOK, hte, hsr] at hso
            split at hso
            · rename_i hc
              simp only [Option.some.injEq] at hso; subst hso
              have h1 := sim_mv hag hw hρ e a1 te hge hte hok.1
              obtain ⟨tys, hat, hk, hsum, hev⟩ := sim_mslots hag hw hρ r ar k m hgr hsr hok.2
              have hoe := okMV_tyOK (S := side cx W vis rsv) e te hte hok.1
              refine ⟨te :: tys, by simp [VMsl.argTypes, h1.1, hat], ?_, by simp [hsum, hc.2], ?_⟩
              · intro t ht
                rcases List.mem_cons.mp ht with rfl | ht
                · exact ⟨hc.1, hoe⟩
                · exact hk t ht
              · intro σ
                simp only [VMsl.evalArgs, h1.2 σ, VIr.evalSlots]
                cases hv : VIr.eval W ρ e σ with
                | none => simp
                | some p =>
                  obtain ⟨v, σ1⟩ := p
                  have hs := shape_sound hρ e te σ σ1 v hte hv
                  have h2 := hev σ1
                  simp only []
                  cases hr : VMsl.evalArgs M env ρ ar σ1 with
                  | none => simp only [hr] at h2; simp [h2]
                  | some q =>
                    obtain ⟨vs, σ2⟩ := q
                    simp only [hr] at h2
                    simp [h2.1, flat, shapedAll, hs, h2.2]
            · simp at hso
end

end RsslVerif.Lemmas.GenMslVec

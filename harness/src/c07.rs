//! C07: compilation is deterministic.
//!
//! request : C07.repeat \t <dx|vk|vkba|msl> \t <all|nopipeline> \t <gen:<seed> | clash:<seed> | disk:<root>|<entry>>
//! observe : digest of sources + stages + metadata + pipeline state (or of the diagnostic)
//! oracle  : the same input compiled 5x in this process and once in each of 3 fresh processes (different
//!           std RandomState seeds for every HashMap/HashSet instance) gives byte-identical results.
use crate::compile_util::*;
use crate::progen::*;
use crate::util::*;

fn source_of(id: &str) -> Option<(Option<(String, String)>, Option<String>)> {
    if let Some(seed) = id.strip_prefix("gen:") {
        let seed: u64 = seed.parse().ok()?;
        let prog = gen_program(&mut Rng::new(seed), &stress_opts());
        Some((None, Some(render(&prog, &|_| true))))
    } else if let Some(seed) = id.strip_prefix("clash:") {
        let seed: u64 = seed.parse().ok()?;
        Some((None, Some(clash_program(&mut Rng::new(seed)))))
    } else if let Some(rest) = id.strip_prefix("disk:") {
        let (root, entry) = rest.split_once('|')?;
        Some((Some((root.to_string(), entry.to_string())), None))
    } else {
        None
    }
}

/// Programs whose emitted names need generated suffixes in several scopes at once: the same
/// overloaded / target-reserved base names declared in the global scope and in 2-4 namespaces,
/// plus structs and globals sharing those names across scopes.
fn clash_program(rng: &mut Rng) -> String {
    let bases = ["pick", "main", "kernel", "select", "vertex", "fragment", "float16_t", "helper", "constant", "device"];
    let nns = rng.range(2, 4) as usize;
    let nbases = rng.range(1, 3) as usize;
    let mut chosen: Vec<&str> = Vec::new();
    while chosen.len() < nbases {
        let b = *rng.pick(&bases);
        if !chosen.contains(&b) {
            chosen.push(b);
        }
    }
    let mut s = String::from("static int s_total = 0;\n");
    let mut calls: Vec<String> = Vec::new();
    let scopes: Vec<Option<String>> = std::iter::once(None).chain((0..nns).map(|k| Some(format!("ns{}", k)))).collect();
    for scope in &scopes {
        if let Some(ns) = scope {
            s.push_str(&format!("namespace {}\n{{\n", ns));
        }
        for b in &chosen {
            if scope.is_none() && rng.chance(1, 2) {
                continue;
            }
            let overloads = rng.range(1, 3);
            let tys = ["int", "float", "uint"];
            for o in 0..overloads {
                let ty = tys[o as usize];
                s.push_str(&format!("{} {}({} x)\n{{\n    s_total = s_total + 1;\n    return x;\n}}\n", ty, b, ty));
                let arg = match ty { "int" => "1", "float" => "1.0f", _ => "1u" };
                let q = match scope { Some(ns) => format!("{}::", ns), None => String::new() };
                calls.push(format!("    {}{}({});\n", q, b, arg));
            }
        }
        if rng.chance(1, 2) {
            s.push_str("struct Data\n{\n    float value;\n};\n");
        }
        if scope.is_some() {
            s.push_str("}\n");
        }
    }
    s.push_str("[numthreads(1, 1, 1)]\nvoid entry()\n{\n");
    for c in &calls {
        s.push_str(c);
    }
    s.push_str("}\nPipeline P\n{\n    ComputeShader = entry;\n}\n");
    s
}

fn stress_opts() -> GenOpts {
    GenOpts { max_resources: 10, max_helpers: 6, max_pipes: 3, allow_mesh: true, share_entries: true }
}

fn compile_id(id: &str, tgt: Tgt, mode: &Mode) -> Option<CompileOutcome> {
    let (disk, src) = source_of(id)?;
    Some(match (disk, src) {
        (Some((root, entry)), _) => compile_disk(&root, &entry, tgt, mode.clone()),
        (_, Some(src)) => compile_src(&src, tgt, mode.clone()),
        _ => return None,
    })
}

fn parse_req(line: &str) -> Option<(Tgt, Mode, String)> {
    let f: Vec<&str> = line.split('\t').collect();
    if f.len() != 4 || f[0] != "C07.repeat" {
        return None;
    }
    let mode = match f[2] {
        "all" => Mode::All,
        "nopipeline" => Mode::NoPipeline,
        _ => return None,
    };
    Some((Tgt::parse(f[1])?, mode, f[3].to_string()))
}

/// child mode: print one digest per request and nothing else
fn child(lines: &[String]) {
    for line in lines {
        if let Some((t, m, id)) = parse_req(line) {
            let d = compile_id(&id, t, &m).map(|o| o.digest()).unwrap_or_else(|| "bad".into());
            println!("DIGEST\t{}", d);
        }
    }
}

fn run_requests(lines: &[String], out: &mut Out, hist: &mut Hist) {
    // in-process repeats
    let mut first: Vec<String> = Vec::new();
    let mut fails: Vec<Option<String>> = Vec::new();
    for line in lines {
        let Some((t, m, id)) = parse_req(line) else {
            first.push("bad".into());
            fails.push(Some("bad request".into()));
            continue;
        };
        let a = compile_id(&id, t, &m);
        let d0 = a.as_ref().map(|o| o.digest()).unwrap_or_else(|| "bad".into());
        // a panic is a C08 matter; for C07 it only has to be the same panic every time
        let mut fail = None;
        for k in 1..5 {
            let d = compile_id(&id, t, &m).map(|o| o.digest()).unwrap_or_else(|| "bad".into());
            if d != d0 && fail.is_none() {
                fail = Some(format!("run {} in the same process differs: {} vs {}", k, d, d0));
            }
        }
        hist.add(&format!("target={}", t.name()));
        hist.add(if d0.starts_with("ok") { "outcome=ok" } else if d0.starts_with("err") { "outcome=err" } else { "outcome=panic" });
        hist.add(if id.starts_with("gen:") { "source=generated" } else if id.starts_with("clash:") { "source=name-clash" } else { "source=repo-corpus" });
        first.push(d0);
        fails.push(fail);
    }
    // fresh processes
    let tmp = std::env::temp_dir().join(format!("c07-req-{}.txt", std::process::id()));
    std::fs::write(&tmp, lines.join("\n") + "\n").unwrap();
    let exe = std::env::current_exe().unwrap();
    for proc_no in 0..3 {
        let output = std::process::Command::new(&exe)
            .args(["c07", "--requests", tmp.to_str().unwrap(), "child"])
            .output();
        let Ok(output) = output else {
            for f in fails.iter_mut() {
                if f.is_none() {
                    *f = Some("could not start a child process".into());
                }
            }
            break;
        };
        let text = String::from_utf8_lossy(&output.stdout);
        let digests: Vec<&str> = text.lines().filter_map(|l| l.strip_prefix("DIGEST\t")).collect();
        for (i, d0) in first.iter().enumerate() {
            let d = digests.get(i).copied().unwrap_or("missing");
            if d != d0 && fails[i].is_none() {
                fails[i] = Some(format!("fresh process {} differs: {} vs {}", proc_no, d, d0));
            }
        }
    }
    let _ = std::fs::remove_file(&tmp);
    for ((line, d0), fail) in lines.iter().zip(&first).zip(&fails) {
        let oracle = match fail {
            None => "ok".to_string(),
            Some(f) => format!("FAIL:{}", f),
        };
        out.case(line, d0, &oracle);
    }
}

pub fn run(args: &Args, out: &mut Out) {
    let mut hist = Hist::default();
    if let Some(lines) = args.request_lines() {
        if args.extra.iter().any(|e| e == "child") {
            child(&lines);
            return;
        }
        run_requests(&lines, out, &mut hist);
        out.stat(&format!("{{\"mode\":\"replay\",\"hist\":{}}}", hist.json()));
        return;
    }
    let repo = std::env::var("VERIF_REPO").unwrap_or_else(|_| "/repo".into());
    let mut lines = Vec::new();
    let mut rng = Rng::new(args.seed);
    let n = args.n.unwrap_or(if args.thorough() { 1500 } else { 120 });
    for _ in 0..n {
        let seed = rng.next() >> 16;
        let probe = gen_program(&mut Rng::new(seed), &stress_opts());
        let mode = if probe.pipes.is_empty() { "nopipeline" } else { "all" };
        for t in ALL_TARGETS {
            lines.push(format!("C07.repeat\t{}\t{}\tgen:{}", t.name(), mode, seed));
        }
    }
    for _ in 0..n / 2 {
        let seed = rng.next() >> 16;
        for t in [Tgt::Dx, Tgt::Msl] {
            lines.push(format!("C07.repeat\t{}\tall\tclash:{}", t.name(), seed));
        }
    }
    // the repository's own inputs
    let corpus = repo_corpus(&repo);
    let take = if args.thorough() { corpus.len() } else { corpus.len().min(24) };
    let step = (corpus.len() / take.max(1)).max(1);
    for (i, (root, entry)) in corpus.iter().enumerate() {
        if i % step != 0 {
            continue;
        }
        let mode = if entry.ends_with(".rssl") { "all" } else { "nopipeline" };
        for t in [Tgt::Dx, Tgt::Msl] {
            lines.push(format!("C07.repeat\t{}\t{}\tdisk:{}|{}", t.name(), mode, root, entry));
        }
    }
    run_requests(&lines, out, &mut hist);
    out.stat(&format!("{{\"requests\":{},\"repeats_in_process\":5,\"fresh_processes\":3,\"hist\":{}}}", lines.len(), hist.json()));
}

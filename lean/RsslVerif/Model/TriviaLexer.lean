import RsslVerif.Model.Lexer
import RsslVerif.Model.Trivia
/-!
# The abstract token loop of `Model.Trivia` instantiated with the byte-level lexer model of C10

`Model.Trivia.Lexer` is what `TokenStream::read_to_end` needs from `token_intermediate`; here it is
`Model.Lexer.tokenIntermediate _ false` (`read_to_end` never lexes in `#include` mode).  A token is carried
together with its lexeme (the bytes it covers), so that statements about "the same token" also say "the same
spelling" and side conditions can tell a line comment from a block comment.

Core Lean only: linked into `rsslmodel_c14` (op `C14.lex`).
-/
namespace RsslVerif.Model.TriviaLexer
open RsslVerif.Gen.LexTables RsslVerif.Model.Lexer RsslVerif.Model.Trivia

/-- a token and the bytes it was lexed from -/
abbrev LTok := Token × Bytes

/-- `token_intermediate(input, false)` as the abstract loop sees it: token (+ lexeme) and consumed length -/
def tokAt (x : Bytes) : Option (LTok × Nat) :=
  match tokenIntermediate x false with
  | .ok (rest, t) => some ((t, x.take (x.length - rest.length)), x.length - rest.length)
  | .error _ => none

def rsslLexer : Trivia.Lexer LTok where
  tok := tokAt
  isWs := fun t => t.1.isWhitespace
  endline := (.simple .Endline, [])
  isEndline := fun t => decide (t.1 = .simple .Endline)

/-- what `TokenStream::next` reports when `token_intermediate` fails on the text `x` that starts at offset
`off` of a file of `total` bytes: `LexerError { reason, location = base + (len - rest.len()) }`; `none` = the
model's explicit panic results -/
def failureAt (x : Bytes) (off : Nat) : Option (Reason × Nat) :=
  match tokenIntermediate x false with
  | .error (.lex (.rest r) reason) => some (reason, off + (x.length - r.length))
  | .error (.lex .static reason) => some (reason, off + x.length)
  | _ => none

/-- the lexer's verdict on a whole text: the tokens it produced (with the synthetic trailing `Endline` when
it reaches the end) and, if it stopped early, why and where -/
def lexAll (x : Bytes) : List (Spanned LTok) × Option (Reason × Nat) :=
  match readToEnd rsslLexer x true with
  | .ok ts => (ts, none)
  | .error _ =>
    let pre := lexPrefix rsslLexer x 0
    let pos := match pre.getLast? with
      | some t => t.stop
      | none => 0
    (pre, failureAt (x.drop pos) pos)

end RsslVerif.Model.TriviaLexer

import RsslVerif.Model.Conv
/-!
# Model of the modifier handling of `parse_type_for_usage` (typer/src/typer/types.rs)

`parse_type_for_usage(ty, position)` turns a written type (`<modifier keywords> <type name>`) into an ir type:

1. `parse_typelayout` finds the named type.  A typedef name (or a struct-template type parameter, which is registered
   with `register_typedef`) gives the type the typedef registered, *including the modifier layer the typedef carries*.
2. `parse_type_modifier(modifiers, parsed_id, position)` reads the keywords written at the use site in source order
   into a fresh `TypeModifier` (`full_modifier`): `const` always; `volatile` unless the position is `Return`,
   `StructMember`, `Global`, `ConstantBufferMember`; `row_major` / `column_major` conflict with the other one written
   before **or carried by the named type** (fix 8a3a2d4) and need a matrix below the modifiers; `unorm` / `snorm`
   conflict the same way and need an element kind `float` below the modifiers.
3. the tail: `extract_modifier(parsed_id)` splits the named type into its unmodified type and the modifier it carries,
   `base_modifier.combine(direct_modifier)` ors the two field by field (`TypeModifier::combine`) and `combine_modifier`
   puts the merged modifier back onto the unmodified type.

Only the modifier part is modelled: the type below the modifiers is described by the two facts `parse_type_modifier`
asks about it (`isMatrix`, `isF32`).  The storage-class / input / interpolation / `precise` denials of the function are
outside (the requests of the correspondence never write those keywords in a position that denies them).

Tied to the code by `Gen.TypeMods` (tools/gens/c03.py: the tail statements, the fields and operator of
`TypeModifier::combine`, the per-keyword rows of `parse_type_modifier`), compared with the hand-written expectations in
`Thm.C03X` (`parse_type_for_usage_as_modelled`), and by the `C03.decl` correspondence stream.
-/
namespace RsslVerif.Model.TypeMods
open RsslVerif.Model.Conv (Modifier)

/-- `ir::TypeModifier`, all six fields -/
structure Mods where
  isConst : Bool := false
  volatile : Bool := false
  rowMajor : Bool := false
  columnMajor : Bool := false
  unorm : Bool := false
  snorm : Bool := false
  deriving DecidableEq, Repr, Inhabited

/-- `TypeModifier::new()` / `default()` -/
def Mods.none : Mods := {}

/-- the type modifier keywords `parse_type_modifier` has an arm for -/
inductive Kw where
  | const | volatile | rowMajor | columnMajor | unorm | snorm
  deriving DecidableEq, Repr, Inhabited

/-- the field a keyword sets -/
def Mods.flag (m : Mods) : Kw → Bool
  | .const => m.isConst
  | .volatile => m.volatile
  | .rowMajor => m.rowMajor
  | .columnMajor => m.columnMajor
  | .unorm => m.unorm
  | .snorm => m.snorm

def Mods.set (m : Mods) : Kw → Mods
  | .const => { m with isConst := true }
  | .volatile => { m with volatile := true }
  | .rowMajor => { m with rowMajor := true }
  | .columnMajor => { m with columnMajor := true }
  | .unorm => { m with unorm := true }
  | .snorm => { m with snorm := true }

/-- `TypeModifier::combine`: the modifier a named type carries merged with the modifier written at the use site:
    every field is the `||` of the two -/
def mergeModifiers (named use : Mods) : Mods :=
  { isConst := named.isConst || use.isConst
    volatile := named.volatile || use.volatile
    rowMajor := named.rowMajor || use.rowMajor
    columnMajor := named.columnMajor || use.columnMajor
    unorm := named.unorm || use.unorm
    snorm := named.snorm || use.snorm }

/-- `TypePosition` -/
inductive Pos where
  | free | localVar | parameter | ret | structMember | global | cbufferMember | templateArgument
  deriving DecidableEq, Repr, Inhabited

/-- the `TyperError` variants of `parse_type_modifier` -/
inductive Err where
  | modifierNotSupported | modifierConflict | matrixOrderRequiresMatrixType | modifierRequiresFloatType
  deriving DecidableEq, Repr, Inhabited

def Err.name : Err → String
  | .modifierNotSupported => "ModifierNotSupported"
  | .modifierConflict => "ModifierConflict"
  | .matrixOrderRequiresMatrixType => "MatrixOrderRequiresMatrixType"
  | .modifierRequiresFloatType => "ModifierRequiresFloatType"

/-- the positions whose `volatile` arm answers `ModifierNotSupported` -/
def volatileDenied : Pos → Bool
  | .ret | .structMember | .global | .cbufferMember => true
  | _ => false

/-- the keyword a keyword may not be combined with (`row_major` ↔ `column_major`, `unorm` ↔ `snorm`) -/
def Kw.conflict : Kw → Option Kw
  | .rowMajor => some .columnMajor
  | .columnMajor => some .rowMajor
  | .unorm => some .snorm
  | .snorm => some .unorm
  | _ => none

/-- what `parse_type_modifier` asks about the type below the modifiers -/
structure Shape where
  /-- `matches!(tyl, TypeLayer::Matrix(..))` -/
  isMatrix : Bool
  /-- `extract_scalar(unmodified_type) == Some(Float32)` -/
  isF32 : Bool
  deriving DecidableEq, Repr, Inhabited

/-- one arm of the `match &modifier.node` of `parse_type_modifier`, checks in source order -/
def kwStep (base : Mods) (sh : Shape) (pos : Pos) (full : Mods) (k : Kw) : Except Err Mods :=
  match k with
  | .const => .ok (full.set .const)
  | .volatile => if volatileDenied pos then .error .modifierNotSupported else .ok (full.set .volatile)
  | .rowMajor =>
    if full.columnMajor || base.columnMajor then .error .modifierConflict
    else if !sh.isMatrix then .error .matrixOrderRequiresMatrixType
    else .ok (full.set .rowMajor)
  | .columnMajor =>
    if full.rowMajor || base.rowMajor then .error .modifierConflict
    else if !sh.isMatrix then .error .matrixOrderRequiresMatrixType
    else .ok (full.set .columnMajor)
  | .unorm =>
    if full.snorm || base.snorm then .error .modifierConflict
    else if !sh.isF32 then .error .modifierRequiresFloatType
    else .ok (full.set .unorm)
  | .snorm =>
    if full.unorm || base.unorm then .error .modifierConflict
    else if !sh.isF32 then .error .modifierRequiresFloatType
    else .ok (full.set .snorm)

/-- the `for modifier in &modifiers.modifiers` loop -/
def kwLoop (base : Mods) (sh : Shape) (pos : Pos) : Mods → List Kw → Except Err Mods
  | full, [] => .ok full
  | full, k :: ks =>
    match kwStep base sh pos full k with
    | .error e => .error e
    | .ok full' => kwLoop base sh pos full' ks

/-- `parse_type_modifier(modifiers, applied_type, position)`: `base` is the modifier `applied_type` carries -/
def parseTypeModifier (kws : List Kw) (base : Mods) (sh : Shape) (pos : Pos) : Except Err Mods :=
  kwLoop base sh pos Mods.none kws

/-- the modifier of the type `parse_type_for_usage` returns for `<kws> <name>` where the named type carries `named` -/
def parseTypeForUsage (named : Mods) (kws : List Kw) (sh : Shape) (pos : Pos) : Except Err Mods :=
  match parseTypeModifier kws named sh pos with
  | .error e => .error e
  | .ok direct => .ok (mergeModifiers named direct)

/-- a chain of typedefs, innermost first: `typedef <kws₀> B T0; typedef <kws₁> T0 T1; ...` — every typedef's source type
    goes through `parse_type` = `parse_type_for_usage(.., Free)` (`parse_rootdefinition_typedef`); a template argument
    `W<<kws> Tn>` likewise (`parse_expression_or_type`), and the parameter is then registered like a typedef -/
def typedefChain (sh : Shape) : Mods → List (List Kw) → Except Err Mods
  | cur, [] => .ok cur
  | cur, kws :: rest =>
    match parseTypeForUsage cur kws sh .free with
    | .error e => .error e
    | .ok m => typedefChain sh m rest

/-- the modifier of the declared type of `<use> Tn x` at a declaration position -/
def declMods (sh : Shape) (layers : List (List Kw)) (use : List Kw) (pos : Pos) : Except Err Mods :=
  match typedefChain sh Mods.none layers with
  | .error e => .error e
  | .ok named => parseTypeForUsage named use sh pos

/-- the callers of `parse_type_for_usage` for the declaration positions of the correspondence: `parse_struct` (structs.rs)
    refuses `const` written directly on a member **after** the type was parsed ("it can still appear on the type");
    locals, parameters and globals add no modifier check of their own -/
def declModsAt (sh : Shape) (layers : List (List Kw)) (use : List Kw) (pos : Pos) : Except Err Mods :=
  match declMods sh layers use pos with
  | .error e => .error e
  | .ok m => if pos == .structMember && use.contains .const then .error .modifierNotSupported else .ok m

def Kw.all : List Kw := [.const, .volatile, .rowMajor, .columnMajor, .unorm, .snorm]
def Pos.all : List Pos := [.free, .localVar, .parameter, .ret, .structMember, .global, .cbufferMember, .templateArgument]

/-- the variant names of `ast::TypeModifier` / the field names of `ir::TypeModifier` / `TypePosition` -/
def Kw.variant : Kw → String
  | .const => "Const" | .volatile => "Volatile" | .rowMajor => "RowMajor" | .columnMajor => "ColumnMajor"
  | .unorm => "Unorm" | .snorm => "Snorm"
def Kw.field : Kw → String
  | .const => "is_const" | .volatile => "volatile" | .rowMajor => "row_major" | .columnMajor => "column_major"
  | .unorm => "unorm" | .snorm => "snorm"
def Pos.variant : Pos → String
  | .free => "Free" | .localVar => "Local" | .parameter => "Parameter" | .ret => "Return" | .structMember => "StructMember"
  | .global => "Global" | .cbufferMember => "ConstantBufferMember" | .templateArgument => "TemplateArgument"

/-- the same modifier in the packing of `Model.Conv` (what the elaboration model reads) -/
def Mods.toModifier (m : Mods) : Modifier :=
  { isConst := m.isConst, volatile := m.volatile,
    rest := (if m.rowMajor then 1 else 0) + (if m.columnMajor then 2 else 0) + (if m.unorm then 4 else 0) +
            (if m.snorm then 8 else 0) }

end RsslVerif.Model.TypeMods

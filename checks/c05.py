"""C05 — reflection metadata agrees with the emitted source."""
import os
import re

T = "RsslVerif.Thm.C05."
REPO = os.environ.get("VERIF_REPO", "/repo")


def _reserved(rel):
    try:
        text = open(os.path.join(REPO, rel)).read()
        m = re.search(r'RESERVED_NAMES: &\[&str\] = &\[(.*?)\];', text, re.S)
        return set(re.findall(r'"([^"]*)"', m.group(1))) if m else set()
    except OSError:
        return set()


def nontrivial(req, obs):
    # at least two metadata entries and at least one reported stage
    return obs.count("=i") + obs.count("=n") >= 2 and "S[]" not in obs


def _res_items(req):
    f = req.split("\t")
    out = []
    for it in (f[4].split(";") if len(f) > 4 and f[4] else []):
        p = it.split(":")
        if len(p) >= 7:
            out.append(p)
    return out


def finding_key(req, obs, detail):
    """(target, failure class, name class): the name class says *why* a name was not kept"""
    f = req.split("\t")
    tgt = f[1] if len(f) > 1 else "?"
    m = re.match(r"FAIL:([a-z\-]+) (.*)$", detail or "")
    if not m:
        return req
    cls, rest = m.group(1), m.group(2)
    if cls in ("entry-renamed", "msl-name-renamed"):
        nm = re.search(r"`([^`]*)`", rest)
        name = nm.group(1) if nm else ""
        reserved = _reserved("msl/src/names.rs" if tgt == "msl" else "hlsl/src/names.rs")
        return f"{tgt} {cls} {'reserved-name' if name in reserved else 'other-name'}"
    if cls in ("unsized-array-unbound", "static-object-bound", "nested-array-unbound", "struct-resource-unbound",
               "numthreads-ambiguous", "prototype-default-unused"):
        return f"{tgt} {cls}"
    if cls == "entry-name-ambiguous":
        # bindings are reported under their leaf name: two declarations in different namespaces whose (generated)
        # leaf names coincide can not be told apart
        nm = re.search(r"`([^`]*)`", rest)
        amb = nm.group(1) if nm else ""
        res = _res_items(req)
        same = [p for p in res if p[0] == amb or re.fullmatch(re.escape(p[0]) + r"_\d+", amb)]
        if len(same) >= 2 and any(len(p) > 7 and "ns" in p[7].split("+") for p in same):
            return f"{tgt} {cls} same-leaf-name-in-two-namespaces"
    if cls == "entry-name-ambiguous" and tgt != "msl":
        # a cbuffer block keeps its source name on HLSL; a global whose name is reserved is renamed `<name>_<n>`:
        # a cbuffer called exactly that collides with it
        res = _res_items(req)
        reserved = _reserved("hlsl/src/names.rs")
        for p in res:
            mm = re.match(r"^(.*)_\d+$", p[0])
            if p[1] == "cbuffer" and mm and any(q[1] != "cbuffer" and q[0] == mm.group(1) and q[0] in reserved for q in res):
                return f"{tgt} {cls} cbuffer-name-equals-generated-name"
    return f"{tgt} {cls} {req}"


def _items(s):
    return s.split(";") if s else []


def _uses(s):
    """'3w,4' -> [(3, 'w'), (4, '')]"""
    out = []
    for x in (s.split(",") if s else []):
        if x and not x[-1].isdigit():
            out.append((int(x[:-1]), x[-1]))
        else:
            out.append((int(x), ""))
    return out


def _drop(lst, k, shaped=False):
    """remove index k from a comma separated index list and renumber the larger ones"""
    out = []
    for x, sh in _uses(lst):
        if x == k:
            continue
        out.append(str(x - 1 if x > k else x) + (sh if shaped else ""))
    return ",".join(out)


def _plain(lst):
    """forget the statement shapes of a use list"""
    return ",".join(str(x) for x, _ in _uses(lst))


def _map_opts(item, n, fn):
    """apply fn to every option of the optional (n+1)-th ':' field; options for which fn returns None are dropped"""
    p = item.split(":")
    if len(p) <= n:
        return item
    opts = [o for o in (fn(o) for o in p[n].split("+")) if o]
    return ":".join(p[:n] + (["+".join(opts)] if opts else []))


def shrink(req):
    f = req.split("\t")
    if len(f) != 8:
        return
    head, (gs, rs, hs, es, ps) = f[:3], f[3:]
    G, R, H, E, P = gs.split(";"), _items(rs), _items(hs), _items(es), _items(ps)

    def emit(G=G, R=R, H=H, E=E, P=P):
        return "\t".join(head + [";".join(G), ";".join(R), ";".join(H), ";".join(E), ";".join(P)])

    # drop a pipeline that is not the named one
    for i in range(len(P)):
        if len(P) > 1 and not (head[2].startswith("name=") and P[i].split(":")[0] == head[2][5:]):
            yield emit(P=P[:i] + P[i + 1:])
    # drop a resource
    for k in range(len(R)):
        def fix(item, pos, opt_letter):
            p = item.split(":")
            p[pos] = _drop(p[pos], k, shaped=True)
            item = ":".join(p)
            return _map_opts(item, 4 if opt_letter == "d" else 6,
                             lambda o: ((opt_letter + _drop(o[1:], k)) if _drop(o[1:], k) else None)
                             if o.startswith(opt_letter) and o[1:2].isdigit() else o)
        H2 = [fix(h, 1, "d") for h in H]
        E2 = [":".join(e.split(":")[:2] + [_drop(e.split(":")[2], k, shaped=True)] + e.split(":")[3:]) for e in E]
        G2 = [g if not g.startswith("I") else "I" + ":".join([_drop(g[1:].split(":")[0], k)] + g[1:].split(":")[1:]) for g in G]
        yield emit(G=G2, R=R[:k] + R[k + 1:], H=H2, E=E2)
    # drop the last helper (nothing later can call it except entries and global initialisers)
    if H:
        k = len(H) - 1
        E2 = [":".join(e.split(":")[:3] + [_drop(e.split(":")[3], k)] + e.split(":")[4:]) for e in E]
        G2 = [g if not g.startswith("I") else "I" + ":".join([g[1:].split(":")[0], _drop(g[1:].split(":")[1], k)] + g[1:].split(":")[2:]) for g in G]
        yield emit(G=G2, H=H[:-1], E=E2)
    # forget the initialised globals
    if any(g.startswith("I") for g in G):
        E2 = [_map_opts(e, 6, lambda o: None if o.startswith("i") else o) for e in E]
        yield emit(G=[g for g in G if not g.startswith("I")], E=E2)
    # forget the statics
    if G[0] != "0":
        H2 = [":".join(h.split(":")[:3] + [""] + h.split(":")[4:]) for h in H]
        E2 = [":".join(e.split(":")[:4] + [""] + e.split(":")[5:]) for e in E]
        G2 = ["0"] + [g if not g.startswith("I") else ":".join(g.split(":")[:3] + [""]) for g in G[1:]]
        yield emit(G=G2, H=H2, E=E2)
    # plain layout
    if "L1" in G:
        yield emit(G=[g for g in G if g != "L1"])
    # strip options / statement shapes of one item at a time
    for i, r in enumerate(R):
        if len(r.split(":")) > 7:
            yield emit(R=R[:i] + [":".join(r.split(":")[:7])] + R[i + 1:])
    # ... or one option at a time; a type spelling loses one typedef / keyword at a time
    for i, r in enumerate(R):
        p = r.split(":")
        if len(p) > 7 and "+" in p[7] or (len(p) > 7 and p[7].startswith("T")):
            opts = p[7].split("+")
            for k, o in enumerate(opts):
                if len(opts) > 1:
                    rest = opts[:k] + opts[k + 1:]
                    yield emit(R=R[:i] + [":".join(p[:7] + ["+".join(rest)])] + R[i + 1:])
                if o.startswith("T"):
                    toks = re.findall(r"N|a|c|d\d+|e\d+|k|x|p", o[1:])
                    for t in range(len(toks)):
                        simpler = "T" + "".join(toks[:t] + toks[t + 1:])
                        if len(simpler) > 1:
                            yield emit(R=R[:i] + [":".join(p[:7] + ["+".join(opts[:k] + [simpler] + opts[k + 1:])])] + R[i + 1:])
    for i, h in enumerate(H):
        p = h.split(":")
        plain = ":".join([p[0], _plain(p[1]), p[2], p[3]])
        if plain != h:
            yield emit(H=H[:i] + [plain] + H[i + 1:])
    for i, e in enumerate(E):
        p = e.split(":")
        plain = ":".join([p[0], p[1], _plain(p[2])] + p[3:6])
        if plain != e and not any(g.startswith("I") for g in G):
            yield emit(E=E[:i] + [plain] + E[i + 1:])
    for i, pp in enumerate(P):
        if len(pp.split(":")) > 3:
            yield emit(P=P[:i] + [":".join(pp.split(":")[:3])] + P[i + 1:])


KINDS = ["Buffer", "RWBuffer", "ByteAddressBuffer", "RWByteAddressBuffer", "BufferAddress", "RWBufferAddress",
         "StructuredBuffer", "RWStructuredBuffer", "Texture2D", "Texture2DArray", "RWTexture2D", "RWTexture2DArray",
         "TextureCube", "TextureCubeArray", "Texture3D", "RWTexture3D", "ConstantBuffer", "SamplerState",
         "SamplerComparisonState", "RaytracingAccelerationStructure", "cbuffer"]


KIND_TEXT = {"Texture2D": "Texture2D<float4>", "StructuredBuffer": "StructuredBuffer<float4>", "ConstantBuffer": "ConstantBuffer<CbS>",
             "RWTexture2D": "RWTexture2D<float4>", "Buffer": "Buffer<float4>"}
SPELL_KINDS = ["Texture2D", "RWTexture2D", "StructuredBuffer", "ByteAddressBuffer", "Buffer", "ConstantBuffer", "SamplerState",
               "BufferAddress", "RWBufferAddress", "RaytracingAccelerationStructure"]
SPELLINGS_PLAIN = ["Ta", "Tc", "Taa", "Tca", "Tac", "TNa", "TNca", "Tk", "Tx", "Tak", "Tax", "Tckx"]
SPELLINGS_ARRAY = ["Td3", "Te3", "Tad3", "Tcd3", "Td3a", "Td3c", "Tce3", "TNd3", "TNad3c", "Td3k", "Te3x", "Td2d3"]
SPELLINGS_PARAM = ["Tp", "Tap", "TNd3p", "TNp"]


def front_error_orders():
    """two independent front-end errors in every relative order: error kind X at pipeline / entry point 0, kind Y at
    pipeline / entry point 1 (and both at one pipeline), in both file layouts, with and without forward declarations.
    The answer is the first error the type checker meets in file order (attributes are parsed where a function is
    defined, a Pipeline block sees the functions registered before it)."""
    kinds = "ABCDEFHITQ"

    def build(errs, layout, fd, sampler_index=False, late=False):
        res = "g_t:Texture2D:-:-:0:0:e;g_s:SamplerState:-:-:1:0:e" + (":vi3" if sampler_index else "")
        names = ["cs_0", "cs_1", "vs_2", "ps_3"]
        eopts = [[], [], [], []]
        stages = [[0], [1]]
        pnames = ["P0", "P1"]
        popts = [[], []]
        for kind, j in errs:
            if kind == "A":
                if j == 0:
                    return None
                pnames[1] = pnames[0]
            elif kind == "B":
                names[j] = "h0"
            elif kind == "C":
                stages[j] = [j, 2]
            elif kind == "D":
                stages[j] = [j, j]
            elif kind == "E":
                popts[j].append("gs3")
            elif kind == "F":
                stages[j] = []
            elif kind == "H":
                eopts[j].append("nt3")
            elif kind == "I":
                popts[j].append("b")
            elif kind == "T":
                # the entry point is a function template
                eopts[j].append("tp")
            elif kind == "Q":
                # the entry point is named `::<name>`
                if not stages[j]:
                    return None
                popts[j].append("q")
            elif kind in "1234":
                # exactly one property of one of the four groups a compute pipeline refuses
                popts[j].append("gs900" + kind)
        for j in (0, 1):
            if "q" in popts[j] and not stages[j]:
                return None
        if fd:
            for j in (0, 1):
                if "tp" not in eopts[j]:
                    eopts[j].append("fd")
        for k in range(4):
            if "tp" in eopts[k] and k not in stages[0] + stages[1]:
                return None
        if late:
            if "tp" in eopts[0]:
                return None
            eopts[0].append("lo")
        ents = []
        for k, (n, st, th) in enumerate(zip(names, ["Compute", "Compute", "Vertex", "Pixel"], ["8.4.1", "4.2.1", "-", "-"])):
            e = f"{n}:{st}:0:::{th}"
            if eopts[k]:
                e += ":" + "+".join(eopts[k])
            ents.append(e)
        pipes = []
        for j in (0, 1):
            pp = f"{pnames[j]}:-:{','.join(str(x) for x in stages[j])}"
            if popts[j]:
                pp += ":" + "+".join(popts[j])
            pipes.append(pp)
        return [layout, res, "h0:0::", ";".join(ents), ";".join(pipes)]

    out = []
    stage_kinds = "CDF"
    for layout in ["0", "0;L1"]:
        for fd in [False, True]:
            combos = []
            for x in "1234":
                combos.append(([(x, 0)], False))
                combos.append(([(x, 1), ("E", 0)], False))
            for x in kinds:
                combos.append(([(x, 0)], False))
                combos.append(([(x, 1)], False))
                combos.append(([(x, 1)], True))          # a static sampler with an index comes before everything
                for y in kinds:
                    combos.append(([(x, 0), (y, 1)], False))
                    if x < y and not (x in stage_kinds and y in stage_kinds):
                        # both at one pipeline: the order of the checks inside parse_pipeline / between a block and its entry
                        combos.append(([(x, 0), (y, 0)], False))
                        combos.append(([(x, 1), (y, 1)], False))
            for errs, sampler in combos:
                for late in ([False, True] if len(errs) == 1 else [False]):
                    f = build(errs, layout, fd, sampler, late)
                    if f is None:
                        continue
                    for tgt in ["dx", "msl"]:
                        out.append("\t".join(["C05.meta", tgt, "all"] + f))
    return out


def search(ctx):
    """small inputs enumerated for the witness search after a broken obligation: every bindable kind alone and
    next to a second resource, with and without array / explicit group (in each spelling) / static sampler / bindless,
    used directly, through a helper, through a default argument, through a global initialiser, or not at all, on
    every target; plus pipeline shapes (stage order, every stage kind with a thread group size, numthreads
    spellings, layouts)"""
    out = []
    for tgt in ["dx", "vk", "vkba", "msl"]:
        for kind in KINDS:
            for arr in (["-"] if kind in ("cbuffer", "ConstantBuffer") else ["-", "2"]):
                for group in ["-", "1"]:
                    flags = [("0", "0", "")]
                    if kind.startswith("Sampler") and arr == "-":
                        flags.append(("1", "0", ""))
                        flags.append(("1", "0", ":sp5"))
                    if arr != "-" and "Address" not in kind:
                        flags.append(("0", "1", ""))
                    if group == "1":
                        flags.append(("0", "0", ":gr"))
                        flags.append(("0", "0", ":go+ri3"))
                        if not kind.startswith("Sampler"):
                            flags.append(("0", "0", ":gv+vi2"))
                    if kind == "cbuffer":
                        flags.append(("0", "0", ":E"))
                    for ss, bl, opts in flags:
                        res = f"g_a:{kind}:{group}:{arr}:{ss}:{bl}:e{opts};g_b:Texture2D:-:-:0:0:e"
                        for helpers, entry in [("", "cs_0:Compute:0,1:::8.4.1"), ("h0:0::", "cs_0:Compute:1:0::8.4.1"),
                                               ("", "cs_0:Compute::::8.4.1")]:
                            for mode, pipes in [("name=P0", "P0:-:0"), ("name=P0", "P0:2:0"), ("nopipeline", "P0:-:0")]:
                                out.append("\t".join(["C05.meta", tgt, mode, "0", res, helpers, entry, pipes]))
        # resources reached through default arguments / global initialisers only; shapes of the mention
        for kind in ["cbuffer", "ConstantBuffer", "ByteAddressBuffer", "Texture2D", "StructuredBuffer"]:
            res = f"g_a:{kind}:-:-:0:0:e;g_b:Texture2D:-:-:0:0:e"
            out.append("\t".join(["C05.meta", tgt, "name=P0", "0", res, "h0::::d0", "cs_0:Compute::0::8.4.1", "P0:-:0"]))
            out.append("\t".join(["C05.meta", tgt, "name=P0", "0;I0:::", res, "", "cs_0:Compute:::8.4.1:i0".replace(":::8", "::::8"), "P0:-:0"]))
            out.append("\t".join(["C05.meta", tgt, "name=P0", "1;I:0::;I::0:0", res, "h0:0:::r", "cs_0:Compute::::8.4.1:i1", "P0:-:0"]))
        # default values on the prototype and the definition / on the prototype only (`po`: the compiler drops them --
        # recorded finding on Metal), reached through a call / not called
        for kind in ["cbuffer", "ConstantBuffer", "ByteAddressBuffer", "Texture2D", "StructuredBuffer"]:
            res = f"g_a:{kind}:-:-:0:0:e;g_b:Texture2D:-:-:0:0:e"
            for hopts in ["r+d0+fd", "r+d0+fd+po", "d0,1+fd+po", "d0+fd"]:
                for calls in ["0", ""]:
                    out.append("\t".join(["C05.meta", tgt, "name=P0", "0", res, f"h0::::{hopts}", f"cs_0:Compute:1:{calls}::8.4.1", "P0:-:0"]))
            out.append("\t".join(["C05.meta", tgt, "name=P0", "0", res, "h0:0:::d0+fd+po;h1::0:", "cs_0:Compute::1::8.4.1", "P0:-:0"]))
        # a pipeline name the file does not have
        for pipes in ["P0:-:0", "P0:-:0;P1:1:0", ""]:
            out.append("\t".join(["C05.meta", tgt, "name=P_absent", "0", "g_t:Texture2D:-:-:0:0:e", "", "cs_0:Compute:0:::8.4.1", pipes]))
        for sh in "iefgwdstcbvamzkq":
            out.append("\t".join(["C05.meta", tgt, "name=P0", "0", "g_a:Texture2D:-:-:0:0:e;g_c:cbuffer:-:-:0:0:e", "",
                                   f"cs_0:Compute:0{sh},1{sh}:::8.4.1", "P0:-:0"]))
        # type spellings: every bindable kind declared through a typedef of the object, of an array of it, of a typedef,
        # with const on the typedef / on the global, typedefs in a namespace, template argument through a typedef,
        # `extern` written out, array of a typedef'd element, typedef'd array with a declarator dimension (2-D)
        for kind in SPELL_KINDS:
            templ = "<" in KIND_TEXT.get(kind, "")
            for arr, spells in [("-", SPELLINGS_PLAIN + SPELLINGS_ARRAY + (SPELLINGS_PARAM if templ else [])),
                                ("2", SPELLINGS_PLAIN + (["Td3", "Tce2"] if kind == "Texture2D" else []))]:
                for sp in spells:
                    if kind.startswith("Sampler") and any(c in sp for c in "de"):
                        # ... and as a static sampler (one sampler: no array spelling)
                        continue
                    for group, bl in [("-", "0"), ("1", "1")]:
                        has_arr = arr != "-" or any(c in sp for c in "de")
                        if bl == "1" and (not has_arr or "Address" in kind):
                            bl = "0"
                        res = f"g_a:{kind}:{group}:{arr}:0:{bl}:e:{sp};g_b:Texture2D:-:-:0:0:e"
                        twod = arr != "-" and any(c in sp for c in "de") or sp in ("Td2d3",)
                        for mode, uses in [("name=P0", "" if twod else "0,1"), ("nopipeline", "1")]:
                            out.append("\t".join(["C05.meta", tgt, mode, "0", res, "", f"cs_0:Compute:{uses}:::8.4.1", "P0:-:0"]))
            if kind.startswith("Sampler"):
                for sp in SPELLINGS_PLAIN:
                    out.append("\t".join(["C05.meta", tgt, "name=P0", "0", f"g_a:{kind}:-:-:1:0:e:{sp}+sp5;g_b:Texture2D:-:-:0:0:e", "",
                                           "cs_0:Compute:1:::8.4.1", "P0:-:0"]))
        for sp in ["Ta", "Td2", "Tcd2k"]:
            # static / struct / non-resource globals spelled through typedefs; explicit indices next to a typedef of the object
            for r in [f"g_a:Texture2D:-:-:0:0:s:{sp}", f"g_a:RayDesc:-:-:0:0:e:{sp}"] + \
                     ([f"g_a:struct:-:-:0:0:e:{sp}", f"g_a:Texture2D:1:-:0:0:e:gr+ri3+{sp}", f"g_a:Texture2D:1:-:0:0:e:gv+vi2+{sp}"] if sp == "Ta" else []):
                out.append("\t".join(["C05.meta", tgt, "name=P0", "0", r + ";g_b:Texture2D:-:-:0:0:e", "", "cs_0:Compute:1:::8.4.1", "P0:-:0"]))
        # declarations with several declarators: shared attributes / type, per-declarator dimensions and register annotations
        for head, tail in [("g_a:Texture2D:-:-:0:0:e", "g_aj:Texture2D:-:2:0:0:e:j"), ("g_a:Texture2D:1:-:0:1:e:gr", "g_aj:Texture2D:-:2:0:1:e:ri5+j"),
                           ("g_a:Texture2D:1:2:0:1:e", "g_aj:Texture2D:1:3:0:1:e:j"), ("g_a:Texture2D:-:-:0:0:e:Td3", "g_aj:Texture2D:-:-:0:0:e:Td3+j"),
                           ("g_a:SamplerState:-:-:1:0:e:sp5", "g_aj:SamplerState:-:-:0:0:e:j"), ("g_a:BufferAddress:-:-:0:0:e", "g_aj:BufferAddress:-:2:0:0:e:j"),
                           ("g_a:StructuredBuffer:2:-:0:0:e:gv+vi2", "g_aj:StructuredBuffer:2:2:0:0:e:gv+vi2+j"), ("g_a:Texture2D:-:-:0:0:s", "g_aj:Texture2D:-:-:0:0:s:j"),
                           ("g_a:ConstantBuffer:-:-:0:0:e:TNap", "g_aj:ConstantBuffer:-:-:0:0:e:TNap+j")]:
            for uses in ["0,1", "1", ""]:
                for mode in ["name=P0", "nopipeline"]:
                    out.append("\t".join(["C05.meta", tgt, mode, "0", f"{head};{tail};g_b:Texture2D:-:-:0:0:e", "", f"cs_0:Compute:{uses}:::8.4.1", "P0:-:0"]))
        # declaration shapes the allocator leaves alone
        for r in ["g_a:Texture2D:-:2x3:0:0:e", "g_a:struct:-:-:0:0:e", "g_a:Texture2D:-:u:0:0:e", "g_a:Texture2D:-:-:0:0:s",
                  "g_a:Texture2D:-:-:0:0:e:ns", "float16_t:Texture2D:-:-:0:0:e;float16_t_0:cbuffer:-:-:0:0:e",
                  "g_b:Texture2D:-:-:0:0:e:ns", "g_a:RayDesc:-:-:0:0:e", "g_a:RayDesc:-:2:0:0:e"]:
            for uses in ["0", ""]:
                out.append("\t".join(["C05.meta", tgt, "name=P0", "0", r + ";g_b:Texture2D:-:-:0:0:e", "",
                                       f"cs_0:Compute:{uses}:::8.4.1", "P0:-:0"]))
        # pipelines: stage order, every stage kind with a size, numthreads spellings, layouts, name selection
        ents = "vs_0:Vertex:0:::-;ps_1:Pixel:0:::-;ts_2:Task::::32.1.1;ms_3:Mesh:0:::16.2.1;cs_4:Compute:0:::8.4.1"
        for g in ["0", "0;L1"]:
            for pipes in ["P0:-:0,1;P1:-:4", "P0:-:1,0;P1:-:4", "P0:-:4;P1:1:1,0:gs3", "P0:-:3,1;P00:-:4", "P0:-:2,3;P1:-:4"]:
                for mode in ["all", "name=P0", "name=" + pipes.split(";")[1].split(":")[0]]:
                    out.append("\t".join(["C05.meta", tgt, mode, g, "g_t:Texture2D:-:-:0:0:e", "", ents, pipes]))
        for e in ["cs_0:Compute:0:::8.4.1:nt1", "cs_0:Compute:0:::8.4.1:nt2", "cs_0:Compute:0:::8.4.1:nt3", "cs_0:Compute:0:::-",
                  "cs_0:Compute:0:::70000.0.3", "vs_0:Vertex:0:::4.2.1", "cs_0:Compute:0:::8.4.1:fd", "float16_t:Compute:0:::8.4.1"]:
            out.append("\t".join(["C05.meta", tgt, "name=P0", "0", "g_t:Texture2D:-:-:0:0:e", "", e, "P0:-:0"]))
        out.append("\t".join(["C05.meta", tgt, "name=P0", "0", "g_t:Texture2D:-:-:0:0:e", "a:0::;a::0:", "a_0:Compute:0:0,1::8.4.1", "P0:-:0"]))
    # two front-end errors in every relative order
    out.extend(front_error_orders())
    # what the typer builds: the layer chain of every distinct resource list above (target independent)
    seen = []
    for line in out:
        res = line.split("\t")[4]
        if res not in seen:
            seen.append(res)
    for res in seen:
        out.append("\t".join(["C05.layers", "-", "-", "0", res, "", "", ""]))
    return out


def custom(ctx):
    """corpus + generated programs + name sweep (standard flow), then the exhaustive small-input enumeration"""
    ctx.standard_run()
    if not ctx.harness_ok:
        return
    import vlib
    reqs = search(ctx)
    os.makedirs(os.path.join(vlib.BUILD, "tmp"), exist_ok=True)
    path = os.path.join(vlib.BUILD, "tmp", f"enum-C05-{os.getpid()}.txt")
    with open(path, "w") as f:
        f.write("\n".join(reqs) + "\n")
    cases, stats = ctx.run_harness(["c05", "--requests", path])
    os.unlink(path)
    ctx.extra["enumerated_small_inputs"] = len(cases)
    ctx.correspond(cases)


SPEC = {
    "id": "C05",
    "gens": ["SlotTables", "CompileTables", "MetaTables", "Reserved"],
    "lean_modules": ["RsslVerif.Thm.C05", "RsslVerif.Thm.C05Layers"],
    "theorems": [T + n for n in [
        "source_shape_as_modelled", "descriptor_tables_agree", "register_class_of_descriptor", "msl_entry_names_agree",
        "annot_matches_meta_hlsl", "annot_matches_meta_msl", "non_extern_global_unbound",
        "descriptor_kind_count", "meta_bijective_hlsl", "meta_bijective_msl", "meta_bijective_msl_exact", "msl_sort_keeps_sorted",
        "excluded_declarations", "used_iff_reachable_of_result", "usage_loop_terminates", "used_sound_complete", "used_flag",
        "hlsl_params_of_targets", "hlsl_annotations_total", "annot_iff_entry", "annotations_match_metadata_hlsl",
        "hlsl_metadata_total", "hlsl_metadata_total_or_refused", "msl_metadata_total_or_refused",
        "msl_export_total_or_refused", "msl_reached_argument_is_bound",
        "entry_named_and_defined", "reported_thread_group_size_is_emitted", "stage_records_follow_properties",
        "reported_size_is_the_typers_record", "pipeline_names_distinct", "first_front_end_error_wins", "reported_name_denotes_one_symbol", "hlsl_entry_point_unambiguous",
        "reported_name_not_reserved", "name_kept_when_unique_and_free", "hlsl_cbuffer_bypasses_name_map_witness",
        "same_leaf_name_in_two_namespaces_witness",
        # Thm/C05Layers.lean: type spellings / layer chains
        "peel_facts_as_modelled", "peels_read_layers", "descriptor_kind_count_from_layers",
        "reflection_peel_agrees_with_allocator_peel", "buffer_address_test_agrees_with_allocator_peel",
        "spelling_kind_count", "typed_metadata_is_peeled_metadata", "meta_bijective_hlsl_typed",
        "typed_export_total_or_refused", "array_first_peel_misreads_typedef_arrays_witness"]],
    "harness": "c05",
    "nontrivial": nontrivial,
    "finding_key": finding_key,
    "shrink": shrink,
    "search": search,
    "custom": custom,
    "harness_args": lambda tier, seed: [],
    "rule": "requests = self-contained shader descriptions (resource globals / cbuffers incl. empty ones / static samplers with "
            "property sets / bindless arrays / 2-D arrays / struct globals holding resources / namespaces; the TYPE of a resource "
            "global spelled directly or through typedef chains (typedef of the object, of an array of it, of a typedef, const on "
            "the typedef or on the global, typedefs in a namespace, template argument through a typedef, extern written out, "
            "array of a typedef'd element, typedef'd array with a declarator dimension) for every kind incl. ConstantBuffer, "
            "static samplers, buffer addresses and bindless tables; declarations with several declarators (shared attributes, "
            "per-declarator dimensions / register annotations); bind group written "
            "as attribute, register space, vk::binding or both; explicit indices; helper call graphs with 14 statement shapes "
            "around each mention (16 now: also empty for-init / continue / break and sizeof next to it), default arguments and "
            "global initialisers that read resources, forward declarations; default values of a forward-declared helper written "
            "on prototype AND definition or on the PROTOTYPE ONLY (the compiler drops those: recorded Metal finding "
            "prototype-default-unused, the model follows the code, the oracle judges against the source program); "
            "0-4 pipelines: compute, vertex+pixel, mesh+pixel, task+mesh, stage properties in either order, both file "
            "layouts, numthreads as literals / named constants / arithmetic, graphics state property sets; "
            "rare variants: unsized arrays, static object globals, a global of a non-resource object type (RayDesc), names "
            "reserved in a target, overloaded helpers, name clashes; files the front end refuses: ten error shapes (pipeline "
            "name twice, entry point named like a helper, compute next to graphics, stage property twice, graphics state on "
            "compute -- random sets and exactly one property of each of the four refused groups --, no entry point, static "
            "sampler with index, second numthreads on a definition with / without forward "
            "declaration, Pipeline block written before the definitions of its entry points, entry point that is a function "
            "TEMPLATE, entry point written with a qualified name `::f`) alone or TWO / THREE "
            "independent ones at random places of the file in both layouts (a sixth of the programs with pipelines), plus "
            "accepted order-sensitive shapes: a second numthreads attribute on a forward declaration only, an overload of an "
            "entry point defined after every Pipeline block) rendered to a file and compiled by the real compile() x {dx, vk, "
            "vk+buffer-address, msl} x {all, one name, no-pipeline, a name the file does not have (an eighth of the programs: err:unknown)}, plus a sweep of every reserved name of hlsl/msl names.rs "
            "as entry-point and as resource name and an enumeration of ~18000 small inputs (every spelling x kind x target; "
            "every ordered pair of the ten front-end error kinds at two pipelines / entry points and at one, x layout x forward "
            "declarations: ~1800 files whose answer is the FIRST error in file order; default values on prototype / both x "
            "called / not called x 5 kinds x target); a second "
            "stream C05.layers sends the resource declarations through the real type_check and compares the layer chain of every "
            "global's type with the chain the model builds from the spelling; the emitted HLSL is re-parsed with "
            "the real lexer+parser (MSL: text scan) and the property's own oracle compares every metadata entry with the "
            "annotation / declared type / array length of the declaration of that name, counts entries per externally bound "
            "declaration, checks inline constant blocks, stage entry functions + the values of their thread group size "
            "attributes, and is_used against reachability in the request's own use graph; the Lean model predicts metadata, "
            "annotation texts, stage records, entry functions, emitted names, front-end error classes and the exporters' "
            "clean refusals (UnsupportedObjectType, UnsupportedBindGroupIndex, Metal UnboundGlobal); non-trivial = at "
            "least two entries and one reported stage",
    "level_text": "Proof: over the allocator model of C06, the models of both analyse_bindings, of register_binding, of the inline "
                  "constant block, of the Metal used-marking / per-group sort / [[id]] members and of the annotation printers "
                  "are proved, for every declaration list, default group and parameter set: each printed annotation "
                  "(register / vk::binding / vk::offset / id) reads back, character by character, to exactly the bind group, "
                  "slot or inline offset and register class of the declaration's metadata entry (both are projections of one "
                  "api_slot); per bind group the entries are exactly the externally bound declarations, same names, same "
                  "order (on Metal too: its per-group sort is the identity on the allocator's output, by C06's tiling "
                  "theorem); annotations and entries line up one to one and the printers cannot panic on the allocator's "
                  "output; for every module (the allocator has no panic left since fix 774c0b4) the HLSL builder returns a "
                  "description or UnsupportedObjectType, the Metal export a description or one of UnsupportedObjectType / "
                  "UnsupportedBindGroupIndex / UnboundGlobal, and an exported Metal pipeline has an api slot for every extern "
                  "global its stages reach (fix 2ba03a4); descriptor type and count depend only on declared kind and array "
                  "layer; non-extern globals are never bound. Type spellings: a global's type is a chain of layers (array / "
                  "modifier / object) and the three places that look through it -- process_definition, both analyse_bindings, "
                  "is_buffer_address -- are modelled as the ordered peel operation lists re-extracted from their source; proved "
                  "for every well-formed chain (no modifier on a modifier: the registry's assert): both exporters report the "
                  "descriptor type of the innermost object under at most one array layer and the length of the outermost array "
                  "layer, wherever modifier layers sit (array of const object = const array of object = const array of const "
                  "object); for every chain at all the allocator's own peel sees exactly what the reflection's peel sees "
                  "(unsized arrays excepted: recorded finding) and is_buffer_address is the test the allocator model makes; "
                  "every type the typer builds for `[const] X g[dims]` over any typedef chain is such a chain with the "
                  "declarator's dimensions outside the typedefs'; the typed builders equal the builders on peeled "
                  "declarations, so every module-level statement holds for typed modules; a witness shows the re-ordered peel "
                  "of seed C05-3 misreads a typedef'd table. Used flag (full): the usage fixed point loop terminates (at most n*n modifying passes over n "
                  "symbols) and equals reachability in the use graph of bodies, default arguments and global initialisers, "
                  "so is_used on Metal holds iff some stage entry point reaches the global (HLSL always reports true). "
                  "Stages: the front end is modelled in FILE ORDER with the function registry of the moment (parseFile / regAt: "
                  "a function is registered where its first declaration or definition stands, its attributes are parsed only "
                  "at the definition -- never on a forward declaration --, it has an implementation after its definition; a "
                  "Pipeline block is parsed where it stands); the first error in file order refuses the file, for every file "
                  "(first_front_end_error_wins); an accepted Pipeline block yields one record per stage property in property "
                  "order, each pointing at the unique function of that name registered SO FAR (a later overload does not "
                  "matter) and storing its last numthreads attribute; the entry function of a record has an implementation "
                  "when the block is met, so an earlier root definition defined it and its attributes went through "
                  "parse_function_attributes (fix 0f5be73): at most one numthreads; so on every "
                  "target and stage kind build_pipeline reports the emitted function and the thread group size attributes it "
                  "is emitted with are exactly the reported size (the former negation witness is gone); the pipelines of an "
                  "accepted file are its blocks in source order with pairwise different names. Names: composed with the C15 model of NameMap::build, two different functions / globals of one "
                  "scope never share a reported name, no reported name is reserved, and a unique unreserved name is kept "
                  "(NameKept is now a theorem, not a hypothesis); an entry point that is a function template or is written with a "
                  "qualified name is refused by add_stage (model: isTemplate / a name no function has; stage_records_follow_properties "
                  "covers it: a record points at a non-template function with a body); the two remaining ways two entries can share a name (HLSL "
                  "cbuffer blocks bypass the map; leaf names across namespaces) are proved as negation witnesses and recorded "
                  "as findings. Tables, format strings and about 100 syntactic facts are re-extracted from the source on each "
                  "run; the model is compared with the real compile() output on generated shaders.",
    "trusted_base": [
        "Lean 4.33 kernel; axioms propext / Classical.choice / Quot.sound only (audited by #print axioms)",
        "tools/gens/c05.py (Gen.MetaTables): ObjectType->DescriptorType tables of both exporters, RegisterType letters, "
        "register/attribute format strings, entry function names, reserved names, intrinsic function names, and regex facts about "
        "the DescriptorBinding literals, msl generate_pipeline, the HLSL annotation generators, build_pipeline, parse_pipeline / "
        "add_stage, parse_function_attributes, the order of the front end (type_check_internal walks the root definitions in "
        "source order and returns at the first error; parse_function registers at the first declaration, parses attributes "
        "under `if is_definition` only, stores the implementation after attributes and body; a Pipeline arm calls "
        "parse_pipeline in place), the name lookups of both exporters, simplify_cbuffers, the numthreads printers, "
        "the formatter's attribute argument precedence and Metal's UnboundGlobal test; the symbolic reader of the type peels "
        "(data flow of the `let` statements between decl.type_id and the matched layer in both analyse_bindings, "
        "process_definition and is_buffer_address -> lists of PeelOp; statements it does not understand become `unknown`, which "
        "no theorem accepts) and 8 regex facts around it (count rules, make_const, register_type's modifier assert, typedef = "
        "declarator over the parsed source type); Gen.SlotTables, Gen.CompileTables, Gen.Reserved",
        "hand-written Model/Meta.lean, Model/MetaLayers.lean (what one peel operation does to a layer chain; how typedef steps, "
        "const keyword, storage class and declarator dimensions build a chain), Model/MetaReach.lean, Model/MetaFront.lean, "
        "Model/Slots.lean, Model/Names.lean mirror the "
        "Rust functions; tied to the code by the correspondence run (model answer == observation of the real compile()) and the "
        "regex facts, not by a proof about Rust",
        "Driver/C05.lean: how a request becomes the models' inputs (declaration order, registry order of structs / globals / "
        "functions per target, use graph, the spelling -> globalTy arguments, itemsOf = the file order of forward "
        "declarations / definitions / Pipeline blocks / late overloads); checked only by the correspondence run (the "
        "layer chains by the stream C05.layers against the real type registry)",
        "Spec/Meta.lean: our reader of annotation text, D3D register classes of descriptor types, reachability; "
        "Spec/MetaLayers.lean: what a layer chain means for a binding (innermost object under at most one array layer, "
        "modifiers never matter, count = outermost array length)",
        "harness oracle tables (which emitted HLSL / MSL type may be reported as which DescriptorType; static sampler and "
        "graphics state spellings) written independently of the compiler's tables; evaluator of the emitted numthreads "
        "expressions (literals, named constants, + - * /, casts)",
    ],
    "assumptions": [
        "u32 arithmetic is modelled by Nat (C06); array lengths and numthreads arguments are the evaluated constants the type "
        "checker records (the model carries values, not expressions)",
        "sets of the usage analysis are lists read through membership; HashMap iteration order is an arbitrary key list",
        "static sampler parameters, the bindless flag and is_used have no counterpart in the emitted HLSL: they are compared "
        "with the input declaration",
        "no-pipeline mode on Metal emits no argument buffers: entries are compared with the input declarations only",
        "name uniqueness is per scope of the name map: bindings are reported by leaf name, so two namespaces can still "
        "contribute one name (recorded finding)",
        "layer chains are well-formed (no modifier layer directly around a modifier layer): TypeRegistry::register_type asserts "
        "it (fact modifierNeverWrapsModifier) and the C05.layers oracle checks it on every observed chain; modifier layers carry "
        "no content in the model (const only is generated; row_major / unorm need matrix / float types no resource global has)",
        "array dimensions of generated declarations are literals",
        "covered by the correspondence run and its oracle only (no Gen fact, no theorem of their own): that a default value "
        "written on a forward declaration only never reaches FunctionImplementation.params (Driver: such a helper has no "
        "default-argument edges in the use graph; used_sound_complete then speaks about the graph the compiler keeps, the "
        "oracle about the source program -- the difference is the recorded finding msl prototype-default-unused); that "
        "select_pipeline answers a name the file does not have with 'Shader does not contain the pipeline' (Driver: "
        "err:unknown); that a qualified entry point name is refused where a name no function has would be (Driver passes "
        "`::name` as the name to look up)",
        "not generated (would need the name map / registry order of the Driver extended): helpers that are member functions of "
        "a struct or function templates (checked by hand: usage marking and Metal entry arguments follow calls through "
        "methods and template instances), entry points declared inside a namespace (accepted, reported by leaf name while "
        "HLSL emits `N::f`: noted under 'seen' in notes/C05.md), [WaveSize] next to numthreads (Metal answers "
        "UnsupportedWaveSize), `.mips[][]` and matrix swizzles over a resource (Metal refuses both, HLSL reports every "
        "binding used: the two arms of the usage analysis have no observable consequence)",
        "function ids are positions in a fixed table (helpers, entry points, late overloads, intrinsics) with `registered` / "
        "`hasBody` flags per moment instead of the registry's allocation order: ids are opaque keys, only which function a "
        "record points at is observable; redefinition / overload-conflict errors of check_existing_functions are not "
        "modelled (such files are skipped as unknown compile errors)",
    ],
}

import RsslVerif.Model.CondFile
import RsslVerif.Lemmas.MacroSubst
import RsslVerif.Spec.CPre
/-!
# Lemmas for C11, part 4: the composed model (`Model.CondFile`)

* tokens without identifiers go through both macro loops unchanged (`applyMacros_noIds`, `topLoop_noIds`);
* every file works above its own base: `Above`, `runStream_restores`, `includeFile_restores`; what one
  directive line of an included file can *not* do to the includer's blocks (`include_endif`, `include_else`,
  `include_ifdef`);
* the `defined` operand is protected (`topLoop_defined_step`).
-/
namespace RsslVerif.Lemmas.CondFile
open RsslVerif.Gen.CondTables RsslVerif.Model.CondExpr RsslVerif.Model.Macro RsslVerif.Model.CondFile
open RsslVerif.Lemmas.MacroSubst

/-- no identifier and no `Concat` token -/
def noIds (ts : List PTok) : Bool :=
  ts.all (fun t => match t.tok with | .id _ => false | .concat => false | _ => true)

theorem inert_of_noIds (env : List Entry) (ts : List PTok) (h : noIds ts = true) : Inert env ts := by
  intro t ht
  have := List.all_eq_true.mp h t ht
  unfold InertTok
  cases hk : t.tok <;> simp_all

theorem applyMacros_noIds (ms : List Macro) (ts : List PTok) (h : noIds ts = true) :
    applyMacros ms ts = .ok ts := by
  unfold applyMacros
  exact applyLoop_inert _ _ _ (Nat.le_refl _) (by simpa [SearchPos.start] using inert_of_noIds _ ts h)

theorem applyMacros_nil (ms : List Macro) : applyMacros ms [] = .ok [] := applyMacros_noIds ms [] rfl

theorem flush_nil (st : FState) : flush st [] = .ok st := by
  unfold flush
  split
  · simp [applyMacros_nil]
  · rfl

theorem flush_noIds (st : FState) (act : List PTok) (h : noIds act = true) :
    flush st act = .ok (if active st.chain then { st with out := st.out ++ act } else st) := by
  unfold flush
  split <;> simp_all [applyMacros_noIds]

theorem scanFromD_noIds (toks : List PTok) (sp : SearchPos) (env : List Entry) (suffix : List PTok) (i : Nat)
    (h : noIds suffix = true) : scanFromD toks sp env suffix i = .ok .none := by
  induction suffix generalizing i with
  | nil => rfl
  | cons t rest ih =>
    have h' : noIds rest = true := by simp_all [noIds]
    have ht := List.all_eq_true.mp h t (by simp)
    unfold scanFromD
    cases hk : t.tok <;> simp_all

theorem noIds_drop (ts : List PTok) (n : Nat) (h : noIds ts = true) : noIds (ts.drop n) = true := by
  simp only [noIds, List.all_eq_true] at h ⊢
  intro t ht
  exact h t (List.mem_of_mem_drop ht)

theorem topLoop_noIds (env : List Entry) (toks : List PTok) (h : noIds toks = true) :
    topLoop env toks SearchPos.start = .ok toks := by
  rw [topLoop]
  split
  · simp [findSingleD, SearchPos.start, scanFromD_noIds _ _ _ _ _ h]
  · rfl

/-! ### every file's conditional directives balance on their own (fix 115a619)

`Above ch0 st` is the invariant of the token loop of one file; `runStream_restores` / `includeFile_restores`
conclude that a successfully processed file leaves the includer's chain exactly as it found it. -/

/-- while a file is processed, the blocks `ch0` that were open at its start stay at the bottom of the stack,
    untouched, and the file base is their number -/
def Above (ch0 : List Block) (st : FState) : Prop := ∃ pre, st.chain = pre ++ ch0 ∧ st.base = ch0.length

/-- the processing of an included file hands chain and file base back as it received them -/
def IncOk (inc : String → FState → Except RsslVerif.Model.CondFile.Err FState) : Prop :=
  ∀ n s s', inc n s = .ok s' → s'.chain = s.chain ∧ s'.base = s.base

theorem chainSwitch_above (ch0 pre : List Block) (a e : Bool) (ch' : List Block)
    (h : chainSwitch (pre ++ ch0) ch0.length a e = .ok ch') : ∃ pre', ch' = pre' ++ ch0 := by
  unfold chainSwitch at h
  cases pre with
  | nil => simp at h
  | cons top p =>
    simp only [List.cons_append, List.length_cons, List.length_append] at h
    split at h
    · omega
    · split at h
      · omega
      · split at h
        · cases h
        · cases h; exact ⟨_ :: p, rfl⟩

theorem chainPop_above (ch0 pre : List Block) (ch' : List Block)
    (h : chainPop (pre ++ ch0) ch0.length = .ok ch') : ∃ pre', ch' = pre' ++ ch0 := by
  unfold chainPop at h
  cases pre with
  | nil => simp at h
  | cons top p =>
    simp only [List.cons_append, List.length_cons, List.length_append, List.tail_cons] at h
    split at h
    · cases h; exact ⟨p, rfl⟩
    · cases h

theorem exec_above (inc) (hinc : IncOk inc) (cur : String) (ch0 : List Block) (st st' : FState) (name : String)
    (cmd : List PTok) (ha : Above ch0 st) (h : exec inc cur st name cmd = .ok st') : Above ch0 st' := by
  obtain ⟨pre, hch, hb⟩ := ha
  unfold exec at h
  by_cases n1 : name = "include"
  · rw [if_pos n1] at h
    split at h
    · split at h
      · cases h
      · split at h
        · cases h
        · split at h
          · cases h
          · rename_i st1 hst1
            cases h
            obtain ⟨h1, h2⟩ := hinc _ _ _ hst1
            exact ⟨pre, by simpa [h1] using hch, by simpa [h2] using hb⟩
    · cases h
  rw [if_neg n1] at h
  by_cases n2 : name = "ifdef" ∨ name = "ifndef"
  · rw [if_pos n2] at h
    split at h
    · cases h; exact ⟨_ :: pre, by rw [hch]; rfl, hb⟩
    · cases h
  rw [if_neg n2] at h
  by_cases n3 : name = "if"
  · rw [if_pos n3] at h
    split at h
    · cases h
    · cases h; exact ⟨_ :: pre, by rw [hch]; rfl, hb⟩
  rw [if_neg n3] at h
  by_cases n4 : name = "elif"
  · rw [if_pos n4] at h
    split at h
    · cases h
    · split at h
      · cases h
      · rename_i ch' hsw
        cases h
        rw [hch, hb] at hsw
        obtain ⟨pre', hp⟩ := chainSwitch_above ch0 pre _ _ _ hsw
        exact ⟨pre', hp, hb⟩
  rw [if_neg n4] at h
  by_cases n5 : name = "else"
  · rw [if_pos n5] at h
    split at h
    · split at h
      · cases h
      · rename_i ch' hsw
        cases h
        rw [hch, hb] at hsw
        obtain ⟨pre', hp⟩ := chainSwitch_above ch0 pre _ _ _ hsw
        exact ⟨pre', hp, hb⟩
    · cases h
  rw [if_neg n5] at h
  by_cases n6 : name = "endif"
  · rw [if_pos n6] at h
    split at h
    · split at h
      · cases h
      · rename_i ch' hsw
        cases h
        rw [hch, hb] at hsw
        obtain ⟨pre', hp⟩ := chainPop_above ch0 pre _ hsw
        exact ⟨pre', hp, hb⟩
    · cases h
  rw [if_neg n6] at h
  by_cases n7 : name = "define"
  · rw [if_pos n7] at h
    split at h
    · cases h
    · cases h; exact ⟨pre, hch, hb⟩
  rw [if_neg n7] at h
  by_cases n8 : name = "undef"
  · rw [if_pos n8] at h
    split at h
    · cases h
    · cases h; exact ⟨pre, hch, hb⟩
  rw [if_neg n8] at h
  by_cases n9 : name = "pragma"
  · rw [if_pos n9] at h
    split at h
    · split at h
      · cases h; exact ⟨pre, hch, hb⟩
      · split at h
        · cases h; exact ⟨pre, hch, hb⟩
        · cases h
    · cases h
  rw [if_neg n9] at h
  cases h

theorem flush_above (ch0 : List Block) (st st' : FState) (act : List PTok) (ha : Above ch0 st)
    (h : flush st act = .ok st') : Above ch0 st' := by
  unfold flush at h
  split at h
  · split at h
    · cases h
    · cases h; exact ha
  · cases h; exact ha

theorem command_above (inc) (hinc : IncOk inc) (cur : String) (ch0 : List Block) (st st' : FState)
    (cmd : List PTok) (ha : Above ch0 st) (h : command inc cur st cmd = .ok st') : Above ch0 st' := by
  have push : ∀ c, Above ch0 { st with chain := newBlock c :: st.chain } := by
    intro c
    obtain ⟨pre, hch, hb⟩ := ha
    exact ⟨newBlock c :: pre, by simp [hch], hb⟩
  unfold command at h
  split at h
  · -- a directive without a name
    unfold gated at h
    split at h
    · cases h
    · split at h
      · cases h; exact ha
      · cases h; exact push _
      · cases h
  · unfold gated at h
    split at h
    · exact exec_above inc hinc cur ch0 st st' _ _ ha h
    · split at h
      · cases h; exact ha
      · cases h; exact push _
      · exact exec_above inc hinc cur ch0 st st' _ _ ha h

theorem fileLoop_above (inc) (hinc : IncOk inc) (cur : String) (ch0 : List Block) :
    ∀ (items : List SItem) (st : FState) (ps : PState) (act : List PTok) (st' : FState) (act' : List PTok),
      Above ch0 st → fileLoop inc cur st ps act items = .ok (st', act') → Above ch0 st'
  | [], st, ps, act, st', act', ha, h => by
    simp only [fileLoop] at h; cases h; exact ha
  | .lexError :: _, st, ps, act, st', act', ha, h => by simp [fileLoop] at h
  | .tok t :: rest, st, ps, act, st', act', ha, h => by
    rw [fileLoop] at h
    split at h
    · split at h
      · split at h
        · cases h
        · rename_i st1 hc
          exact fileLoop_above inc hinc cur ch0 rest _ _ _ _ _ (command_above inc hinc cur ch0 st st1 act ha hc) h
      · exact fileLoop_above inc hinc cur ch0 rest _ _ _ _ _ ha h
    · split at h
      · split at h
        · cases h
        · rename_i st1 hf
          exact fileLoop_above inc hinc cur ch0 rest _ _ _ _ _ (flush_above ch0 st st1 _ ha hf) h
      · split at h
        · exact fileLoop_above inc hinc cur ch0 rest _ _ _ _ _ ha h
        · split at h
          · exact fileLoop_above inc hinc cur ch0 rest _ _ _ _ _ ha h
          · exact fileLoop_above inc hinc cur ch0 rest _ _ _ _ _ ha h

/-- `preprocess_included_file` hands the chain and the file base back exactly as it received them -/
theorem runStream_restores (inc) (hinc : IncOk inc) (cur : String) (st st' : FState) (items : List SItem)
    (h : runStream inc cur st items = .ok st') : st'.chain = st.chain ∧ st'.base = st.base := by
  unfold runStream at h
  split at h
  · cases h
  · rename_i st1 act hl
    have h1 : Above st.chain st1 :=
      fileLoop_above inc hinc cur st.chain items _ _ _ _ _ ⟨[], by simp, rfl⟩ hl
    split at h
    · cases h
    · rename_i st2 hf
      obtain ⟨pre, hch, hb⟩ := flush_above st.chain st1 st2 act h1 hf
      split at h
      · cases h
      · rename_i hlen
        cases h
        have : pre = [] := by
          have hl2 : st2.chain.length = st2.base := by simpa using hlen
          rw [hch, hb, List.length_append] at hl2
          exact List.eq_nil_of_length_eq_zero (by omega)
        simp [hch, this]

theorem includeFile_restores (h : Handler) : ∀ (fuel : Nat), IncOk (includeFile h fuel)
  | 0 => by intro n s s' hs; simp [includeFile] at hs
  | fuel + 1 => by
    intro n s s' hs
    have ih := includeFile_restores h fuel
    simp only [includeFile] at hs
    split at hs
    · cases hs
    · split at hs
      · exact runStream_restores _ ih n s s' _ hs
      · exact runStream_restores _ ih n s s' _ hs


/-! ### one-line headers: what an included file can *not* do to the includer's blocks -/

def T (t : Tok) : SItem := .tok ⟨t, true⟩

/-- the token stream of the text `#endif⏎` -/
def hdrEndif : List SItem := [T (.punct "#"), T (.id "endif"), T .endline]
/-- `#else⏎` -/
def hdrElse : List SItem := [T (.punct "#"), T (.punct "else"), T .endline]
/-- `#ifdef X⏎` -/
def hdrIfdef (x : String) : List SItem := [T (.punct "#"), T (.id "ifdef"), T .ws, T (.id x), T .endline]

theorem gate_endif : gate "endif" = .notGated := by decide
theorem gate_else : gate "else" = .notGated := by decide
theorem gate_ifdef : gate "ifdef" = .skipPushes .DisabledInner := by decide

/-- an `#endif` that is the whole content of an included file does not reach the block the includer opened:
    it is an `#endif` without `#if` -/
theorem include_endif (h : Handler) (fuel : Nat) (name : String) (st : FState)
    (hf : h name = some hdrEndif) (ho : st.once.contains name = false) :
    includeFile h (fuel + 1) name st = .error (.chain .EndIfNotMatched) := by
  simp only [includeFile, hf, ho, runStream, hdrEndif, T, fileLoop, isHash, dropTrailingBlanks, flush_nil]
  simp [command, commandName, gated, exec, gate_endif, trimStart, chainPop, popEmptyErr, Tok.isWhitespace, flush_nil]

/-- an `#else` that is the whole content of an included file is an `#else` without `#if`, whatever the
    includer has open -/
theorem include_else (h : Handler) (fuel : Nat) (name : String) (st : FState)
    (hf : h name = some hdrElse) (ho : st.once.contains name = false) :
    includeFile h (fuel + 1) name st = .error (.chain .ElseNotMatched) := by
  simp only [includeFile, hf, ho, runStream, hdrElse, T, fileLoop, isHash, dropTrailingBlanks, flush_nil]
  simp [command, commandName, gated, exec, gate_else, trimStart, chainSwitch, switchEmptyErr, Tok.isWhitespace, flush_nil]

/-- an `#ifdef X` that is the whole content of an included file is an unterminated if-section: the end of the
    included file is checked -/
theorem include_ifdef (h : Handler) (fuel : Nat) (name x : String) (st : FState)
    (hf : h name = some (hdrIfdef x)) (ho : st.once.contains name = false) :
    includeFile h (fuel + 1) name st = .error (.chain .ConditionChainNotFinished) := by
  simp only [includeFile, hf, ho, runStream, hdrIfdef, T, fileLoop, isHash, dropTrailingBlanks, flush_nil]
  simp [command, commandName, gated, exec, gate_ifdef, trim, trimStart, trimEnd, flush_nil, Tok.isWhitespace,
    Tok.isBlank, List.dropWhile]
  by_cases ha : active st.chain = true <;> simp [ha, flush_nil, fileUnfinishedErr]

theorem gate_include : gate "include" = .skipNoEffect := by decide
theorem gate_ifndef : gate "ifndef" = .skipPushes .DisabledInner := by decide

/-! ### the C rule for files: every file's conditional directives balance on their own -/

/-- the lines of a token stream (split at line ends; a lexer failure ends the stream) -/
def streamLines : List SItem → List Tok → List (List Tok)
  | [], cur => if cur.isEmpty then [] else [cur.reverse]
  | .lexError :: _, cur => if cur.isEmpty then [] else [cur.reverse]
  | .tok t :: r, cur => if t.tok = .endline then cur.reverse :: streamLines r [] else streamLines r (t.tok :: cur)

/-- nesting shape of one line: `#` first (after blanks), then the directive name -/
def shapeOfLine (l : List Tok) : RsslVerif.Spec.CPre.Shape :=
  match l.filter (fun t => !t.isWhitespace) with
  | .punct "#" :: .punct "if" :: _ => .opens
  | .punct "#" :: .id "ifdef" :: _ => .opens
  | .punct "#" :: .id "ifndef" :: _ => .opens
  | .punct "#" :: .id "elif" :: _ => .elif
  | .punct "#" :: .punct "else" :: _ => .els
  | .punct "#" :: .id "endif" :: _ => .endif
  | _ => .other

/-- ISO C 6.10.1 / 6.10.2: an included file is a sequence of *groups*; each file must pass the grammar
    scan by itself -/
def fileBalanced (items : List SItem) : Bool :=
  match RsslVerif.Spec.CPre.scanC [] ((streamLines items []).map shapeOfLine) with
  | .ok _ => true
  | .error _ => false

/-- `main.rssl` = `#include "h.h"⏎1⏎#endif⏎` -/
def wMainA : List SItem :=
  [T (.punct "#"), T (.id "include"), T .ws, T (.punct "\"h.h\""), T .endline,
   T (.int "1"), T .endline, T (.punct "#"), T (.id "endif"), T .endline]
/-- `h.h` = `#ifndef A⏎2⏎` -/
def wHdrA : List SItem :=
  [T (.punct "#"), T (.id "ifndef"), T .ws, T (.id "A"), T .endline, T (.int "2"), T .endline]

/-- **End to end (was a negation witness before fix 115a619).**  `h.h` opens an if-section and never closes
    it, `main.rssl` would close it: neither file is balanced (C rejects both: "unterminated #ifndef", "#endif
    without #if"), and the run is rejected at the end of `h.h` with `ConditionChainNotFinished`.  Replayed on
    the real preprocessor by `corpus/C11.txt` (fixed finding `unterminated-in-include accepted`). -/
theorem witnessA :
    fileBalanced wHdrA = false ∧ fileBalanced wMainA = false ∧
    preprocessAll (fun n => if n = "main.rssl" then some wMainA else if n = "h.h" then some wHdrA else none)
      [] "main.rssl" = .error (.chain .ConditionChainNotFinished) := by
  refine ⟨by decide, by decide, ?_⟩
  have e : includeFuel = 201 + 1 := rfl
  simp [preprocessAll, wMainA, wHdrA, initialMacros, runStream, T, fileLoop, isHash, dropTrailingBlanks,
    e, includeFile, command, commandName, gated, exec, trim, trimStart, trimEnd,
    Tok.isWhitespace, Tok.isBlank, List.dropWhile, includeName, maxIncludeDepth, flush_nil, flush_noIds, noIds,
    active, activeState, pushState, newBlock, fileUnfinishedErr]

/-- `main.rssl` = `#ifndef A⏎1⏎#include "h.h"⏎2⏎#endif⏎` -/
def wMainB : List SItem :=
  [T (.punct "#"), T (.id "ifndef"), T .ws, T (.id "A"), T .endline, T (.int "1"), T .endline,
   T (.punct "#"), T (.id "include"), T .ws, T (.punct "\"h.h\""), T .endline,
   T (.int "2"), T .endline, T (.punct "#"), T (.id "endif"), T .endline]

/-- **End to end (was a negation witness before fix 115a619).**  `h.h` = `#else⏎` has an `#else` without an
    `#if` (C rejects); included from inside the selected group of `main.rssl` it is rejected with
    `ElseNotMatched` instead of ending that group.  Fixed finding `unmatched-in-include accepted`. -/
theorem witnessB :
    fileBalanced hdrElse = false ∧
    preprocessAll (fun n => if n = "main.rssl" then some wMainB else if n = "h.h" then some hdrElse else none)
      [] "main.rssl" = .error (.chain .ElseNotMatched) := by
  refine ⟨by decide, ?_⟩
  have e : includeFuel = 201 + 1 := rfl
  simp [preprocessAll, wMainB, hdrElse, initialMacros, runStream, T, fileLoop, isHash, dropTrailingBlanks,
    e, includeFile, command, commandName, gated, exec, trim, trimStart, trimEnd,
    flush_nil, Tok.isWhitespace, Tok.isBlank, List.dropWhile, includeName, maxIncludeDepth, flush_noIds, noIds,
    active, activeState, pushState, newBlock, chainSwitch, switchEmptyErr]

end RsslVerif.Lemmas.CondFile

//! C03, extended language: swizzles, struct members, subscripts, numeric constructors, intrinsic functions, statements.
//!
//! request : C03.progx \t <others> \t <vars> \t <funcs> \t <ret> \t <body> \t <expect>
//!             others = `-` | <def>;<def>;...      definition of the layer `o.<k>` (k = position)
//!             def    = S(<name>:<mods>/<layer>,...)   struct `S<k>` with these data members
//!                    | A(<mods>/<layer>,<len>)        the array type `<elem>[len]` (only as the type of a variable / member)
//!                    | R(<Kind>,<mods>/<layer>)       the resource type `Kind<elem>` (Buffer, RWStructuredBuffer, Texture2D, ...; only
//!                                                     as the type of an extern global)
//!             vars, funcs, ret as in C03.prog (local variable i is `v<i>`; user function prototypes `f<name>`)
//!             body   = (block S ...)               the statements of `t` after the declarations of <vars>
//!             S      = (expr E) | (ret) | (ret E) | (decl <ty> [I]) | (block S ...) | (if E S) | (ifelse E S S)
//!                    | (for FI C C S) | (while E S) | (do S E) | (switch E S) | (case E S) | (default S)
//!                    | (break) | (continue) | (discard) | (empty)
//!             I      = E | (agg I ...)             FI = - | (fexpr E) | (fdecl <ty> [I])      C = - | E
//!             E      = the forms of C03.prog | (mem E <name>) | (idx E E) | (ctor <mods>/<layer> E ...) | (icall <fname> E ...)
//!             a declaration names its variable `v<n>`, n = number of variables declared before it (the id it will get)
//! observe : accept <typed body> | reject <TyperError variant> | panic <file>
//!             typed S = (expr T E) | (ret) | (ret T E) | (decl <ty> <n> [I']) | (block S...) | (if T E B) | (ifelse T E B B)
//!                     | (for FI' C' C' B) | (while T E B) | (do B T E) | (switch T E B) | (caselabel) | (defaultlabel) | ...
//!             I' = (e T E) | (agg I' ...)     T = the type `Expression::get_type` gives for E
//!             typed E = forms of C03.prog | (swz E s...) | (mswz E r.c ...) | (idx E E) | (mem E <k> <idx>)
//!                     | (ctor <ty> a E a E ...) | (icall <FunctionId> E ...)
//! oracle  : as C03.prog (IR walk with the rules of the property text, extended to the new nodes in `Walk::expr`)
//!
//! request : C03.typex \t <others> \t <vars> \t <funcs> \t <ret> \t <typed E>
//! observe : `get_type` of every node in pre-order
use super::*;

#[derive(Clone, PartialEq, Eq, Debug)]
pub enum OtherDef {
    Struct(Vec<(String, Ty)>),
    Array(Ty, u64),
    /// `Kind<elem>`: a buffer / texture object with a subscript operator (only as the type of an extern global)
    Resource(String, Ty),
}

#[derive(Clone, Debug)]
pub struct EnvX {
    pub others: Vec<OtherDef>,
    pub base: Envr,
    /// per variable: `l` local of `t`, `g` extern global (implicitly const: its type must say so), `s` static global,
    /// `p` parameter of `t`
    pub kinds: Vec<char>,
}

fn show_other(d: &OtherDef) -> String {
    match d {
        OtherDef::Struct(ms) => format!("S({})", ms.iter().map(|(n, t)| format!("{}:{}", n, show_ty(*t))).collect::<Vec<_>>().join(",")),
        OtherDef::Array(t, n) => format!("A({},{})", show_ty(*t), n),
        OtherDef::Resource(k, t) => format!("R({},{})", k, show_ty(*t)),
    }
}

fn parse_other(s: &str) -> Option<OtherDef> {
    let inner = s.get(2..s.len().checked_sub(1)?)?;
    if s.starts_with("S(") && s.ends_with(')') {
        let mut ms = Vec::new();
        if !inner.is_empty() {
            for m in inner.split(',') {
                let (n, t) = m.split_once(':')?;
                ms.push((n.to_string(), parse_ty(t)?));
            }
        }
        Some(OtherDef::Struct(ms))
    } else if s.starts_with("R(") && s.ends_with(')') {
        let (k, t) = inner.split_once(',')?;
        Some(OtherDef::Resource(k.to_string(), parse_ty(t)?))
    } else if s.starts_with("A(") && s.ends_with(')') {
        let (t, n) = inner.split_once(',')?;
        Some(OtherDef::Array(parse_ty(t)?, n.parse().ok()?))
    } else {
        None
    }
}

pub fn show_envx(e: &EnvX) -> String {
    let others = if e.others.is_empty() { "-".to_string() } else { e.others.iter().map(show_other).collect::<Vec<_>>().join(";") };
    let vars = if e.base.vars.is_empty() {
        "-".to_string()
    } else {
        e.base
            .vars
            .iter()
            .zip(&e.kinds)
            .map(|(t, k)| if *k == 'l' { show_ty(*t) } else { format!("{}:{}", k, show_ty(*t)) })
            .collect::<Vec<_>>()
            .join(",")
    };
    let rest = show_env(&e.base);
    let rest = rest.split_once('\t').map(|x| x.1.to_string()).unwrap_or_default();
    format!("{}\t{}\t{}", others, vars, rest)
}

pub fn parse_envx(others: &str, vars: &str, funcs: &str, ret: &str) -> Option<EnvX> {
    let others: Option<Vec<OtherDef>> = if others == "-" { Some(vec![]) } else { others.split(';').map(parse_other).collect() };
    let mut kinds = Vec::new();
    let mut plain_vars = Vec::new();
    if vars != "-" {
        for v in vars.split(',') {
            match v.split_once(':') {
                Some((k, t)) if k.len() == 1 && "gsp".contains(k) => {
                    kinds.push(k.chars().next()?);
                    plain_vars.push(t);
                }
                Some(_) => return None,
                None => {
                    kinds.push('l');
                    plain_vars.push(v);
                }
            }
        }
    }
    let pv = if plain_vars.is_empty() { "-".to_string() } else { plain_vars.join(",") };
    Some(EnvX { others: others?, base: parse_env(&pv, funcs, ret)?, kinds })
}

// ------------------------------------------------------------------------------------------- spelling

impl EnvX {
    fn other(&self, l: Layer) -> Option<&OtherDef> {
        match l {
            Layer::Other(k) => self.others.get(k as usize),
            _ => None,
        }
    }

    /// a type name usable in casts, constructors, parameters: numeric types and structs
    fn spell_base(&self, l: Layer) -> Option<String> {
        match l {
            Layer::Enum(k) => Some(format!("E{}", k)),
            Layer::Other(k) => match self.others.get(k as usize)? {
                OtherDef::Struct(_) => Some(format!("S{}", k)),
                OtherDef::Array(..) => None,
                OtherDef::Resource(..) => None,
            },
            _ => spell_base(l),
        }
    }

    fn spell(&self, t: Ty) -> Option<String> {
        let mut s = String::new();
        for (i, w) in MOD_WORDS.iter().enumerate() {
            if t.mods.0 & (1 << i) != 0 {
                s.push_str(w);
                s.push(' ');
            }
        }
        s.push_str(&self.spell_base(t.layer)?);
        Some(s)
    }

    /// `T name` or `T name[n]`
    fn spell_decl(&self, t: Ty, name: &str) -> Option<String> {
        match self.other(t.layer) {
            Some(OtherDef::Array(elem, n)) => {
                if t.mods.0 != 0 || matches!(self.other(elem.layer), Some(OtherDef::Array(..))) {
                    return None;
                }
                Some(format!("{} {}[{}]", self.spell(*elem)?, name, n))
            }
            Some(OtherDef::Resource(kind, elem)) => {
                // only spelled for extern globals (which pass the type without its implicit const)
                if t.mods.0 != 0 {
                    return None;
                }
                Some(format!("{}<{}> {}", kind, self.spell(*elem)?, name))
            }
            _ => Some(format!("{} {}", self.spell(t)?, name)),
        }
    }

    fn zero_init(&self, t: Ty) -> Option<String> {
        match self.other(t.layer) {
            Some(OtherDef::Array(elem, n)) => {
                let z = self.zero_init(*elem)?;
                Some(format!("{{ {} }}", vec![z; *n as usize].join(", ")))
            }
            _ => Some(format!("({})0", self.spell_base(t.layer)?)),
        }
    }

    fn without_const(&self, t: Ty) -> Ty {
        match self.other(t.layer) {
            Some(OtherDef::Array(elem, n)) => {
                let e = Ty { mods: Mods(elem.mods.0 & !1), layer: elem.layer };
                match self.others.iter().position(|d| *d == OtherDef::Array(e, *n)) {
                    Some(k) => Ty { mods: t.mods, layer: Layer::Other(k as u32) },
                    None => t,
                }
            }
            _ => Ty { mods: Mods(t.mods.0 & !1), layer: t.layer },
        }
    }

    pub fn nlocals(&self) -> usize {
        self.kinds.iter().filter(|k| **k == 'l').count()
    }

    fn is_const_decl(&self, t: Ty) -> bool {
        match self.other(t.layer) {
            Some(OtherDef::Array(elem, _)) => elem.mods.0 & 1 != 0,
            _ => t.mods.0 & 1 != 0,
        }
    }

    fn spell_expr(&self, e: &Sx) -> Option<String> {
        let (h, a) = head(e)?;
        Some(match (h, a) {
            ("mem", [x, name]) => format!("({}).{}", self.spell_expr(x)?, atom_str(name)?),
            ("idx", [x, i]) => format!("({})[{}]", self.spell_expr(x)?, self.spell_expr(i)?),
            ("ctor", [t, args @ ..]) => {
                let a: Option<Vec<String>> = args.iter().map(|x| self.spell_expr(x)).collect();
                format!("{}({})", self.spell_base(parse_ty(atom_str(t)?)?.layer)?, a?.join(", "))
            }
            ("icall", [name, args @ ..]) => {
                let a: Option<Vec<String>> = args.iter().map(|x| self.spell_expr(x)).collect();
                format!("{}({})", atom_str(name)?, a?.join(", "))
            }
            ("un", [op, x]) => {
                let x = self.spell_expr(x)?;
                match atom_str(op)? {
                    "PrefixIncrement" => format!("(++{})", x),
                    "PrefixDecrement" => format!("(--{})", x),
                    "PostfixIncrement" => format!("({}++)", x),
                    "PostfixDecrement" => format!("({}--)", x),
                    "Plus" => format!("(+{})", x),
                    "Minus" => format!("(-{})", x),
                    "LogicalNot" => format!("(!{})", x),
                    "BitwiseNot" => format!("(~{})", x),
                    _ => return None,
                }
            }
            ("bin", [op, x, y]) => {
                // the operator table lives in the parent's `spell_expr`: spell a dummy and substitute the operands
                let probe = spell_expr(&list(vec![atom("bin"), op.clone(), var(0), var(1)]))?;
                let sym = probe.strip_prefix("(v0 ")?.strip_suffix(" v1)")?.to_string();
                format!("({} {} {})", self.spell_expr(x)?, sym, self.spell_expr(y)?)
            }
            ("tern", [c, x, y]) => format!("({} ? {} : {})", self.spell_expr(c)?, self.spell_expr(x)?, self.spell_expr(y)?),
            ("call", [name, args @ ..]) => {
                let a: Option<Vec<String>> = args.iter().map(|x| self.spell_expr(x)).collect();
                format!("f{}({})", atom_str(name)?.parse::<u32>().ok()?, a?.join(", "))
            }
            ("cast", [t, x]) => format!("(({}){})", self.spell(parse_ty(atom_str(t)?)?)?, self.spell_expr(x)?),
            ("lit", _) | ("var", _) => spell_expr(e)?,
            _ => return None,
        })
    }

    fn spell_init(&self, i: &Sx) -> Option<String> {
        match head(i) {
            Some(("agg", items)) => {
                let v: Option<Vec<String>> = items.iter().map(|x| self.spell_init(x)).collect();
                Some(format!("{{ {} }}", v?.join(", ")))
            }
            _ => self.spell_expr(i),
        }
    }

    fn spell_vardecl(&self, args: &[Sx], next: &mut usize) -> Option<String> {
        let t = parse_ty(atom_str(args.first()?)?)?;
        let name = format!("v{}", *next);
        *next += 1;
        let d = self.spell_decl(t, &name)?;
        match args {
            [_] => Some(d),
            [_, i] => Some(format!("{} = {}", d, self.spell_init(i)?)),
            _ => None,
        }
    }

    fn spell_opt(&self, e: &Sx) -> Option<String> {
        if atom_str(e) == Some("-") { Some(String::new()) } else { self.spell_expr(e) }
    }

    fn spell_stmt(&self, s: &Sx, next: &mut usize, ind: usize) -> Option<String> {
        let pad = "    ".repeat(ind);
        let (h, a) = head(s)?;
        Some(match (h, a) {
            ("expr", [e]) => format!("{}{};\n", pad, self.spell_expr(e)?),
            ("ret", []) => format!("{}return;\n", pad),
            ("ret", [e]) => format!("{}return {};\n", pad, self.spell_expr(e)?),
            ("decl", args) => format!("{}{};\n", pad, self.spell_vardecl(args, next)?),
            ("block", ss) => {
                let mut t = format!("{}{{\n", pad);
                for x in ss {
                    t.push_str(&self.spell_stmt(x, next, ind + 1)?);
                }
                t.push_str(&format!("{}}}\n", pad));
                t
            }
            ("if", [c, x]) => format!("{}if ({})\n{}", pad, self.spell_expr(c)?, self.spell_stmt(x, next, ind + 1)?),
            ("ifelse", [c, x, y]) => {
                let cs = self.spell_expr(c)?;
                // a then-branch that may end in an `if` without `else` is put in braces (dangling else); the typed
                // statement is the same, because the body of an `if` shares the scope the `if` opened
                let dangling = matches!(head(x), Some(("if" | "ifelse" | "for" | "while" | "switch" | "case" | "default", _)));
                let xs = if dangling {
                    format!("{}{{\n{}{}}}\n", pad, self.spell_stmt(x, next, ind + 1)?, pad)
                } else {
                    self.spell_stmt(x, next, ind + 1)?
                };
                let ys = self.spell_stmt(y, next, ind + 1)?;
                format!("{}if ({})\n{}{}else\n{}", pad, cs, xs, pad, ys)
            }
            ("for", [fi, c, n, x]) => {
                let fis = match head(fi) {
                    None if atom_str(fi) == Some("-") => String::new(),
                    Some(("fexpr", [e])) => self.spell_expr(e)?,
                    Some(("fdecl", args)) => self.spell_vardecl(args, next)?,
                    _ => return None,
                };
                let cs = self.spell_opt(c)?;
                let ns = self.spell_opt(n)?;
                format!("{}for ({}; {}; {})\n{}", pad, fis, cs, ns, self.spell_stmt(x, next, ind + 1)?)
            }
            ("while", [c, x]) => format!("{}while ({})\n{}", pad, self.spell_expr(c)?, self.spell_stmt(x, next, ind + 1)?),
            ("do", [x, c]) => {
                let xs = self.spell_stmt(x, next, ind + 1)?;
                format!("{}do\n{}{}while ({});\n", pad, xs, pad, self.spell_expr(c)?)
            }
            ("switch", [c, x]) => format!("{}switch ({})\n{}", pad, self.spell_expr(c)?, self.spell_stmt(x, next, ind + 1)?),
            ("case", [c, x]) => format!("{}case {}:\n{}", pad, self.spell_expr(c)?, self.spell_stmt(x, next, ind + 1)?),
            ("default", [x]) => format!("{}default:\n{}", pad, self.spell_stmt(x, next, ind + 1)?),
            ("break", []) => format!("{}break;\n", pad),
            ("continue", []) => format!("{}continue;\n", pad),
            ("discard", []) => format!("{}discard;\n", pad),
            ("empty", []) => format!("{};\n", pad),
            _ => return None,
        })
    }

    /// the RSSL program; `body = None` gives the declarations alone
    fn max_enum(&self) -> Option<u32> {
        let mut m: Option<u32> = None;
        let mut note = |l: Layer| {
            if let Layer::Enum(k) = l {
                m = Some(m.map_or(k, |x: u32| x.max(k)));
            }
        };
        for v in &self.base.vars {
            note(v.layer);
        }
        for f in &self.base.funcs {
            note(f.ret.layer);
            for p in &f.params {
                note(p.ty.layer);
            }
        }
        for d in &self.others {
            match d {
                OtherDef::Struct(ms) => ms.iter().for_each(|x| note(x.1.layer)),
                OtherDef::Array(t, _) => note(t.layer),
                OtherDef::Resource(_, t) => note(t.layer),
            }
        }
        if let Some(t) = self.base.ret {
            note(t.layer);
        }
        m
    }

    pub fn program(&self, body: Option<&Sx>) -> Option<String> {
        let mut s = String::new();
        if let Some(m) = self.max_enum() {
            for k in 0..=m {
                s.push_str(&format!("enum E{} {{ E{}_A, E{}_B, E{}_C }};\n", k, k, k, k));
            }
        }
        for (k, d) in self.others.iter().enumerate() {
            if let OtherDef::Struct(ms) = d {
                s.push_str(&format!("struct S{} {{\n", k));
                for (n, t) in ms {
                    // a member may only mention structs defined before the struct (arrays are spelled inline)
                    let mut l = t.layer;
                    if let Some(OtherDef::Array(elem, _)) = self.other(l) {
                        l = elem.layer;
                    }
                    if let (Layer::Other(j), Some(OtherDef::Struct(_))) = (l, self.other(l)) {
                        if j as usize >= k {
                            return None;
                        }
                    }
                    s.push_str(&format!("    {};\n", self.spell_decl(*t, n)?));
                }
                s.push_str("};\n");
            }
        }
        let env = &self.base;
        for f in &env.funcs {
            if f.non_default > f.params.len() {
                return None;
            }
            let mut ps = Vec::new();
            for (i, p) in f.params.iter().enumerate() {
                let io = match p.io {
                    Io::In => "",
                    Io::Out => "out ",
                    Io::InOut => "inout ",
                };
                let mut d = format!("{}{} p{}", io, self.spell(p.ty)?, i);
                if i >= f.non_default {
                    if p.io != Io::In || !is_numeric(p.ty.layer) {
                        return None;
                    }
                    d.push_str(&format!(" = ({})0", self.spell_base(p.ty.layer)?));
                }
                ps.push(d);
            }
            s.push_str(&format!("{} f{}({});\n", self.spell(f.ret)?, f.name, ps.join(", ")));
        }
        let ret = match env.ret {
            None => "void".to_string(),
            Some(t) => self.spell(t)?,
        };
        let mut params = Vec::new();
        for (i, v) in env.vars.iter().enumerate() {
            let name = format!("v{}", i);
            match self.kinds[i] {
                'g' => {
                    // extern: implicitly const, so the request's type must be const and the keyword is not written
                    if !self.is_const_decl(*v) {
                        return None;
                    }
                    if let Some(OtherDef::Resource(..)) = self.other(v.layer) {
                        s.push_str(&format!("{};\n", self.spell_decl(Ty { mods: Mods(0), layer: v.layer }, &name)?));
                        continue;
                    }
                    s.push_str(&format!("{};\n", self.spell_decl(self.without_const(*v), &name)?));
                }
                _ if matches!(self.other(v.layer), Some(OtherDef::Resource(..))) => return None,
                's' => {
                    let d = self.spell_decl(*v, &name)?;
                    if self.is_const_decl(*v) {
                        s.push_str(&format!("static {} = {};\n", d, self.zero_init(*v)?));
                    } else {
                        s.push_str(&format!("static {};\n", d));
                    }
                }
                'p' => params.push(self.spell_decl(*v, &name)?),
                _ => {}
            }
        }
        s.push_str(&format!("{} t({}) {{\n", ret, params.join(", ")));
        for (i, v) in env.vars.iter().enumerate() {
            if self.kinds[i] != 'l' {
                continue;
            }
            let d = self.spell_decl(*v, &format!("v{}", i))?;
            if self.is_const_decl(*v) {
                s.push_str(&format!("    {} = {};\n", d, self.zero_init(*v)?));
            } else {
                s.push_str(&format!("    {};\n", d));
            }
        }
        if let Some(body) = body {
            let (h, ss) = head(body)?;
            if h != "block" {
                return None;
            }
            let mut next = env.vars.len();
            for x in ss {
                s.push_str(&self.spell_stmt(x, &mut next, 1)?);
            }
        }
        s.push_str("}\n");
        Some(s)
    }
}

// ------------------------------------------------------------------------------------------- IR dump

pub struct DumpX<'a> {
    pub module: &'a ir::Module,
    pub names: &'a Names,
    pub env: &'a EnvX,
}

impl<'a> DumpX<'a> {
    pub fn describe(&self, id: ir::TypeId) -> Option<Ty> {
        let reg = &self.module.type_registry;
        let (base, m) = reg.extract_modifier(id);
        let layer = match reg.get_type_layer(base) {
            ir::TypeLayer::Void => Layer::Other(self.env.others.len() as u32),
            ir::TypeLayer::Array(inner, Some(n)) => {
                let elem = self.describe(inner)?;
                let k = self.env.others.iter().position(|d| *d == OtherDef::Array(elem, n))?;
                Layer::Other(k as u32)
            }
            ir::TypeLayer::Object(o) => {
                let (kind, inner) = resource_parts(&o)?;
                let elem = self.describe(inner)?;
                let k = self.env.others.iter().position(|d| *d == OtherDef::Resource(kind.to_string(), elem))?;
                Layer::Other(k as u32)
            }
            _ => return describe(self.module, id, &|i| self.names.st(i)),
        };
        Some(Ty { mods: mods_of(m), layer })
    }

    pub fn ty_string(&self, id: ir::TypeId) -> String {
        match self.describe(id) {
            Some(t) => show_ty(t),
            None => format!("?{}", self.module.get_type_name_short(id).replace(' ', "_")),
        }
    }

    pub fn ety_string(&self, e: &ir::Expression) -> String {
        let module = self.module;
        match guard(|| e.get_type(module)) {
            Err(_) => "panic".into(),
            Ok(Err(_)) => "invalid".into(),
            Ok(Ok(t)) => match self.describe(t.0) {
                Some(d) => show_ety(ETy { lvalue: t.1 == ir::ValueType::Lvalue, ty: d }),
                None => format!("?{}", self.module.get_type_name_short(t.0).replace(' ', "_")),
            },
        }
    }

    pub fn expr(&self, e: &ir::Expression) -> Sx {
        let m = self.module;
        match e {
            ir::Expression::Swizzle(x, slots) => {
                let mut l = vec![atom("swz"), self.expr(x)];
                for s in slots {
                    l.push(atom(match s {
                        ir::SwizzleSlot::X => "0",
                        ir::SwizzleSlot::Y => "1",
                        ir::SwizzleSlot::Z => "2",
                        ir::SwizzleSlot::W => "3",
                    }));
                }
                list(l)
            }
            ir::Expression::MatrixSwizzle(x, slots) => {
                let c = |c: &ir::ComponentIndex| match c {
                    ir::ComponentIndex::First => 0,
                    ir::ComponentIndex::Second => 1,
                    ir::ComponentIndex::Third => 2,
                    ir::ComponentIndex::Forth => 3,
                };
                let mut l = vec![atom("mswz"), self.expr(x)];
                for s in slots {
                    l.push(atom(&format!("{}.{}", c(&s.0), c(&s.1))));
                }
                list(l)
            }
            ir::Expression::ArraySubscript(a, i) => list(vec![atom("idx"), self.expr(a), self.expr(i)]),
            ir::Expression::StructMember(x, sid, idx) => {
                let k = match self.names.st(sid.0) {
                    Some(k) => k.to_string(),
                    None => format!("?{}", sid.0),
                };
                list(vec![atom("mem"), self.expr(x), atom(&k), atom(&idx.to_string())])
            }
            ir::Expression::Constructor(t, slots) => {
                let mut l = vec![atom("ctor"), atom(&self.ty_string(*t))];
                for s in slots {
                    l.push(atom(&s.arity.to_string()));
                    l.push(self.expr(&s.expr));
                }
                list(l)
            }
            ir::Expression::Call(id, ct, args) if m.function_registry.get_intrinsic_data(*id).is_some() => {
                let h = if *ct == ir::CallType::FreeFunction { "icall" } else { "?method" };
                let mut l = vec![atom(h), atom(&id.0.to_string())];
                l.extend(args.iter().map(|x| self.expr(x)));
                list(l)
            }
            ir::Expression::TernaryConditional(c, a, b) => list(vec![atom("tern"), self.expr(c), self.expr(a), self.expr(b)]),
            ir::Expression::Sequence(v) => {
                let mut l = vec![atom("seq")];
                l.extend(v.iter().map(|x| self.expr(x)));
                list(l)
            }
            ir::Expression::Call(id, _, args) => {
                let f = match self.names.func(id.0) {
                    Some(k) => k.to_string(),
                    None => format!("?{}", m.function_registry.get_function_name(*id)),
                };
                let mut l = vec![atom("call"), atom(&f)];
                l.extend(args.iter().map(|x| self.expr(x)));
                list(l)
            }
            ir::Expression::Cast(t, x) => list(vec![atom("cast"), atom(&self.ty_string(*t)), self.expr(x)]),
            ir::Expression::IntrinsicOp(op, args) => {
                let mut l = vec![atom("op"), atom(&format!("{:?}", op))];
                l.extend(args.iter().map(|x| self.expr(x)));
                list(l)
            }
            ir::Expression::Global(id) => {
                let name: &str = &m.global_registry[id.0 as usize].name.node;
                match name.strip_prefix('v').and_then(|x| x.parse::<u32>().ok()) {
                    Some(i) => list(vec![atom("var"), atom(&i.to_string())]),
                    None => list(vec![atom("var"), atom(&format!("?{}", name))]),
                }
            }
            other => dump_expr(m, self.names, other),
        }
    }

    fn texpr(&self, h: &str, e: &ir::Expression) -> Vec<Sx> {
        vec![atom(h), atom(&self.ety_string(e)), self.expr(e)]
    }

    fn init(&self, i: &ir::Initializer) -> Sx {
        match i {
            ir::Initializer::Expression(e) => list(self.texpr("e", e)),
            ir::Initializer::Aggregate(v) => {
                let mut l = vec![atom("agg")];
                l.extend(v.iter().map(|x| self.init(x)));
                list(l)
            }
        }
    }

    fn vardef(&self, vd: &ir::VarDef) -> Sx {
        let var = self.module.variable_registry.get_local_variable(vd.id);
        let name: &str = &var.name.node;
        let n = name.strip_prefix('v').and_then(|x| x.parse::<u32>().ok()).map(|x| x.to_string()).unwrap_or_else(|| format!("?{}", name));
        let mut l = vec![atom("decl"), atom(&self.ty_string(var.type_id)), atom(&n)];
        if let Some(i) = &vd.init {
            l.push(self.init(i));
        }
        list(l)
    }

    pub fn block(&self, b: &[ir::Statement]) -> Sx {
        let mut l = vec![atom("block")];
        l.extend(b.iter().map(|s| self.stmt(s)));
        list(l)
    }

    fn opt(&self, e: &Option<ir::Expression>) -> Sx {
        match e {
            None => atom("-"),
            Some(e) => list(self.texpr("c", e)),
        }
    }

    fn stmt(&self, s: &ir::Statement) -> Sx {
        use ir::StatementKind::*;
        match &s.kind {
            Expression(e) => list(self.texpr("expr", e)),
            Var(vd) => self.vardef(vd),
            Block(b) => self.block(&b.0),
            If(c, b) => {
                let mut l = self.texpr("if", c);
                l.push(self.block(&b.0));
                list(l)
            }
            IfElse(c, a, b) => {
                let mut l = self.texpr("ifelse", c);
                l.push(self.block(&a.0));
                l.push(self.block(&b.0));
                list(l)
            }
            For(i, c, n, b) => {
                let fi = match i {
                    ir::ForInit::Empty => atom("-"),
                    ir::ForInit::Expression(e) => list(self.texpr("fexpr", e)),
                    ir::ForInit::Definitions(v) => {
                        let mut l = vec![atom("fdecl")];
                        l.extend(v.iter().map(|x| self.vardef(x)));
                        list(l)
                    }
                };
                list(vec![atom("for"), fi, self.opt(c), self.opt(n), self.block(&b.0)])
            }
            While(c, b) => {
                let mut l = self.texpr("while", c);
                l.push(self.block(&b.0));
                list(l)
            }
            DoWhile(b, c) => {
                let mut l = vec![atom("do"), self.block(&b.0)];
                l.extend(self.texpr("c", c).into_iter().skip(1));
                list(l)
            }
            Switch(c, b) => {
                let mut l = self.texpr("switch", c);
                l.push(self.block(&b.0));
                list(l)
            }
            Break => list(vec![atom("break")]),
            Continue => list(vec![atom("continue")]),
            Discard => list(vec![atom("discard")]),
            Return(None) => list(vec![atom("ret")]),
            Return(Some(e)) => list(self.texpr("ret", e)),
            CaseLabel(_) => list(vec![atom("caselabel")]),
            DefaultLabel => list(vec![atom("defaultlabel")]),
        }
    }
}

/// the resources with a subscript operator: variant name and element type
fn resource_parts(o: &ir::ObjectType) -> Option<(&'static str, ir::TypeId)> {
    use ir::ObjectType::*;
    Some(match o {
        Buffer(t) => ("Buffer", *t),
        RWBuffer(t) => ("RWBuffer", *t),
        StructuredBuffer(t) => ("StructuredBuffer", *t),
        RWStructuredBuffer(t) => ("RWStructuredBuffer", *t),
        Texture2D(t) => ("Texture2D", *t),
        RWTexture2D(t) => ("RWTexture2D", *t),
        Texture2DArray(t) => ("Texture2DArray", *t),
        RWTexture2DArray(t) => ("RWTexture2DArray", *t),
        Texture3D(t) => ("Texture3D", *t),
        RWTexture3D(t) => ("RWTexture3D", *t),
        _ => return None,
    })
}

fn resource_type(kind: &str, t: ir::TypeId) -> Option<ir::ObjectType> {
    use ir::ObjectType::*;
    Some(match kind {
        "Buffer" => Buffer(t),
        "RWBuffer" => RWBuffer(t),
        "StructuredBuffer" => StructuredBuffer(t),
        "RWStructuredBuffer" => RWStructuredBuffer(t),
        "Texture2D" => Texture2D(t),
        "RWTexture2D" => RWTexture2D(t),
        "Texture2DArray" => Texture2DArray(t),
        "RWTexture2DArray" => RWTexture2DArray(t),
        "Texture3D" => Texture3D(t),
        "RWTexture3D" => RWTexture3D(t),
        _ => return None,
    })
}

/// the statements of `t` after the declarations of the request's variables
fn body_of<'m>(module: &'m ir::Module, nvars: usize) -> Option<&'m [ir::Statement]> {
    let id = module.function_registry.iter().find(|id| module.function_registry.get_function_name(*id) == "t")?;
    let imp = module.function_registry.get_function_implementation(id).as_ref()?;
    imp.scope_block.0.get(nvars..)
}

// ------------------------------------------------------------------------------------------- rebuild IR (C03.typex)

struct BuildX<'a> {
    module: &'a ir::Module,
    names: &'a Names,
    env: &'a EnvX,
}

impl<'a> BuildX<'a> {
    fn type_id(&self, t: Ty) -> Option<ir::TypeId> {
        let reg = &self.module.type_registry;
        let base = match t.layer {
            Layer::Other(k) => match self.env.others.get(k as usize) {
                Some(OtherDef::Struct(_)) => {
                    let sid = self.names.structs.iter().find(|x| x.1 == k)?.0;
                    reg.register_type(ir::TypeLayer::Struct(ir::StructId(sid)))
                }
                Some(OtherDef::Array(elem, n)) => {
                    let inner = self.type_id(*elem)?;
                    reg.register_type(ir::TypeLayer::Array(inner, Some(*n)))
                }
                Some(OtherDef::Resource(kind, elem)) => {
                    let inner = self.type_id(*elem)?;
                    reg.register_type(ir::TypeLayer::Object(resource_type(kind, inner)?))
                }
                None if k as usize == self.env.others.len() => reg.register_type(ir::TypeLayer::Void),
                None => return None,
            },
            Layer::Enum(_) => return None,
            l => return Build { module: self.module, names: self.names }.type_id(Ty { mods: t.mods, layer: l }),
        };
        Some(if t.mods.0 == 0 { base } else { reg.register_type(ir::TypeLayer::Modifier(modifier_of(t.mods), base)) })
    }

    fn expr(&self, e: &Sx) -> Option<ir::Expression> {
        let (h, a) = head(e)?;
        let many = |xs: &[Sx]| xs.iter().map(|x| self.expr(x)).collect::<Option<Vec<_>>>();
        Some(match (h, a) {
            ("swz", [x, slots @ ..]) => {
                let s: Option<Vec<ir::SwizzleSlot>> = slots
                    .iter()
                    .map(|s| match atom_str(s)? {
                        "0" => Some(ir::SwizzleSlot::X),
                        "1" => Some(ir::SwizzleSlot::Y),
                        "2" => Some(ir::SwizzleSlot::Z),
                        "3" => Some(ir::SwizzleSlot::W),
                        _ => None,
                    })
                    .collect();
                ir::Expression::Swizzle(Box::new(self.expr(x)?), s?)
            }
            ("mswz", [x, slots @ ..]) => {
                let c = |s: &str| match s {
                    "0" => Some(ir::ComponentIndex::First),
                    "1" => Some(ir::ComponentIndex::Second),
                    "2" => Some(ir::ComponentIndex::Third),
                    "3" => Some(ir::ComponentIndex::Forth),
                    _ => None,
                };
                let s: Option<Vec<ir::MatrixSwizzleSlot>> = slots
                    .iter()
                    .map(|s| {
                        let (r, k) = atom_str(s)?.split_once('.')?;
                        Some(ir::MatrixSwizzleSlot(c(r)?, c(k)?))
                    })
                    .collect();
                ir::Expression::MatrixSwizzle(Box::new(self.expr(x)?), s?)
            }
            ("idx", [x, i]) => ir::Expression::ArraySubscript(Box::new(self.expr(x)?), Box::new(self.expr(i)?)),
            ("mem", [x, k, idx]) => {
                let k: u32 = atom_str(k)?.parse().ok()?;
                let sid = self.names.structs.iter().find(|s| s.1 == k)?.0;
                ir::Expression::StructMember(Box::new(self.expr(x)?), ir::StructId(sid), atom_str(idx)?.parse().ok()?)
            }
            ("ctor", [t, rest @ ..]) => {
                let ty = self.type_id(parse_ty(atom_str(t)?)?)?;
                let mut slots = Vec::new();
                for pair in rest.chunks(2) {
                    if let [a, x] = pair {
                        slots.push(ir::ConstructorSlot { arity: atom_str(a)?.parse().ok()?, expr: self.expr(x)? });
                    } else {
                        return None;
                    }
                }
                ir::Expression::Constructor(ty, slots)
            }
            ("icall", [f, xs @ ..]) => ir::Expression::Call(ir::FunctionId(atom_str(f)?.parse().ok()?), ir::CallType::FreeFunction, many(xs)?),
            ("tern", [c, x, y]) => ir::Expression::TernaryConditional(Box::new(self.expr(c)?), Box::new(self.expr(x)?), Box::new(self.expr(y)?)),
            ("seq", xs) => ir::Expression::Sequence(many(xs)?),
            ("call", [f, xs @ ..]) => {
                let k: u32 = atom_str(f)?.parse().ok()?;
                let id = self.names.funcs.iter().find(|x| x.1 == k)?.0;
                ir::Expression::Call(ir::FunctionId(id), ir::CallType::FreeFunction, many(xs)?)
            }
            ("cast", [t, x]) => ir::Expression::Cast(self.type_id(parse_ty(atom_str(t)?)?)?, Box::new(self.expr(x)?)),
            ("op", [o, xs @ ..]) => ir::Expression::IntrinsicOp(intrinsic_by_name(atom_str(o)?)?, many(xs)?),
            ("var", [i]) => {
                let name = format!("v{}", atom_str(i)?);
                let m = self.module;
                let local = m.variable_registry.iter().find(|id| {
                    let n: &str = &m.variable_registry.get_local_variable(*id).name.node;
                    n == name
                });
                match local {
                    Some(id) => ir::Expression::Variable(id),
                    None => {
                        let g = m.global_registry.iter().position(|g| {
                            let n: &str = &g.name.node;
                            n == name
                        })?;
                        ir::Expression::Global(ir::GlobalId(g as u32))
                    }
                }
            }
            ("lit", _) => Build { module: self.module, names: self.names }.expr(e)?,
            _ => return None,
        })
    }
}

fn preorder_x(d: &DumpX, e: &ir::Expression, out: &mut Vec<String>) {
    out.push(d.ety_string(e));
    match e {
        ir::Expression::TernaryConditional(c, a, b) => {
            preorder_x(d, c, out);
            preorder_x(d, a, out);
            preorder_x(d, b, out);
        }
        ir::Expression::Sequence(v) | ir::Expression::Call(_, _, v) | ir::Expression::IntrinsicOp(_, v) => {
            for x in v {
                preorder_x(d, x, out);
            }
        }
        ir::Expression::Cast(_, x) | ir::Expression::Swizzle(x, _) | ir::Expression::MatrixSwizzle(x, _) | ir::Expression::StructMember(x, _, _) => {
            preorder_x(d, x, out)
        }
        ir::Expression::ArraySubscript(a, i) => {
            preorder_x(d, a, out);
            preorder_x(d, i, out);
        }
        ir::Expression::Constructor(_, slots) => {
            for s in slots {
                preorder_x(d, &s.expr, out);
            }
        }
        _ => {}
    }
}

// ------------------------------------------------------------------------------------------- running requests

fn count_nodes_x(e: &Sx, hist: &mut Hist) {
    if let Some((h, a)) = head(e) {
        match h {
            "un" | "bin" => {
                if let Some(op) = a.first().and_then(atom_str) {
                    hist.add(&format!("node:{}:{}", h, op));
                }
            }
            "icall" => {
                hist.add("node:icall");
                if let Some(n) = a.first().and_then(atom_str) {
                    hist.add(&format!("icall:{}", n));
                }
            }
            "block" | "agg" | "fexpr" | "fdecl" => {}
            _ => hist.add(&format!("node:{}", h)),
        }
        for x in a {
            count_nodes_x(x, hist);
        }
    }
}

/// every expression of a body, for localising a panic
fn body_exprs<'s>(s: &'s Sx, out: &mut Vec<&'s Sx>) {
    if let Some((h, a)) = head(s) {
        match h {
            "lit" | "var" | "un" | "bin" | "tern" | "call" | "cast" | "mem" | "idx" | "ctor" | "icall" => out.push(s),
            _ => {
                for x in a {
                    body_exprs(x, out);
                }
            }
        }
    }
}

fn sub_exprs_x(e: &Sx) -> Vec<&Sx> {
    match head(e) {
        Some(("un", [_, x])) | Some(("cast", [_, x])) | Some(("mem", [x, _])) => vec![x],
        Some(("bin", [_, x, y])) | Some(("idx", [x, y])) => vec![x, y],
        Some(("tern", [c, x, y])) => vec![c, x, y],
        Some(("call", [_, xs @ ..])) | Some(("ctor", [_, xs @ ..])) | Some(("icall", [_, xs @ ..])) => xs.iter().collect(),
        _ => vec![],
    }
}

fn probe_x(env: &EnvX, e: &Sx) -> Result<String, String> {
    let body = list(vec![atom("block"), s_expr(e.clone())]);
    let Some(src) = env.program(Some(&body)) else {
        return Ok("?".into());
    };
    match guard(|| type_check(&src)) {
        Err(p) => Err(p),
        Ok(Checked::Accept(m)) => {
            let names = Names::build(&m);
            let d = DumpX { module: &m, names: &names, env };
            Ok(match body_of(&m, env.nlocals()).and_then(|b| b.last()) {
                Some(ir::Statement { kind: ir::StatementKind::Expression(x), .. }) => d.ety_string(x),
                _ => "?".into(),
            })
        }
        Ok(Checked::Reject(k)) => Ok(format!("reject:{}", k)),
        Ok(Checked::Front(k)) => Ok(format!("front:{}", k)),
    }
}

fn innermost_panic_x(env: &EnvX, e: &Sx) -> String {
    for c in sub_exprs_x(e) {
        if probe_x(env, c).is_err() {
            return innermost_panic_x(env, c);
        }
    }
    let tys: Vec<String> = sub_exprs_x(e).iter().map(|c| probe_x(env, c).unwrap_or_else(|_| "panic".into())).collect();
    match head(e) {
        Some((h @ ("un" | "bin" | "call" | "cast" | "ctor" | "icall"), [op, ..])) => format!("({} {} {})", h, atom_str(op).unwrap_or("?"), tys.join(" ")),
        Some(("mem", [_, n])) => format!("(mem {} {})", tys.join(" "), atom_str(n).unwrap_or("?")),
        Some((h, _)) => format!("({} {})", h, tys.join(" ")),
        None => "?".into(),
    }
}

impl Runner {
    pub fn progx_case(&mut self, env: &EnvX, body: &Sx, expect: &str, out: &mut Out) {
        let req = format!("C03.progx\t{}\t{}\t{}", show_envx(env), show_sx(body), expect);
        let (Some(prelude), Some(src)) = (env.program(None), env.program(Some(body))) else {
            out.case(&req, "-", "SKIP:not expressible as an RSSL program");
            self.hist.add("progx:skip-inexpressible");
            return;
        };
        self.compiles += 2;
        match guard(|| type_check(&prelude)) {
            Ok(Checked::Accept(m)) => {
                let n = Names::build(&m);
                if n.funcs.len() != env.base.funcs.len() {
                    out.case(&req, "-", "SKIP:function declarations were merged");
                    self.hist.add("progx:skip-prelude");
                    return;
                }
            }
            other => {
                let why = match other {
                    Ok(Checked::Reject(k)) => format!("reject {}", k),
                    Ok(Checked::Front(k)) => format!("front {}", k),
                    Err(p) => format!("panic {}", p),
                    _ => "?".to_string(),
                };
                out.case(&req, "-", &format!("SKIP:declarations are not accepted ({})", why));
                self.hist.add("progx:skip-prelude");
                return;
            }
        }
        let res = guard(|| type_check(&src));
        let (obs, oracle) = match res {
            Err(p) => {
                self.hist.add("verdictx:panic");
                let mut es = Vec::new();
                body_exprs(body, &mut es);
                let at = es.iter().find(|e| probe_x(env, e).is_err()).map(|e| innermost_panic_x(env, e)).unwrap_or_else(|| "?".to_string());
                self.compiles += 4;
                (format!("panic {}", panic_file(&p)), format!("FAIL:panic {} @ {}", p, at))
            }
            Ok(Checked::Front(stage)) => {
                self.hist.add("progx:skip-front");
                (format!("front {}", stage), "SKIP:rejected before type checking".to_string())
            }
            Ok(Checked::Reject(kind)) => {
                self.hist.add("verdictx:reject");
                self.hist.add(&format!("rejectx:{}", kind));
                if expect == "accept" {
                    self.hist.add("expect-accept-but-rejected");
                }
                (format!("reject {}", kind), "ok".to_string())
            }
            Ok(Checked::Accept(m)) => {
                self.hist.add("verdictx:accept");
                let names = Names::build(&m);
                let (nodes, errors) = walk_module(&m, &names);
                self.nodes += nodes;
                let d = DumpX { module: &m, names: &names, env };
                let obs = match body_of(&m, env.nlocals()) {
                    Some(b) => {
                        let sx = d.block(b);
                        let s = show_sx(&sx);
                        if !s.contains('?') && self.typed.len() < 200_000 {
                            let mut es = Vec::new();
                            typed_exprs(&sx, &mut es);
                            for e in es {
                                self.typed.push(format!("C03.typex\t{}\t{}", show_envx(env), show_sx(e)));
                            }
                        }
                        format!("accept {}", s)
                    }
                    None => "accept ?".to_string(),
                };
                let oracle = if let Some(e) = errors.first() {
                    format!("FAIL:{}", e)
                } else if expect == "reject" {
                    "FAIL:accepted a program carrying an injected typing violation".to_string()
                } else {
                    "ok".to_string()
                };
                (obs, oracle)
            }
        };
        self.hist.add(&format!("expectx:{}", expect));
        count_nodes_x(body, &mut self.hist);
        out.case(&req, &obs, &oracle);
    }

    pub fn typex_case(&mut self, env: &EnvX, typed: &Sx, out: &mut Out) {
        let req = format!("C03.typex\t{}\t{}", show_envx(env), show_sx(typed));
        let Some(prelude) = env.program(None) else {
            out.case(&req, "-", "SKIP:not expressible");
            return;
        };
        let m = match guard(|| type_check(&prelude)) {
            Ok(Checked::Accept(m)) => m,
            _ => {
                out.case(&req, "-", "SKIP:declarations are not accepted");
                return;
            }
        };
        let names = Names::build(&m);
        let b = BuildX { module: &m, names: &names, env };
        match b.expr(typed) {
            None => out.case(&req, "-", "SKIP:cannot rebuild the IR"),
            Some(ir_e) => {
                let d = DumpX { module: &m, names: &names, env };
                let mut tys = Vec::new();
                preorder_x(&d, &ir_e, &mut tys);
                self.hist.add("typex:rows");
                out.case(&req, &tys.join(" "), "ok");
            }
        }
    }
}

/// the typed expressions of a typed body (the `E` of `(expr T E)`, `(ret T E)`, `(e T E)`, conditions), only those over the
/// request's own variables
fn typed_exprs<'s>(s: &'s Sx, out: &mut Vec<&'s Sx>) {
    if let Some((h, a)) = head(s) {
        match (h, a) {
            ("expr" | "ret" | "e" | "c" | "fexpr", [_, e]) => out.push(e),
            ("if" | "ifelse" | "while" | "switch", [_, e, rest @ ..]) => {
                out.push(e);
                for x in rest {
                    typed_exprs(x, out);
                }
            }
            ("do", [b, _, e]) => {
                typed_exprs(b, out);
                out.push(e);
            }
            _ => {
                for x in a {
                    typed_exprs(x, out);
                }
            }
        }
    }
}

// ------------------------------------------------------------------------------------------- generators

fn mem(e: Sx, name: &str) -> Sx {
    list(vec![atom("mem"), e, atom(name)])
}
fn idx(a: Sx, i: Sx) -> Sx {
    list(vec![atom("idx"), a, i])
}
fn ctor(t: Ty, args: Vec<Sx>) -> Sx {
    let mut l = vec![atom("ctor"), atom(&show_ty(t))];
    l.extend(args);
    list(l)
}
fn icall(name: &str, args: Vec<Sx>) -> Sx {
    let mut l = vec![atom("icall"), atom(name)];
    l.extend(args);
    list(l)
}
fn body1(s: Sx) -> Sx {
    list(vec![atom("block"), s])
}
fn s_decl(t: Ty, init: Option<Sx>) -> Sx {
    let mut l = vec![atom("decl"), atom(&show_ty(t))];
    l.extend(init);
    list(l)
}
fn agg(items: Vec<Sx>) -> Sx {
    let mut l = vec![atom("agg")];
    l.extend(items);
    list(l)
}

fn cst(t: Ty) -> Ty {
    Ty { mods: Mods(t.mods.0 | 1), layer: t.layer }
}

/// `o.0 = S0 { int q; float3 v; float a[2]; }` (the array is o.2), `o.1 = S1 { S0 s; float2x2 m; uint k; }`,
/// `o.2 = float[2]`, `o.3 = float[3]`, `o.4 = const float[3]`, `o.5 = S0[2]`, `o.6 = float3[2]`, `o.7 .. o.12` = resources
pub fn base_envx(ret: Option<Ty>) -> EnvX {
    let f = plain(Layer::Scalar(S_FLOAT));
    let i = plain(Layer::Scalar(S_INT));
    let f3 = plain(Layer::Vector(S_FLOAT, 3));
    let others = vec![
        OtherDef::Struct(vec![("q".into(), i), ("v".into(), f3), ("a".into(), plain(Layer::Other(2)))]),
        OtherDef::Struct(vec![("s".into(), plain(Layer::Other(0))), ("m".into(), plain(Layer::Matrix(S_FLOAT, 2, 2))), ("k".into(), plain(Layer::Scalar(S_UINT)))]),
        OtherDef::Array(f, 2),
        OtherDef::Array(f, 3),
        OtherDef::Array(cst(f), 3),
        OtherDef::Array(plain(Layer::Other(0)), 2),
        OtherDef::Array(f3, 2),
        OtherDef::Resource("StructuredBuffer".into(), plain(Layer::Vector(S_FLOAT, 4))), // o.7
        OtherDef::Resource("RWStructuredBuffer".into(), plain(Layer::Other(0))),         // o.8
        OtherDef::Resource("Texture2D".into(), plain(Layer::Vector(S_FLOAT, 4))),        // o.9
        OtherDef::Resource("RWTexture2D".into(), f),                                     // o.10
        OtherDef::Resource("Texture3D".into(), f),                                       // o.11
        OtherDef::Resource("RWTexture2DArray".into(), plain(Layer::Vector(S_FLOAT, 2))), // o.12
    ];
    let mut vars = Vec::new();
    for s in GRID_SCALARS {
        vars.push(plain(Layer::Scalar(*s))); // 0..5: bool int uint half float double
    }
    vars.push(f3); // 6
    vars.push(plain(Layer::Vector(S_INT, 3))); // 7
    vars.push(plain(Layer::Vector(S_FLOAT, 2))); // 8
    vars.push(plain(Layer::Vector(S_INT, 1))); // 9
    vars.push(plain(Layer::Vector(S_FLOAT, 4))); // 10
    vars.push(plain(Layer::Matrix(S_FLOAT, 2, 2))); // 11
    vars.push(plain(Layer::Matrix(S_FLOAT, 3, 2))); // 12
    vars.push(plain(Layer::Matrix(S_INT, 2, 2))); // 13
    vars.push(plain(Layer::Other(0))); // 14 S0
    vars.push(plain(Layer::Other(1))); // 15 S1
    vars.push(plain(Layer::Other(3))); // 16 float[3]
    vars.push(plain(Layer::Other(4))); // 17 const float[3]
    vars.push(plain(Layer::Other(5))); // 18 S0[2]
    vars.push(plain(Layer::Other(6))); // 19 float3[2]
    vars.push(cst(i)); // 20
    vars.push(cst(f3)); // 21
    vars.push(cst(plain(Layer::Other(0)))); // 22 const S0
    vars.push(cst(plain(Layer::Matrix(S_FLOAT, 2, 2)))); // 23
    vars.push(cst(plain(Layer::Other(1)))); // 24 const S1
    vars.push(Ty { mods: Mods(2), layer: Layer::Vector(S_FLOAT, 3) }); // 25 volatile float3
    vars.push(Ty { mods: Mods(4), layer: Layer::Matrix(S_FLOAT, 2, 2) }); // 26 row_major float2x2
    vars.push(plain(Layer::Vector(S_BOOL, 3))); // 27 bool3
    vars.push(plain(Layer::Matrix(S_BOOL, 2, 2))); // 28 bool2x2
    vars.push(plain(Layer::Enum(0))); // 29 E0
    vars.push(plain(Layer::Enum(1))); // 30 E1
    vars.push(cst(plain(Layer::Enum(0)))); // 31 const E0
    for k in 7..=12u32 {
        vars.push(cst(plain(Layer::Other(k)))); // 32..37 resources (extern globals)
    }
    vars.push(plain(Layer::Vector(S_UINT, 2))); // 38 uint2
    vars.push(plain(Layer::Vector(S_UINT, 3))); // 39 uint3
    let mut funcs = base_funcs();
    // f6: returns a float3, f7: returns S0 by value (rvalue composites), f8: out float3, f9: inout float
    funcs.push(Func { name: 6, non_default: 0, ret: f3, params: vec![] });
    funcs.push(Func { name: 7, non_default: 0, ret: plain(Layer::Other(0)), params: vec![] });
    funcs.push(Func { name: 8, non_default: 1, ret: i, params: vec![Param { io: Io::Out, ty: f3 }] });
    funcs.push(Func { name: 9, non_default: 1, ret: i, params: vec![Param { io: Io::InOut, ty: f }] });
    // f10: parameters declared const (the signature holds them without the modifier), f11: a const matrix and a struct
    funcs.push(Func { name: 10, non_default: 2, ret: i, params: vec![Param { io: Io::In, ty: cst(f) }, Param { io: Io::In, ty: cst(f3) }] });
    funcs.push(Func {
        name: 11,
        non_default: 2,
        ret: f,
        params: vec![Param { io: Io::In, ty: cst(plain(Layer::Matrix(S_FLOAT, 2, 2))) }, Param { io: Io::In, ty: cst(plain(Layer::Other(0))) }],
    });
    let kinds: Vec<char> = vars
        .iter()
        .map(|v| match v.layer {
            Layer::Other(k) if matches!(others.get(k as usize), Some(OtherDef::Resource(..))) => 'g',
            _ => 'l',
        })
        .collect();
    EnvX { others, base: Envr { vars, funcs, ret }, kinds }
}

const MEMBER_NAMES: &[&str] = &[
    "x", "y", "z", "w", "r", "xx", "xy", "yx", "zyx", "xyz", "xyzw", "rgba", "xr", "xyy", "rrrr", "rrrrr", "xyzwx", "q", "v", "a", "s", "m", "k", "nope",
    "_m00", "_11", "_m00_m11", "_11_22", "_11_m00", "_m00_m00", "_m02", "_m20", "_21", "_32", "_m1", "_", "_m", "_m00_m01_m10_m11_m00", "_m00_m01_m10_m11",
    "_m0", "_00", "_m11_m10",
];

const INTRINSIC_NAMES: &[&str] = &[
    "all", "any", "and", "or", "select", "abs", "asint", "asuint", "asfloat", "acos", "atan2", "cos", "sin", "sincos", "sqrt", "rsqrt", "pow", "exp2",
    "log2", "asdouble", "clamp", "cross", "distance", "dot", "mul", "f16tof32", "f32tof16", "floor", "frac", "modf", "fmod", "lerp", "isnan", "isinf",
    "length", "min", "max", "normalize", "rcp", "reflect", "refract", "countbits", "firstbithigh", "saturate", "sign", "smoothstep", "step",
    "transpose", "determinant", "ddx", "InterlockedAdd", "InterlockedCompareExchange", "NonUniformResourceIndex", "WaveGetLaneCount",
    "WaveActiveAnyTrue", "WaveActiveBallot", "WaveReadLaneAt", "WaveActiveAllEqual", "WaveActiveSum", "WavePrefixSum", "QuadReadLaneAt",
    "AllMemoryBarrier", "SetMeshOutputCounts", "nosuchintrinsic",
];

fn arities_of(name: &str) -> &'static [usize] {
    match name {
        "select" | "sincos" | "clamp" | "lerp" | "refract" | "smoothstep" => &[3],
        "InterlockedAdd" => &[2, 3],
        "InterlockedCompareExchange" => &[4],
        "and" | "or" | "atan2" | "pow" | "asdouble" | "cross" | "distance" | "dot" | "mul" | "modf" | "fmod" | "min" | "max" | "reflect" | "step"
        | "WaveReadLaneAt" | "QuadReadLaneAt" | "SetMeshOutputCounts" => &[2],
        "WaveGetLaneCount" | "AllMemoryBarrier" => &[0],
        _ => &[1],
    }
}

fn random_expr_x(rng: &mut Rng, env: &EnvX, depth: u32) -> Sx {
    let nv = env.base.vars.len();
    let leaf = depth == 0 || rng.chance(1, 5);
    if leaf {
        return if rng.chance(1, 4) { lit(*rng.pick(LITS)) } else { var(rng.below(nv as u64) as usize) };
    }
    match rng.below(30) {
        0..=5 => mem(random_expr_x(rng, env, depth - 1), *rng.pick(MEMBER_NAMES)),
        6..=9 => idx(random_expr_x(rng, env, depth - 1), random_expr_x(rng, env, depth - 1)),
        10..=13 => {
            let t = *rng.pick(&env.base.vars);
            let n = rng.below(5) as usize;
            ctor(Ty { mods: Mods(0), layer: t.layer }, (0..n).map(|_| random_expr_x(rng, env, depth - 1)).collect())
        }
        14..=18 => {
            let name = *rng.pick(INTRINSIC_NAMES);
            let ar = arities_of(name);
            let n = if rng.chance(1, 10) { rng.below(4) as usize } else { *rng.pick(ar) };
            icall(name, (0..n).map(|_| random_expr_x(rng, env, depth - 1)).collect())
        }
        19 | 20 => un(*rng.pick(UNOPS), random_expr_x(rng, env, depth - 1)),
        21 | 22 => bin(*rng.pick(ARITH), random_expr_x(rng, env, depth - 1), random_expr_x(rng, env, depth - 1)),
        23..=25 => bin(*rng.pick(ASSIGN), random_expr_x(rng, env, depth - 1), random_expr_x(rng, env, depth - 1)),
        26 => tern(random_expr_x(rng, env, depth - 1), random_expr_x(rng, env, depth - 1), random_expr_x(rng, env, depth - 1)),
        27 | 28 => {
            let f = rng.pick(&env.base.funcs).clone();
            call(f.name, (0..f.params.len()).map(|_| random_expr_x(rng, env, depth - 1)).collect())
        }
        _ => {
            let t = *rng.pick(&env.base.vars);
            match env.spell_base(t.layer) {
                Some(_) => cast(Ty { mods: Mods(0), layer: t.layer }, random_expr_x(rng, env, depth - 1)),
                None => random_expr_x(rng, env, depth - 1),
            }
        }
    }
}

/// lvalue-ish access paths over the base environment (used as assignment targets / out arguments)
fn access_paths(env: &EnvX) -> Vec<Sx> {
    let nv = env.base.vars.len();
    let mut v: Vec<Sx> = (0..nv).map(var).collect();
    let names = ["x", "xy", "yx", "xx", "q", "v", "a", "s", "m", "k", "_m00", "_m00_m11", "_m00_m00"];
    let first: Vec<Sx> = v.clone();
    for e in &first {
        for n in names {
            v.push(mem(e.clone(), n));
        }
        v.push(idx(e.clone(), lit("IntLiteral")));
    }
    // second level: members of members, elements of members, swizzles of elements
    for (a, b) in [("s", "q"), ("s", "v"), ("v", "x"), ("v", "xy"), ("m", "_m00"), ("s", "a")] {
        for i in [14usize, 15, 22, 24] {
            v.push(mem(mem(var(i), a), b));
        }
    }
    for i in [14usize, 22] {
        v.push(idx(mem(var(i), "a"), lit("IntLiteral")));
        v.push(idx(mem(var(i), "v"), lit("IntLiteral")));
    }
    for i in [16usize, 17, 19] {
        v.push(mem(idx(var(i), lit("IntLiteral")), "x"));
    }
    v.push(mem(idx(var(18), lit("IntLiteral")), "q"));
    v.push(idx(idx(var(11), lit("IntLiteral")), lit("IntLiteral")));
    v.push(idx(idx(var(23), lit("IntLiteral")), lit("IntLiteral")));
    v.push(mem(idx(var(12), lit("IntLiteral")), "x"));
    // rvalue composites
    v.push(idx(call(6, vec![]), lit("IntLiteral")));
    v.push(mem(call(6, vec![]), "x"));
    v.push(mem(call(7, vec![]), "q"));
    v.push(idx(mem(call(7, vec![]), "a"), lit("IntLiteral")));
    v.push(idx(bin("Add", var(6), var(6)), lit("IntLiteral")));
    v.push(mem(bin("Add", var(6), var(6)), "x"));
    v.push(idx(ctor(plain(Layer::Vector(S_FLOAT, 3)), vec![var(6)]), lit("IntLiteral")));
    v.push(idx(cast(plain(Layer::Vector(S_FLOAT, 3)), var(6)), lit("IntLiteral")));
    v
}

// ------------------------------------------------------------------------------------------- projection chains

/// environment of the projection-chain stream: every type shape as a non-const local, a const local, an extern global
/// (implicitly const), a static global, a static const global, a parameter and a const parameter of `t`
/// `o.0 = S0 { int q; float3 v; float a[2]; float2x2 m; }`, `o.1 = S1 { S0 s; float3 w; S0 r[2]; }`, `o.2 = float[3]`,
/// `o.3 = float[2]`, `o.4 = S0[2]`, `o.5 = float3[2]`, `o.6 = float2x2[2]`, `o.7 .. o.10` = the same arrays with const elements
pub struct ProjEnv {
    pub env: EnvX,
    /// (variable, declared writable)
    pub bases: Vec<(usize, bool)>,
    /// a non-const local of each shape, by layer (right-hand sides of struct / array assignments)
    pub plain: Vec<(Layer, usize)>,
}

pub fn proj_envx() -> ProjEnv {
    let f = plain(Layer::Scalar(S_FLOAT));
    let i = plain(Layer::Scalar(S_INT));
    let f2 = plain(Layer::Vector(S_FLOAT, 2));
    let f3 = plain(Layer::Vector(S_FLOAT, 3));
    let m22 = plain(Layer::Matrix(S_FLOAT, 2, 2));
    let m32 = plain(Layer::Matrix(S_FLOAT, 3, 2));
    let s0 = plain(Layer::Other(0));
    let s1 = plain(Layer::Other(1));
    let others = vec![
        OtherDef::Struct(vec![("q".into(), i), ("v".into(), f3), ("a".into(), plain(Layer::Other(3))), ("m".into(), m22)]),
        OtherDef::Struct(vec![("s".into(), s0), ("w".into(), f3), ("r".into(), plain(Layer::Other(4)))]),
        OtherDef::Array(f, 3),
        OtherDef::Array(f, 2),
        OtherDef::Array(s0, 2),
        OtherDef::Array(f3, 2),
        OtherDef::Array(m22, 2),
        OtherDef::Array(cst(f), 3),
        OtherDef::Array(cst(s0), 2),
        OtherDef::Array(cst(f3), 2),
        OtherDef::Array(cst(m22), 2),
        OtherDef::Resource("StructuredBuffer".into(), plain(Layer::Vector(S_FLOAT, 4))), // o.11
        OtherDef::Resource("RWStructuredBuffer".into(), plain(Layer::Vector(S_FLOAT, 4))), // o.12
        OtherDef::Resource("StructuredBuffer".into(), s0),                               // o.13
        OtherDef::Resource("RWStructuredBuffer".into(), s0),                             // o.14
        OtherDef::Resource("Buffer".into(), f3),                                         // o.15
        OtherDef::Resource("RWBuffer".into(), f),                                        // o.16
        OtherDef::Resource("Texture2D".into(), plain(Layer::Vector(S_FLOAT, 4))),        // o.17
        OtherDef::Resource("RWTexture2D".into(), plain(Layer::Vector(S_FLOAT, 4))),      // o.18
        OtherDef::Resource("Texture3D".into(), f),                                       // o.19
        OtherDef::Resource("RWTexture2DArray".into(), plain(Layer::Vector(S_FLOAT, 2))), // o.20
        OtherDef::Resource("StructuredBuffer".into(), m22),                              // o.21
        OtherDef::Resource("RWStructuredBuffer".into(), m32),                            // o.22
    ];
    // (non-const type, const type)
    let shapes: Vec<(Ty, Ty)> = vec![
        (f, cst(f)),
        (f3, cst(f3)),
        (m22, cst(m22)),
        (m32, cst(m32)),
        (s0, cst(s0)),
        (s1, cst(s1)),
        (plain(Layer::Other(2)), plain(Layer::Other(7))),
        (plain(Layer::Other(4)), plain(Layer::Other(8))),
        (plain(Layer::Other(5)), plain(Layer::Other(9))),
        (plain(Layer::Other(6)), plain(Layer::Other(10))),
    ];
    let mut vars = Vec::new();
    let mut kinds = Vec::new();
    let mut bases = Vec::new();
    let mut plainv = Vec::new();
    for (t, c) in &shapes {
        plainv.push((t.layer, vars.len()));
        for (kind, ty, writable) in [('l', *t, true), ('l', *c, false), ('g', *c, false), ('s', *t, true), ('s', *c, false), ('p', *t, true), ('p', *c, false)] {
            bases.push((vars.len(), writable));
            vars.push(ty);
            kinds.push(kind);
        }
    }
    // resources: extern globals (implicitly const handles)
    for k in 11..=22u32 {
        bases.push((vars.len(), false));
        vars.push(cst(plain(Layer::Other(k))));
        kinds.push('g');
    }
    // helpers: a bool and an int
    vars.push(plain(Layer::Scalar(S_BOOL)));
    kinds.push('l');
    vars.push(i);
    kinds.push('l');
    let mut funcs = Vec::new();
    // f0..f6: one `out` parameter of each leaf type; f7: inout float; f10..f13: functions returning composites
    for (k, t) in [f, f2, f3, m22, i, s0, s1].iter().enumerate() {
        funcs.push(Func { name: k as u32, non_default: 1, ret: i, params: vec![Param { io: Io::Out, ty: *t }] });
    }
    funcs.push(Func { name: 7, non_default: 1, ret: i, params: vec![Param { io: Io::InOut, ty: f }] });
    for (k, t) in [f3, m22, s0, s1].iter().enumerate() {
        funcs.push(Func { name: 10 + k as u32, non_default: 0, ret: *t, params: vec![] });
    }
    ProjEnv { env: EnvX { others, base: Envr { vars, funcs, ret: None }, kinds }, bases, plain: plainv }
}

/// the projections that apply to a value of type `t`: (source form builder, type of the result, names a component twice)
fn resource_index(kind: &str) -> Sx {
    let u = |n: u32| ctor(plain(Layer::Vector(S_UINT, n)), vec![lit("UInt32"); n as usize]);
    match kind {
        "Texture2D" | "RWTexture2D" => u(2),
        "Texture2DArray" | "RWTexture2DArray" | "Texture3D" | "RWTexture3D" => u(3),
        _ => lit("IntLiteral"),
    }
}

fn projections(env: &EnvX, t: Ty, deep: bool) -> Vec<(Box<dyn Fn(Sx) -> Sx>, Ty, bool)> {
    let mut v: Vec<(Box<dyn Fn(Sx) -> Sx>, Ty, bool)> = Vec::new();
    let m = |n: &'static str| -> Box<dyn Fn(Sx) -> Sx> { Box::new(move |e| mem(e, n)) };
    let ix = || -> Box<dyn Fn(Sx) -> Sx> { Box::new(|e| idx(e, lit("IntLiteral"))) };
    let with = |l: Layer| Ty { mods: t.mods, layer: l };
    match t.layer {
        Layer::Scalar(sc) => {
            v.push((m("x"), with(Layer::Scalar(sc)), false));
            if !deep {
                v.push((m("xx"), with(Layer::Vector(sc, 2)), true));
            }
        }
        Layer::Vector(sc, n) => {
            v.push((m("x"), with(Layer::Scalar(sc)), false));
            v.push((ix(), with(Layer::Scalar(sc)), false));
            if n >= 2 {
                v.push((m("yx"), with(Layer::Vector(sc, 2)), false));
                if !deep {
                    v.push((m("xx"), with(Layer::Vector(sc, 2)), true));
                    v.push((m("xyx"), with(Layer::Vector(sc, 3)), true));
                }
            }
        }
        Layer::Matrix(sc, x, y) => {
            v.push((ix(), with(Layer::Vector(sc, y)), false));
            v.push((m("_m00"), with(Layer::Scalar(sc)), false));
            if x >= 2 && y >= 2 {
                v.push((m("_m00_m11"), with(Layer::Vector(sc, 2)), false));
                if !deep {
                    v.push((m("_11_11"), with(Layer::Vector(sc, 2)), true));
                }
            }
        }
        Layer::Other(k) => match env.others.get(k as usize) {
            Some(OtherDef::Struct(ms)) => {
                for (n, mt) in ms {
                    let n = n.clone();
                    v.push((Box::new(move |e| mem(e, &n)), *mt, false));
                }
            }
            Some(OtherDef::Array(elem, _)) => v.push((ix(), *elem, false)),
            Some(OtherDef::Resource(kind, elem)) => {
                // the element of a read-only resource is const, of a read-write one it is the element type itself
                let i = resource_index(kind);
                let rt = if kind.starts_with("RW") { *elem } else { cst(*elem) };
                v.push((Box::new(move |e| idx(e, i.clone())), rt, false));
            }
            None => {}
        },
        Layer::Enum(_) => {}
    }
    v
}

/// all projection chains of length 1..=depth over `e : t`: (expression, type, writable so far)
fn chains(env: &EnvX, e: &Sx, t: Ty, writable: bool, depth: u32, out: &mut Vec<(Sx, Ty, bool)>) {
    if depth == 0 {
        return;
    }
    for (b, rt, dup) in projections(env, t, depth < 3) {
        let pe = b(e.clone());
        // an element / member whose own declared type is const is not writable either
        let elem_const = match env.other(rt.layer) {
            Some(OtherDef::Array(el, _)) => el.mods.0 & 1 != 0,
            _ => rt.mods.0 & 1 != 0,
        };
        // what is reached through a read-write resource is writable whatever the handle is
        let through_rw = matches!(env.other(t.layer), Some(OtherDef::Resource(kind, _)) if kind.starts_with("RW"));
        let w = (writable || through_rw) && !dup && !elem_const;
        out.push((pe.clone(), rt, w));
        if !dup {
            chains(env, &pe, rt, w, depth - 1, out);
        }
    }
}

fn run_projections(r: &mut Runner, rng: &mut Rng, thorough: bool, out: &mut Out) {
    let pe = proj_envx();
    let env = &pe.env;
    let nb = env.base.vars.len();
    let vb = nb - 2; // the bool
    let out_fn = |t: Ty| -> Option<u32> {
        if t.mods.0 & !1 != 0 {
            return None;
        }
        env.base.funcs.iter().find(|f| f.name < 7 && f.params[0].ty.layer == t.layer).map(|f| f.name)
    };
    let mut all: Vec<(Sx, Ty, bool)> = Vec::new();
    for (v, w) in &pe.bases {
        let t = env.base.vars[*v];
        // the base itself
        let elem_const = match env.other(t.layer) {
            Some(OtherDef::Array(el, _)) => el.mods.0 & 1 != 0,
            _ => false,
        };
        all.push((var(*v), t, *w && !elem_const));
        chains(env, &var(*v), t, *w, 3, &mut all);
    }
    // values that are not lvalues: function results, operator results, constructors, casts, ?:
    let f3 = plain(Layer::Vector(S_FLOAT, 3));
    let m22 = plain(Layer::Matrix(S_FLOAT, 2, 2));
    let lf3 = pe.plain.iter().find(|x| x.0 == f3.layer).map(|x| x.1).unwrap_or(0);
    let lm = pe.plain.iter().find(|x| x.0 == m22.layer).map(|x| x.1).unwrap_or(0);
    let rvalues: Vec<(Sx, Ty)> = vec![
        (call(10, vec![]), f3),
        (call(11, vec![]), m22),
        (call(12, vec![]), plain(Layer::Other(0))),
        (call(13, vec![]), plain(Layer::Other(1))),
        (bin("Add", var(lf3), var(lf3)), f3),
        (bin("Multiply", var(lm), var(lm)), m22),
        (ctor(f3, vec![var(lf3)]), f3),
        (ctor(m22, vec![var(lm)]), m22),
        (cast(f3, var(lf3)), f3),
        (tern(var(vb), var(lf3), var(lf3)), f3),
        (un("Minus", var(lf3)), f3),
        (un("PostfixIncrement", var(lf3)), f3),
        (icall("normalize", vec![var(lf3)]), f3),
        (icall("transpose", vec![var(lm)]), m22),
    ];
    for (e, t) in &rvalues {
        all.push((e.clone(), *t, false));
        chains(env, e, *t, false, 3, &mut all);
    }
    let stride = if thorough { 1 } else { 4 };
    let mut k = rng.below(stride);
    for (p, t, w) in &all {
        k += 1;
        if k % stride != 0 {
            continue;
        }
        let expect = if *w { "accept" } else { "reject" };
        r.hist.add(if *w { "proj:writable" } else { "proj:not-writable" });
        let numeric = is_numeric(t.layer);
        let rhs = if numeric { lit("IntLiteral") } else { pe.plain.iter().find(|x| x.0 == t.layer).map(|x| var(x.1)).unwrap_or_else(|| p.clone()) };
        r.progx_case(env, &body1(s_expr(bin("Assignment", p.clone(), rhs))), expect, out);
        match (k / stride) % 4 {
            0 if numeric => r.progx_case(env, &body1(s_expr(bin("SumAssignment", p.clone(), lit("IntLiteral")))), expect, out),
            1 if numeric => r.progx_case(env, &body1(s_expr(un("PrefixIncrement", p.clone()))), expect, out),
            2 if numeric => r.progx_case(env, &body1(s_expr(un("PostfixDecrement", p.clone()))), expect, out),
            _ => {
                if let Some(fo) = out_fn(*t) {
                    r.progx_case(env, &body1(s_expr(call(fo, vec![p.clone()]))), expect, out);
                }
            }
        }
        if t.layer == Layer::Scalar(S_FLOAT) && t.mods.0 & !1 == 0 {
            match (k / stride) % 3 {
                0 => r.progx_case(env, &body1(s_expr(call(7, vec![p.clone()]))), expect, out),
                1 => r.progx_case(env, &body1(s_expr(icall("sincos", vec![lit("Float32"), p.clone(), var(pe.plain[0].1)]))), expect, out),
                _ => r.progx_case(env, &body1(s_expr(icall("modf", vec![lit("Float32"), p.clone()]))), expect, out),
            }
        }
        // reading is always fine
        if k % (stride * 8) == 0 {
            r.progx_case(env, &body1(s_expr(p.clone())), "accept", out);
        }
    }
}

// ------------------------------------------------------------------------------------------- statements

fn sx(h: &str, mut items: Vec<Sx>) -> Sx {
    let mut l = vec![atom(h)];
    l.append(&mut items);
    list(l)
}
fn block(ss: Vec<Sx>) -> Sx {
    sx("block", ss)
}
fn dash() -> Sx {
    atom("-")
}

/// a random statement; `next` = number of variables declared so far (ids `0..next` exist, some may be out of scope)
fn random_stmt(rng: &mut Rng, env: &EnvX, depth: u32, next: &mut usize) -> Sx {
    let e = |rng: &mut Rng, next: usize| -> Sx {
        let x = random_expr_x(rng, env, 1);
        // sometimes mention a variable declared in the body (possibly out of scope / not yet declared)
        if rng.chance(1, 3) { var(rng.below(next as u64 + 1) as usize) } else { x }
    };
    let k = if depth == 0 { rng.below(6) } else { rng.below(16) };
    match k {
        0 | 1 => s_expr(e(rng, *next)),
        2 => {
            let t = *rng.pick(&env.base.vars);
            let init = match rng.below(4) {
                0 => None,
                1 => Some(agg((0..rng.below(4)).map(|_| e(rng, *next)).collect())),
                _ => Some(e(rng, *next)),
            };
            *next += 1;
            s_decl(Ty { mods: Mods(t.mods.0 & 1), layer: t.layer }, init)
        }
        3 => {
            if rng.chance(1, 3) { sx("ret", vec![]) } else { s_ret(e(rng, *next)) }
        }
        4 => sx(*rng.pick(&["break", "continue", "discard", "empty"]), vec![]),
        5 => s_expr(bin("Assignment", var(rng.below(*next as u64 + 1) as usize), e(rng, *next))),
        6 | 7 => {
            let n = rng.below(4);
            block((0..n).map(|_| random_stmt(rng, env, depth - 1, next)).collect())
        }
        8 => sx("if", vec![e(rng, *next), random_stmt(rng, env, depth - 1, next)]),
        9 => {
            let c = e(rng, *next);
            let a = random_stmt(rng, env, depth - 1, next);
            let b = random_stmt(rng, env, depth - 1, next);
            sx("ifelse", vec![c, a, b])
        }
        10 | 11 => {
            let fi = match rng.below(3) {
                0 => dash(),
                1 => sx("fexpr", vec![e(rng, *next)]),
                _ => {
                    let init = e(rng, *next);
                    *next += 1;
                    sx("fdecl", vec![atom(&show_ty(plain(Layer::Scalar(S_INT)))), init])
                }
            };
            let c = if rng.chance(1, 4) { dash() } else { e(rng, *next) };
            let n = if rng.chance(1, 4) { dash() } else { e(rng, *next) };
            let b = random_stmt(rng, env, depth - 1, next);
            sx("for", vec![fi, c, n, b])
        }
        12 => sx("while", vec![e(rng, *next), random_stmt(rng, env, depth - 1, next)]),
        13 => {
            let b = random_stmt(rng, env, depth - 1, next);
            sx("do", vec![b, e(rng, *next)])
        }
        _ => {
            let c = e(rng, *next);
            let a = random_stmt(rng, env, depth - 1, next);
            let b = random_stmt(rng, env, depth - 1, next);
            sx("switch", vec![c, block(vec![sx("case", vec![lit("IntLiteral"), a]), sx("default", vec![b])])])
        }
    }
}

fn run_statements(r: &mut Runner, rng: &mut Rng, thorough: bool, n_random: u64, out: &mut Out) {
    let env0 = base_envx(None);
    let nv = env0.base.vars.len();
    let mut operands: Vec<Sx> = (0..nv).map(var).collect();
    operands.extend(LITS.iter().map(|k| lit(k)));
    let f = plain(Layer::Scalar(S_FLOAT));
    let i = plain(Layer::Scalar(S_INT));
    let f2 = plain(Layer::Vector(S_FLOAT, 2));
    let f3 = plain(Layer::Vector(S_FLOAT, 3));
    let i3 = plain(Layer::Vector(S_INT, 3));
    let m22 = plain(Layer::Matrix(S_FLOAT, 2, 2));
    let s0 = plain(Layer::Other(0));
    let s1 = plain(Layer::Other(1));
    let a3 = plain(Layer::Other(3));
    let ca3 = plain(Layer::Other(4));
    let as0 = plain(Layer::Other(5));
    let af3 = plain(Layer::Other(6));
    let decl_types = [f, i, plain(Layer::Scalar(S_BOOL)), f2, f3, i3, m22, s0, s1, a3, ca3, as0, af3, cst(f), cst(f3), cst(s0)];
    let mut k = rng.below(3);
    // (s1) definitions: every type with every operand as the initialiser, and without one
    for t in &decl_types {
        r.progx_case(&env0, &body1(s_decl(*t, None)), "any", out);
        for x in &operands {
            k += 1;
            if thorough || k % 2 == 0 {
                r.progx_case(&env0, &body1(s_decl(*t, Some(x.clone()))), "any", out);
            }
        }
    }
    // aggregate initialisers: right and wrong counts, nesting, wrong item types, no flattening
    let one = || lit("IntLiteral");
    let fl = || lit("Float32");
    let items: Vec<Sx> = vec![one(), fl(), var(4), var(1), var(0), var(6), var(8), var(14), var(16), var(11), agg(vec![one()]), agg(vec![agg(vec![fl()])]),
                              agg(vec![one(), one()]), agg(vec![one(), one(), one()]), agg(vec![])];
    for t in &decl_types {
        for n in 0..5usize {
            // n copies of each item kind
            for it in &items {
                k += 1;
                if thorough || k % 3 == 0 || n <= 1 {
                    r.progx_case(&env0, &body1(s_decl(*t, Some(agg(vec![it.clone(); n])))), "any", out);
                }
            }
        }
    }
    let shaped: Vec<(Ty, Sx)> = vec![
        (s0, agg(vec![one(), var(6), var(16)])),                                                       // array member from a float[3]: wrong
        (s0, agg(vec![one(), var(6), agg(vec![fl(), fl()])])),
        (s0, agg(vec![one(), agg(vec![fl(), fl(), fl()]), agg(vec![fl(), fl()])])),
        (s0, agg(vec![one(), agg(vec![fl(), fl()]), agg(vec![fl(), fl()])])),                          // vector member: wrong count
        (s0, agg(vec![one(), fl(), fl(), fl(), fl(), fl()])),                                          // flattened: refused
        (s0, agg(vec![var(14), var(6), agg(vec![fl(), fl()])])),                                       // struct for an int
        (s1, agg(vec![var(14), var(11), one()])),
        (s1, agg(vec![agg(vec![one(), var(6), agg(vec![fl(), fl()])]), var(11), var(2)])),
        (s1, agg(vec![agg(vec![one(), var(6), agg(vec![fl(), fl()])]), agg(vec![one(), one(), one(), one()]), var(2)])),   // matrix member from {..}: refused
        (as0, agg(vec![var(14), var(14)])),
        (as0, agg(vec![var(14), agg(vec![one(), var(6), agg(vec![fl(), fl()])])])),
        (as0, agg(vec![var(14)])),
        (af3, agg(vec![var(6), agg(vec![one(), one(), one()])])),
        (af3, agg(vec![var(6), var(7)])),
        (af3, agg(vec![var(6), var(8)])),
        (f3, agg(vec![var(8), one()])),                                                                // float3 v = { v2, 1 }: no flattening
        (f3, agg(vec![one(), agg(vec![one()]), agg(vec![agg(vec![fl()])])])),
        (f3, agg(vec![var(4), var(1), var(0)])),
        (f3, agg(vec![var(4), var(1), var(14)])),
        (m22, agg(vec![one(), one(), one(), one()])),
        (m22, agg(vec![var(8), var(8)])),
        (cst(f3), agg(vec![one(), one(), one()])),
        (ca3, agg(vec![one(), fl(), var(1)])),
        (f, agg(vec![agg(vec![agg(vec![var(1)])])])),
        (f, agg(vec![var(14)])),
        (i, agg(vec![fl(), fl()])),
    ];
    for (t, ini) in shaped {
        r.progx_case(&env0, &body1(s_decl(t, Some(ini))), "any", out);
    }
    // (s2) conditions: every operand as the condition of every statement kind (no conversion is inserted)
    for x in &operands {
        let st = s_expr(bin("Assignment", var(1), lit("IntLiteral")));
        r.progx_case(&env0, &body1(sx("if", vec![x.clone(), st.clone()])), "any", out);
        k += 1;
        if thorough || k % 2 == 0 {
            r.progx_case(&env0, &body1(sx("ifelse", vec![x.clone(), st.clone(), block(vec![st.clone()])])), "any", out);
            r.progx_case(&env0, &body1(sx("while", vec![x.clone(), block(vec![st.clone(), sx("break", vec![])])])), "any", out);
            r.progx_case(&env0, &body1(sx("do", vec![st.clone(), x.clone()])), "any", out);
            r.progx_case(&env0, &body1(sx("for", vec![dash(), x.clone(), x.clone(), st.clone()])), "any", out);
            r.progx_case(
                &env0,
                &body1(sx("switch", vec![x.clone(), block(vec![sx("case", vec![lit("IntLiteral"), sx("break", vec![])]), sx("default", vec![sx("break", vec![])])])])),
                "any",
                out,
            );
        }
    }
    // ill-typed conditions are still rejected for what is wrong inside them
    let bad = bin("Assignment", var(20), lit("IntLiteral"));
    for h in ["if", "while", "switch"] {
        r.progx_case(&env0, &body1(sx(h, vec![bad.clone(), block(vec![])])), "reject", out);
    }
    r.progx_case(&env0, &body1(sx("do", vec![block(vec![]), bad.clone()])), "reject", out);
    r.progx_case(&env0, &body1(sx("for", vec![sx("fexpr", vec![bad.clone()]), dash(), dash(), block(vec![])])), "reject", out);
    r.progx_case(&env0, &body1(sx("for", vec![dash(), bad.clone(), dash(), block(vec![])])), "reject", out);
    r.progx_case(&env0, &body1(sx("for", vec![dash(), dash(), bad.clone(), block(vec![])])), "reject", out);
    r.progx_case(&env0, &body1(sx("for", vec![dash(), dash(), dash(), s_expr(bad.clone())])), "reject", out);
    r.progx_case(&env0, &body1(sx("if", vec![var(0), block(vec![sx("while", vec![var(0), s_expr(bad.clone())])])])), "reject", out);
    // (s3) scopes: a variable declared in a block / body / for-init is unknown after it; visible inside
    let d = |t: Ty, e: Sx| s_decl(t, Some(e));
    let use_ = |n: usize| s_expr(bin("Assignment", var(n), lit("IntLiteral")));
    let scopes: Vec<(&str, Vec<Sx>)> = vec![
        ("accept", vec![d(i, one()), use_(nv)]),
        ("accept", vec![block(vec![d(i, one()), use_(nv)])]),
        ("reject", vec![block(vec![d(i, one())]), use_(nv)]),
        ("reject", vec![use_(nv), d(i, one())]),
        ("reject", vec![d(i, var(nv))]),
        ("accept", vec![d(i, one()), d(f, var(nv)), use_(nv + 1)]),
        ("accept", vec![sx("if", vec![var(0), block(vec![d(i, one()), use_(nv)])])]),
        ("reject", vec![sx("if", vec![var(0), block(vec![d(i, one())])]), use_(nv)]),
        ("reject", vec![sx("if", vec![var(0), d(i, one())]), use_(nv)]),
        ("reject", vec![sx("ifelse", vec![var(0), block(vec![d(i, one())]), block(vec![use_(nv)])])]),
        ("accept", vec![sx("ifelse", vec![var(0), block(vec![d(i, one())]), block(vec![d(f, fl()), use_(nv + 1)])])]),
        ("accept", vec![sx("for", vec![sx("fdecl", vec![atom(&show_ty(i)), one()]), bin("LessThan", var(nv), one()), un("PrefixIncrement", var(nv)), use_(nv)])]),
        ("reject", vec![sx("for", vec![sx("fdecl", vec![atom(&show_ty(i)), one()]), dash(), dash(), block(vec![])]), use_(nv)]),
        ("accept", vec![sx("for", vec![sx("fdecl", vec![atom(&show_ty(i)), one()]), dash(), dash(), block(vec![d(f, var(nv)), use_(nv + 1)])])]),
        ("reject", vec![sx("for", vec![dash(), dash(), dash(), block(vec![d(f, fl())])]), use_(nv)]),
        ("accept", vec![sx("while", vec![var(0), block(vec![d(i, one()), use_(nv), sx("break", vec![])])])]),
        ("reject", vec![sx("do", vec![block(vec![d(i, one())]), bin("LessThan", var(nv), one())])]),
        ("accept", vec![d(i, one()), sx("do", vec![block(vec![d(f, fl())]), bin("LessThan", var(nv), one())])]),
        ("accept", vec![sx("switch", vec![var(1), block(vec![sx("case", vec![one(), d(i, one())]), use_(nv), sx("default", vec![sx("break", vec![])])])])]),
        ("reject", vec![sx("switch", vec![var(1), block(vec![sx("case", vec![one(), d(i, one())])])]), use_(nv)]),
        ("accept", vec![block(vec![block(vec![d(i, one())]), d(f, fl()), use_(nv + 1)])]),
        ("reject", vec![block(vec![block(vec![d(i, one())]), d(f, fl()), use_(nv)])]),
    ];
    for (expect, ss) in scopes {
        r.progx_case(&env0, &block(ss), expect, out);
    }
    // (s4) returns at every nesting depth in void and non-void functions
    for ret in [None, Some(f), Some(f3), Some(s0), Some(cst(f))] {
        let env = base_envx(ret);
        for x in [None, Some(var(4)), Some(var(1)), Some(var(6)), Some(var(14)), Some(lit("IntLiteral")), Some(icall("AllMemoryBarrier", vec![])), Some(var(11))] {
            let rs = match &x {
                None => sx("ret", vec![]),
                Some(e) => s_ret(e.clone()),
            };
            r.progx_case(&env, &body1(rs.clone()), "any", out);
            r.progx_case(&env, &body1(sx("if", vec![var(0), rs.clone()])), "any", out);
            r.progx_case(&env, &body1(sx("for", vec![dash(), dash(), dash(), block(vec![sx("ifelse", vec![var(0), sx("break", vec![]), rs.clone()])])])), "any", out);
            r.progx_case(&env, &body1(sx("switch", vec![var(1), block(vec![sx("case", vec![lit("IntLiteral"), rs.clone()]), sx("default", vec![rs.clone()])])])), "any", out);
            r.progx_case(&env, &block(vec![sx("while", vec![var(0), sx("do", vec![block(vec![rs.clone()]), var(0)])]), rs]), "any", out);
        }
    }
    // case labels
    for c in [lit("IntLiteral"), lit("UInt32"), lit("Bool"), lit("Float32"), var(1), bin("Add", lit("IntLiteral"), lit("IntLiteral"))] {
        r.progx_case(&env0, &body1(sx("switch", vec![var(1), block(vec![sx("case", vec![c, sx("break", vec![])])])])), "any", out);
    }
    // (s5) random statement trees
    let envs: Vec<EnvX> = vec![base_envx(None), base_envx(Some(f)), base_envx(Some(f3))];
    for j in 0..n_random {
        let env = &envs[(j % envs.len() as u64) as usize];
        let mut next = nv;
        let n = 1 + rng.below(4);
        let depth = 1 + rng.below(3) as u32;
        let ss: Vec<Sx> = (0..n).map(|_| random_stmt(rng, env, depth, &mut next)).collect();
        r.progx_case(env, &block(ss), "any", out);
    }
}

pub fn run_ext(r: &mut Runner, rng: &mut Rng, args: &Args, out: &mut Out) {
    let thorough = args.thorough();
    let env0 = base_envx(None);
    let nv = env0.base.vars.len();
    let mut operands: Vec<Sx> = (0..nv).map(var).collect();
    operands.extend(LITS.iter().map(|k| lit(k)));

    // (x1) every member name on every variable and literal; reads, writes and increments through every access path
    for x in &operands {
        for n in MEMBER_NAMES {
            r.progx_case(&env0, &body1(s_expr(mem(x.clone(), n))), "any", out);
        }
    }
    let paths = access_paths(&env0);
    let mut k = rng.below(5);
    for p in &paths {
        r.progx_case(&env0, &body1(s_expr(p.clone())), "any", out);
        r.progx_case(&env0, &body1(s_expr(bin("Assignment", p.clone(), lit("IntLiteral")))), "any", out);
        k += 1;
        if thorough || k % 3 == 0 {
            r.progx_case(&env0, &body1(s_expr(bin("SumAssignment", p.clone(), p.clone()))), "any", out);
            r.progx_case(&env0, &body1(s_expr(un("PrefixIncrement", p.clone()))), "any", out);
            r.progx_case(&env0, &body1(s_expr(un("PostfixDecrement", p.clone()))), "any", out);
            r.progx_case(&env0, &body1(s_expr(call(8, vec![p.clone()]))), "any", out);
            r.progx_case(&env0, &body1(s_expr(call(9, vec![p.clone()]))), "any", out);
            r.progx_case(&env0, &body1(s_expr(icall("sincos", vec![var(4), p.clone(), var(4)]))), "any", out);
        }
    }
    // (x1b) the operators of the old fragment on the variables of this environment (bool vectors / matrices, arrays,
    //       structs, enums, const and modified types): every unary operator on every operand, binary operators on a slice
    for op in UNOPS {
        for x in &operands {
            r.progx_case(&env0, &body1(s_expr(un(op, x.clone()))), "any", out);
        }
    }
    for op in ARITH.iter().chain(ASSIGN.iter()) {
        for x in &operands {
            for y in &operands {
                k += 1;
                if thorough || k % 23 == 0 {
                    r.progx_case(&env0, &body1(s_expr(bin(op, x.clone(), y.clone()))), "any", out);
                }
            }
        }
    }
    for x in &operands {
        for y in &operands {
            k += 1;
            if thorough || k % 11 == 0 {
                r.progx_case(&env0, &body1(s_expr(tern(var(0), x.clone(), y.clone()))), "any", out);
                r.progx_case(&env0, &body1(s_expr(tern(x.clone(), y.clone(), y.clone()))), "any", out);
            }
        }
    }
    // (x1c) functions whose parameters are declared const
    for x in &operands {
        for y in &operands {
            k += 1;
            if thorough || k % 7 == 0 {
                r.progx_case(&env0, &body1(s_expr(call(10, vec![x.clone(), y.clone()]))), "any", out);
                r.progx_case(&env0, &body1(s_expr(call(11, vec![x.clone(), y.clone()]))), "any", out);
            }
        }
        r.progx_case(&env0, &body1(s_expr(call(11, vec![x.clone()]))), "any", out);
    }
    // (x2) subscripts: every variable and some composites, indexed by every operand
    for a in &operands {
        for (j, i) in operands.iter().enumerate() {
            if thorough || (j as u64 + k) % 2 == 0 {
                r.progx_case(&env0, &body1(s_expr(idx(a.clone(), i.clone()))), "any", out);
            }
        }
    }
    // (x3) constructors: every target type with 0..3 arguments from a pool
    let pool: Vec<Sx> = vec![
        var(0), var(1), var(2), var(4), var(5), var(6), var(7), var(8), var(9), var(10), var(11), var(12), var(14), var(16), var(20), var(21),
        lit("IntLiteral"), lit("FloatLiteral"), lit("Bool"), lit("UInt32"), mem(var(6), "xy"), idx(var(12), lit("IntLiteral")),
    ];
    let targets: Vec<Ty> = vec![
        plain(Layer::Scalar(S_FLOAT)), plain(Layer::Scalar(S_INT)), plain(Layer::Scalar(S_BOOL)), plain(Layer::Vector(S_FLOAT, 2)),
        plain(Layer::Vector(S_FLOAT, 3)), plain(Layer::Vector(S_INT, 3)), plain(Layer::Vector(S_FLOAT, 4)), plain(Layer::Vector(S_UINT, 1)),
        plain(Layer::Matrix(S_FLOAT, 2, 2)), plain(Layer::Matrix(S_FLOAT, 3, 2)), plain(Layer::Other(0)), plain(Layer::Vector(S_HALF, 2)),
    ];
    for t in &targets {
        r.progx_case(&env0, &body1(s_expr(ctor(*t, vec![]))), "any", out);
        for a in &pool {
            r.progx_case(&env0, &body1(s_expr(ctor(*t, vec![a.clone()]))), "any", out);
        }
        for a in &pool {
            for b in &pool {
                k += 1;
                if thorough || k % 5 == 0 {
                    r.progx_case(&env0, &body1(s_expr(ctor(*t, vec![a.clone(), b.clone()]))), "any", out);
                }
                if k % (if thorough { 7 } else { 31 }) == 0 {
                    let c = rng.pick(&pool).clone();
                    r.progx_case(&env0, &body1(s_expr(ctor(*t, vec![a.clone(), b.clone(), c.clone()]))), "any", out);
                    let d = rng.pick(&pool).clone();
                    r.progx_case(&env0, &body1(s_expr(ctor(*t, vec![a.clone(), b.clone(), c, d]))), "any", out);
                }
            }
        }
    }
    // (x4) intrinsic functions: every name with operands of every kind at its arities (one varying position, the others
    //      float / float3), plus all-equal operands
    for name in INTRINSIC_NAMES {
        for n in arities_of(name) {
            if *n == 0 {
                r.progx_case(&env0, &body1(s_expr(icall(name, vec![]))), "any", out);
                r.progx_case(&env0, &body1(s_expr(icall(name, vec![var(4)]))), "any", out);
                continue;
            }
            for x in &operands {
                r.progx_case(&env0, &body1(s_expr(icall(name, vec![x.clone(); *n]))), "any", out);
                for pos in 0..*n {
                    for fill in [4usize, 6, 1, 2] {
                        k += 1;
                        if !thorough && k % 4 != 0 {
                            continue;
                        }
                        let mut a = vec![var(fill); *n];
                        a[pos] = x.clone();
                        r.progx_case(&env0, &body1(s_expr(icall(name, a))), "any", out);
                    }
                }
            }
            // wrong number of arguments
            r.progx_case(&env0, &body1(s_expr(icall(name, vec![var(4); *n + 1]))), "reject", out);
            if *n > 0 {
                r.progx_case(&env0, &body1(s_expr(icall(name, vec![var(4); *n - 1]))), if *name == "InterlockedAdd" && *n == 3 { "any" } else { "reject" }, out);
            }
        }
    }
    // (x5) violations of the kinds the property lists, through the new constructs
    let viol: Vec<(&str, Sx)> = vec![
        ("write-const-swizzle", bin("Assignment", mem(var(21), "x"), lit("IntLiteral"))),
        ("write-const-element", bin("Assignment", idx(var(17), lit("IntLiteral")), lit("IntLiteral"))),
        ("write-const-vector-element", bin("Assignment", idx(var(21), lit("IntLiteral")), lit("IntLiteral"))),
        ("write-const-matrix-row", bin("Assignment", idx(var(23), lit("IntLiteral")), var(8))),
        ("write-const-struct-member", bin("Assignment", mem(var(22), "q"), lit("IntLiteral"))),
        ("write-const-struct-member", bin("SumAssignment", mem(mem(var(24), "s"), "q"), lit("IntLiteral"))),
        ("write-const-struct-member", un("PrefixIncrement", mem(var(22), "q"))),
        ("write-const-struct-member", bin("Assignment", mem(mem(var(22), "v"), "x"), lit("IntLiteral"))),
        ("write-const-struct-member", bin("Assignment", idx(mem(var(22), "a"), lit("IntLiteral")), lit("IntLiteral"))),
        ("write-dup-swizzle", bin("Assignment", mem(var(6), "xx"), var(8))),
        ("write-dup-swizzle", bin("Assignment", mem(var(11), "_m00_m00"), var(8))),
        ("write-dup-swizzle", un("PostfixIncrement", mem(var(6), "xyx"))),
        ("write-rvalue-swizzle", bin("Assignment", mem(call(6, vec![]), "x"), lit("IntLiteral"))),
        ("write-rvalue-member", bin("Assignment", mem(call(7, vec![]), "q"), lit("IntLiteral"))),
        ("write-rvalue-element", bin("Assignment", idx(call(6, vec![]), lit("IntLiteral")), lit("IntLiteral"))),
        ("write-rvalue-element", bin("Assignment", idx(bin("Add", var(6), var(6)), lit("IntLiteral")), lit("IntLiteral"))),
        ("write-rvalue-element", bin("Assignment", idx(mem(call(7, vec![]), "a"), lit("IntLiteral")), lit("IntLiteral"))),
        ("write-rvalue-element", un("PrefixIncrement", idx(call(6, vec![]), lit("IntLiteral")))),
        ("write-rvalue-ctor", bin("Assignment", ctor(plain(Layer::Vector(S_FLOAT, 3)), vec![var(6)]), var(6))),
        ("write-rvalue-intrinsic", bin("Assignment", icall("sin", vec![var(4)]), var(4))),
        ("out-rvalue-swizzle", call(8, vec![mem(var(10), "xyx")])),
        ("out-rvalue-element", call(9, vec![idx(call(6, vec![]), lit("IntLiteral"))])),
        ("out-const-struct-member", call(8, vec![mem(var(22), "v")])),
        ("out-const-swizzle", call(9, vec![mem(var(21), "x")])),
        ("out-const-element", call(9, vec![idx(var(17), lit("IntLiteral"))])),
        ("intrinsic-out-rvalue", icall("sincos", vec![var(4), lit("Float32"), var(4)])),
        ("intrinsic-out-rvalue", icall("sincos", vec![var(4), bin("Add", var(4), var(4)), var(4)])),
        ("intrinsic-out-rvalue", icall("modf", vec![var(4), icall("sin", vec![var(4)])])),
        ("intrinsic-out-const", icall("sincos", vec![var(4), mem(var(21), "x"), var(4)])),
        ("intrinsic-out-const", icall("InterlockedAdd", vec![var(1), var(1), var(20)])),
        ("intrinsic-unconvertible", icall("sin", vec![var(14)])),
        ("intrinsic-unconvertible", icall("dot", vec![var(6), var(16)])),
        ("intrinsic-unconvertible", icall("cross", vec![var(11), var(6)])),
        ("ctor-count", ctor(plain(Layer::Vector(S_FLOAT, 3)), vec![var(8)])),
        ("ctor-count", ctor(plain(Layer::Vector(S_FLOAT, 3)), vec![var(8), var(8)])),
        ("ctor-count", ctor(plain(Layer::Vector(S_FLOAT, 3)), vec![])),
        ("ctor-count", ctor(plain(Layer::Matrix(S_FLOAT, 2, 2)), vec![var(6)])),
        ("ctor-type", ctor(plain(Layer::Vector(S_FLOAT, 3)), vec![var(14), var(8)])),
        ("ctor-type", ctor(plain(Layer::Vector(S_FLOAT, 2)), vec![var(16)])),
        ("index-type", idx(var(6), var(14))),
        ("index-type", idx(var(16), var(16))),
        ("index-base", idx(var(4), lit("IntLiteral"))),
        ("index-base", idx(var(14), lit("IntLiteral"))),
    ];
    for (kind, e) in viol {
        r.hist.add(&format!("violationx:{}", kind));
        r.progx_case(&env0, &body1(s_expr(e)), "reject", out);
    }
    // returns / initialisers through the new constructs
    let rets = [
        Some(plain(Layer::Scalar(S_FLOAT))),
        Some(plain(Layer::Vector(S_FLOAT, 3))),
        Some(plain(Layer::Other(0))),
        Some(plain(Layer::Vector(S_INT, 2))),
        None,
    ];
    for ret in rets {
        let env = base_envx(ret);
        for (j, p) in paths.iter().enumerate() {
            if thorough || (j as u64 + k) % 2 == 0 {
                r.progx_case(&env, &body1(s_ret(p.clone())), "any", out);
            }
        }
        r.progx_case(&env, &body1(s_ret(icall("sincos", vec![var(4), var(4), var(4)]))), "any", out);
        r.progx_case(&env, &body1(s_ret(icall("dot", vec![var(6), var(6)]))), "any", out);
        r.progx_case(&env, &body1(s_ret(ctor(plain(Layer::Vector(S_FLOAT, 3)), vec![var(8), var(4)]))), "any", out);
    }

    // (x5b) writes (assignment, compound assignment, ++/--, out / inout arguments of user and intrinsic functions) through
    //       every projection chain (members, subscripts, swizzles, nested up to depth 3) of every kind of base: locals,
    //       extern and static globals, parameters, const and not, and values that are not lvalues
    run_projections(r, rng, thorough, out);

    // (x6) random expressions
    let n = args.n.unwrap_or(if thorough { 30000 } else { 2500 });
    let envs: Vec<EnvX> = vec![base_envx(None), base_envx(Some(plain(Layer::Scalar(S_FLOAT)))), base_envx(Some(plain(Layer::Vector(S_FLOAT, 3))))];
    for i in 0..n {
        let env = &envs[(i % envs.len() as u64) as usize];
        let depth = 1 + rng.below(3) as u32;
        let e = random_expr_x(rng, env, depth);
        let stmt = match rng.below(8) {
            0 => s_ret(e),
            _ => s_expr(e),
        };
        r.progx_case(env, &body1(stmt), "any", out);
    }
    // (x6b) statements: definitions and aggregate initialisers, conditions, scopes, returns, random statement trees
    run_statements(r, rng, thorough, if thorough { 12000 } else { 1200 }, out);

    // (x7) the typed expressions the real checker produced, re-typed node by node with the real get_type
    let typed = std::mem::take(&mut r.typed);
    let tcap = if thorough { 30000 } else { 2500 };
    let tstep = (typed.len() / tcap).max(1);
    for (i, line) in typed.iter().enumerate() {
        if i % tstep != 0 {
            continue;
        }
        let f: Vec<&str> = line.split('\t').collect();
        if let ["C03.typex", others, vars, funcs, ret, t] = f.as_slice() {
            if let (Some(env), Some(t)) = (parse_envx(others, vars, funcs, ret), parse_sx(t)) {
                r.typex_case(&env, &t, out);
            }
        }
    }
}

import RsslVerif.Model.Meta
import RsslVerif.Model.Names
/-!
# Where the stage records and the reported names come from

* `typer/src/typer/pipelines.rs` `parse_pipeline` / `add_stage`: how a `Pipeline` block becomes an
  `ir::PipelineDefinition` (stage list in *property* order, entry function found by its source name among **all**
  functions the registry holds *when the block is met*, thread group size = the last `numthreads` attribute of that
  function, default bind group, graphics state only for non-compute pipelines), and the errors that refuse the file;
* `typer/src/typer.rs` `type_check_internal` + `typer/src/typer/functions.rs` `parse_function`: the root definitions
  are processed strictly in source order and the first error refuses the file; a function is registered when its
  first declaration / definition is met, its attributes are parsed **only at the definition** (never on a forward
  declaration) and it has an implementation only after its definition (`parseFile`, `regAt`);
* `ir/src/name_generator.rs` `NameMap::build` (the C15 model `Model.Names.build`) as used by both exporters for
  the names they print *and* report: HLSL reports `context.get_function_name(stage.entry_point)` and
  `context.get_global_name(id)` — lookups in the same map the definitions are printed from — while a cbuffer
  block keeps its source name (`get_constant_buffer_name` reads the registry, not the map); Metal names every
  binding through the map, after `simplify_cbuffers` appended one global (and one `<name>Type` struct) per
  cbuffer at the end of the registries.

Core Lean only.  Errors of the Rust code are explicit.
-/
namespace RsslVerif.Model.MetaFront
open RsslVerif.Gen.CompileTables RsslVerif.Model.Meta

/-- an entry of the function registry as `add_stage` sees it.  The registry *grows while the file is read*
    (`parse_function`: `register_function` when a declaration / definition of a new signature is met,
    `set_implementation` at the end of `parse_function_body`): a table `funcs : List FnSrc` lists every function the
    file will ever register (position = function id, an opaque key) together with the intrinsics, and `registered` /
    `hasBody` say what the registry holds *at a given moment* (`regAt`). -/
structure FnSrc where
  name : String
  /-- evaluated `NumThreads` attributes of the *definition*, in source order (the attributes written on a forward
      declaration are never looked at: `parse_function` calls `parse_function_attributes` under `if is_definition`) -/
  attrs : List (Nat × Nat × Nat)
  /-- `get_function_implementation(id)` is `Some` -/
  hasBody : Bool
  isTemplate : Bool
  /-- the function is in the registry (`function_registry.iter()` yields it) -/
  registered : Bool
  deriving DecidableEq, Repr, Inhabited

/-- a `Pipeline` block: stage properties in source order, the other properties summarised -/
structure PipeSrc where
  name : String
  /-- `<Stage>Shader = <identifier>;` properties in source order -/
  stages : List (Stage × String)
  /-- evaluated `DefaultBindGroup`, if written -/
  dflt : Option Nat
  /-- some property that only a graphics pipeline may carry is written -/
  graphicsProps : Bool
  deriving DecidableEq, Repr, Inhabited

inductive FrontErr where
  | StaticSamplerUnexpectedBindingIndex
  | FunctionAttributeDuplicate
  | PipelineAlreadyDefined
  | PipelinePropertyDuplicate
  | PipelineEntryPointFunctionUnknown
  | PipelineNoEntryPoint
  | PipelineInvalidStageCombination
  | PipelinePropertyRequiresGraphicsPipeline
  deriving DecidableEq, Repr, Inhabited

def FrontErr.name : FrontErr → String
  | .StaticSamplerUnexpectedBindingIndex => "StaticSamplerUnexpectedBindingIndex"
  | .FunctionAttributeDuplicate => "FunctionAttributeDuplicate"
  | .PipelineAlreadyDefined => "PipelineAlreadyDefined"
  | .PipelinePropertyDuplicate => "PipelinePropertyDuplicate"
  | .PipelineEntryPointFunctionUnknown => "PipelineEntryPointFunctionUnknown"
  | .PipelineNoEntryPoint => "PipelineNoEntryPoint"
  | .PipelineInvalidStageCombination => "PipelineInvalidStageCombination"
  | .PipelinePropertyRequiresGraphicsPipeline => "PipelinePropertyRequiresGraphicsPipeline"

/-- `ir::PipelineStage` -/
structure StageRec where
  stage : Stage
  entry : Nat
  threadGroupSize : Option (Nat × Nat × Nat)
  deriving DecidableEq, Repr, Inhabited

/-- `ir::PipelineDefinition` (graphics state: only whether it is present) -/
structure PipeDef where
  name : String
  dflt : Nat
  stages : List StageRec
  graphics : Bool
  deriving DecidableEq, Repr, Inhabited

/-- `typer/functions.rs` `parse_function_attributes` restricted to the `numthreads` attributes (the only kind the
    model carries; all of one discriminant): `acc` = the attributes accepted so far.  Since fix "a function attribute
    can be given only once" an attribute of a kind the function already has is refused. -/
def parseFunctionAttributes : List (Nat × Nat × Nat) → List (Nat × Nat × Nat) → Except FrontErr (List (Nat × Nat × Nat))
  | acc, [] => .ok acc
  | acc, a :: r => if !acc.isEmpty then .error .FunctionAttributeDuplicate else parseFunctionAttributes (acc ++ [a]) r

/-- indices of the registered functions called `n` (the `for id in function_registry.iter()` loop of `add_stage`) -/
def fnIndices : List FnSrc → String → Nat → List Nat
  | [], _, _ => []
  | f :: r, n, i => if f.registered && f.name == n then i :: fnIndices r n (i + 1) else fnIndices r n (i + 1)

/-- `add_stage` -/
def addStage (funcs : List FnSrc) (st : Stage) (n : String) : Except FrontErr StageRec :=
  match fnIndices funcs n 0 with
  | [i] =>
    match funcs[i]? with
    | none => .error .PipelineEntryPointFunctionUnknown
    | some f =>
      if f.isTemplate then .error .PipelineEntryPointFunctionUnknown
      else if !f.hasBody then .error .PipelineEntryPointFunctionUnknown
      else .ok { stage := st, entry := i, threadGroupSize := lastNumThreads f.attrs }
  | _ => .error .PipelineEntryPointFunctionUnknown

def addStages (funcs : List FnSrc) : List (Stage × String) → Except FrontErr (List StageRec)
  | [] => .ok []
  | (st, n) :: r =>
    match addStage funcs st n with
    | .error e => .error e
    | .ok s =>
      match addStages funcs r with
      | .error e => .error e
      | .ok rest => .ok (s :: rest)

/-- the "Check for duplicate properties" loop, restricted to the stage properties (one property name per stage
    kind; every other property of a generated block is written at most once) -/
def hasDupStage : List (Stage × String) → Bool
  | [] => false
  | (st, _) :: r => r.any (fun q => q.1 == st) || hasDupStage r

/-- `parse_pipeline`; `earlier` = names of the pipelines already in the module -/
def parsePipeline (funcs : List FnSrc) (earlier : List String) (p : PipeSrc) : Except FrontErr PipeDef :=
  if earlier.contains p.name then .error .PipelineAlreadyDefined
  else if hasDupStage p.stages then .error .PipelinePropertyDuplicate
  else
    match addStages funcs p.stages with
    | .error e => .error e
    | .ok [] => .error .PipelineNoEntryPoint
    | .ok (s :: rest) =>
      let isCompute := s.stage == .Compute
      if isCompute && !rest.isEmpty then .error .PipelineInvalidStageCombination
      else if !isCompute && rest.any (fun q => q.stage == .Compute) then .error .PipelineInvalidStageCombination
      else if isCompute && p.graphicsProps then .error .PipelinePropertyRequiresGraphicsPipeline
      else .ok { name := p.name, dflt := p.dflt.getD 0, stages := s :: rest, graphics := !isCompute }

/-- a run of consecutive `Pipeline` blocks (no function declared or defined in between: one registry `funcs`) -/
def parsePipelines (funcs : List FnSrc) : List String → List PipeSrc → Except FrontErr (List PipeDef)
  | _, [] => .ok []
  | earlier, p :: r =>
    match parsePipeline funcs earlier p with
    | .error e => .error e
    | .ok d =>
      match parsePipelines funcs (earlier ++ [p.name]) r with
      | .error e => .error e
      | .ok rest => .ok (d :: rest)

/-- the registry at some moment of the file: of the table `funcs`, the functions whose declaration or definition has
    been met (`declared`) are registered, those whose definition has been completed (`defined`) have an implementation;
    what the table itself says (`registered` of an intrinsic) stays -/
def regAt (funcs : List FnSrc) (declared defined : List Nat) : List FnSrc :=
  funcs.mapIdx fun i f =>
    { f with registered := f.registered || declared.contains i || defined.contains i,
             hasBody := f.hasBody || defined.contains i }

/-- what the front end meets in file order (`type_check_internal`: `for def in &ast.root_definitions`), as far as the
    model follows it.  Functions are named by their position in the table `funcs`.
    * `decl i`: a forward declaration — `parse_function` registers the signature; **its attributes are not parsed**
      (so a declaration may carry any number of `numthreads` attributes);
    * `defn i`: a definition — the signature is registered (or found), then `parse_function_body` parses the attributes
      (a second attribute of a kind: `FunctionAttributeDuplicate`), the body, and stores the implementation;
    * `pipe p`: a `Pipeline` block — `parse_pipeline` against the registry *as it is now*. -/
inductive Item where
  | decl (i : Nat)
  | defn (i : Nat)
  | pipe (p : PipeSrc)
  deriving DecidableEq, Repr, Inhabited

/-- the root definitions of a file in source order; the first error refuses the file.  `funcs` = the table of all
    functions, `declared` / `defined` = what the items before have registered / implemented, `earlier` = the names of
    the pipelines before. -/
def parseFile (funcs : List FnSrc) : List Nat → List Nat → List String → List Item → Except FrontErr (List PipeDef)
  | _, _, _, [] => .ok []
  | dc, df, earlier, .decl i :: r => parseFile funcs (i :: dc) df earlier r
  | dc, df, earlier, .defn i :: r =>
    match funcs[i]? with
    | none => parseFile funcs dc df earlier r
    | some f =>
      match parseFunctionAttributes [] f.attrs with
      | .error e => .error e
      | .ok _ => parseFile funcs (i :: dc) (i :: df) earlier r
  | dc, df, earlier, .pipe p :: r =>
    match parsePipeline (regAt funcs dc df) earlier p with
    | .error e => .error e
    | .ok d =>
      match parseFile funcs dc df (earlier ++ [p.name]) r with
      | .error e => .error e
      | .ok rest => .ok (d :: rest)

/-- the `Pipeline` blocks among the items -/
def itemPipes : List Item → List PipeSrc
  | [] => []
  | .pipe p :: r => p :: itemPipes r
  | _ :: r => itemPipes r

/-- the functions the items define -/
def itemDefs : List Item → List Nat
  | [] => []
  | .defn i :: r => i :: itemDefs r
  | _ :: r => itemDefs r

/-- the stage list `build_pipeline` walks -/
def stageDefs (p : PipeDef) : List StageDef := p.stages.map fun s => { stage := s.stage, entry := s.entry }

/-! ## names -/

/-- what the exporters' `NameMap::build` receives of a module: namespaces, structs, globals, functions (each list
    in registry order, with the enclosing namespace) -/
structure NameSrc where
  nss : List (Option Nat × String)
  structs : List (Option Nat × String)
  globals : List (Option Nat × String)
  funcs : List (Option Nat × String)
  deriving Repr, Inhabited

def number (k : Names.Kind) : List (Option Nat × String) → Nat → List Names.Entry
  | [], _ => []
  | (sc, n) :: r, i => { sym := ⟨k, i⟩, scope := sc, name := n } :: number k r (i + 1)

/-- push order of `build`: namespaces (separately), structs, (no enums here), globals, functions -/
def NameSrc.input (s : NameSrc) : Names.Input :=
  { nss := s.nss, entries := number .struct s.structs 0 ++ number .global s.globals 0 ++ number .func s.funcs 0,
    used := [], locals := [] }

/-- leaf name the map gives to a symbol (`get_name_leaf`; a missing symbol is a panic) -/
def leaf (names : List Names.Named) (k : Names.Kind) (i : Nat) : Except String String :=
  match Names.lookup names ⟨k, i⟩ with
  | some n => .ok n.name
  | none => .error "panic:No name for symbol"

/-- leaf names of symbols `0 .. n-1` of kind `k` -/
def leaves (names : List Names.Named) (k : Names.Kind) : Nat → Except String (List String)
  | 0 => .ok []
  | n + 1 =>
    match leaves names k n, leaf names k n with
    | .ok r, .ok x => .ok (r ++ [x])
    | .error e, _ => .error e
    | _, .error e => .error e

end RsslVerif.Model.MetaFront

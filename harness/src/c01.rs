//! C01: HLSL export preserves the meaning of every accepted program.
//!
//! request : C01.fn \t <source, one line> \t <function name> \t <argument vectors> \t <ctx> \t <ir>
//!   ctx   : `vars=<id>:<emitted name>:<type>,...;globs=<id>:<name>:<type>:<initial value>,...;funcs=<id>:<name>,...;target=<id>`
//!   ir    : s-expressions of every user function, ids resolved through the public registries
//!   args  : `v,v;v,v;...` one value per parameter (`b:1`, `i:0000002a`, `u:…`, `f:…`)
//!   (on `--requests` replay only source, function name and argument vectors are read; ctx and ir are recomputed)
//! observe : `ast <s-expression of the exporter's FunctionDefinition (hook verif_generate_ast)> ;; run <outcome per vector>`
//!           outcome = `r=<ret> p=<final params> g=<final globals>` of the harness's reference evaluation of the IR | `none`
//!           | `panic <category>` | `unsupported <node>` (outside the modelled subset)
//! oracle  : (independent of the Lean model) for both HLSL flavours the emitted *text* is re-parsed with the real
//!           parser and run by a C-semantics evaluator; return value, final out/inout parameters and final static globals
//!           must be bit-identical to the reference evaluation of the IR on every argument vector; the dx and vk syntax
//!           trees of the function must be equal; a panic of the exporter is a failure.
mod conv;
mod eval;
mod pairs;
mod protos;
mod declforms;
mod names;
mod pgen;
mod scopes;
mod stshapes;
mod sx;
mod vconv;
mod vgen;
mod vpairs;
mod virev;
mod vrun;
mod vstshapes;
mod enumops;
mod vtxev;
mod vval;

use crate::compile_util::*;
use crate::util::*;
use conv::*;
use eval::*;
use rssl::ir;
use sx::*;

fn unescape(s: &str) -> String {
    let mut o = String::new();
    let mut it = s.chars();
    while let Some(c) = it.next() {
        if c == '\\' {
            match it.next() {
                Some('n') => o.push('\n'),
                Some('t') => o.push('\t'),
                Some('r') => o.push('\r'),
                Some('\\') => o.push('\\'),
                Some(x) => {
                    o.push('\\');
                    o.push(x)
                }
                None => o.push('\\'),
            }
        } else {
            o.push(c);
        }
    }
    o
}

fn panic_category(p: &str) -> String {
    if p.contains("negate with overflow") {
        "negate-overflow".into()
    } else if p.contains("cannot represent") {
        "cannot-represent".into()
    } else if p.contains("assertion") {
        "assert".into()
    } else {
        "other".into()
    }
}

fn parse_text(text: &str) -> Result<rssl_ast::Module, String> {
    let mut sm = rssl::text::SourceManager::new();
    let mut inc = MemFiles(vec![("out.hlsl".to_string(), text.to_string())]);
    let tokens = rssl::preprocess::preprocess("out.hlsl", &mut sm, &mut inc, &[]).map_err(|_| "preprocess".to_string())?;
    let tokens = rssl::preprocess::prepare_tokens(&tokens);
    rssl::parser::parse(&tokens).map_err(|_| "parse".to_string())
}

fn arg_vectors(rng: &mut Rng, params: &[(u8, T)], n: usize) -> Vec<Vec<V>> {
    (0..n)
        .map(|k| {
            // vector 1: every float parameter is a NaN (the same one: `a == a`, `a <= a`, `!(a < b)`), vector 2: distinct
            // edge values; then mixed edge / random bits
            params
                .iter()
                .map(|(_, t)| {
                    let edge = k == 0 || rng.chance(2, 3);
                    let r = rng.next() as u32;
                    match t {
                        T::Bool => V::B(k != 0 && r & 1 == 1),
                        T::Int => V::I(if k == 0 { 0 } else if edge { *rng.pick(&INT_EDGES) } else { r }),
                        T::Uint => V::U(if k == 0 { 0 } else if edge { *rng.pick(&INT_EDGES) } else { r }),
                        T::Float => V::F(if k == 0 { 0 } else if k == 1 { 0x7fc0_0000 } else if edge { *rng.pick(&FLOAT_EDGES) } else { r }),
                        _ => V::Void,
                    }
                })
                .collect()
        })
        .collect()
}

fn show_vectors(vs: &[Vec<V>]) -> String {
    vs.iter().map(|v| v.iter().map(|x| x.show()).collect::<Vec<_>>().join(",")).collect::<Vec<_>>().join(";")
}

fn parse_vectors(s: &str) -> Option<Vec<Vec<V>>> {
    if s.is_empty() {
        return Some(vec![vec![]]);
    }
    s.split(';')
        .map(|v| if v.is_empty() { Some(vec![]) } else { v.split(',').map(V::parse).collect::<Option<Vec<V>>>() })
        .collect()
}

struct Prepared {
    ir: ir::Module,
    prog: Vec<Sx>,
    /// (function id, source name, emitted name)
    funcs: Vec<(u32, String, String)>,
    vars: String,
    globs: String,
    /// (global id, emitted name, initial value)
    globals: Vec<(u32, String, V)>,
    funcs_ctx: String,
}

fn prepare(src: &str, hist: &mut Hist) -> Result<Prepared, String> {
    let ir = match front_end_src(src) {
        Ok(m) => m,
        Err(e) => return Err(format!("front end ({}): {}", e.stage(), one_line(&e.text().chars().take(100).collect::<String>()))),
    };
    // the name map as the HLSL exporter builds it (`GenerateContext::new`: RESERVED_NAMES of hlsl/src/names.rs — a private
    // table, read from the source tree the harness was built from — and intrinsic names reserved)
    static RESERVED: std::sync::OnceLock<Vec<String>> = std::sync::OnceLock::new();
    let reserved = RESERVED.get_or_init(|| crate::c15::reserved_from_source("hlsl"));
    let reserved_refs: Vec<&str> = reserved.iter().map(|s| s.as_str()).collect();
    let names = ir::name_generator::NameMap::build(&ir, &reserved_refs, true);
    let mut cv = IrConv::new(&ir);
    let mut prog = Vec::new();
    let mut funcs = Vec::new();
    let mut global_ids = Vec::new();
    for rd in &ir.root_definitions {
        match rd {
            ir::RootDefinition::Function(id) => {
                if let Some(f) = cv.func(*id, hist) {
                    prog.push(f);
                    funcs.push((
                        id.0,
                        ir.function_registry.get_function_name(*id).to_string(),
                        names.get_name_leaf(ir::name_generator::NameSymbol::Function(*id)).to_string(),
                    ));
                }
            }
            ir::RootDefinition::GlobalVariable(id) => global_ids.push(*id),
            _ => {}
        }
    }
    let vars: Vec<String> = cv
        .vars
        .iter()
        .map(|v| {
            let id = ir::VariableId(*v);
            let lv = ir.variable_registry.get_local_variable(id);
            format!(
                "{}:{}:{}",
                v,
                names.get_name_leaf(ir::name_generator::NameSymbol::LocalVariable(id)),
                ir_type(&ir, lv.type_id).map(|t| t.name()).unwrap_or("unsupported")
            )
        })
        .collect();
    // static globals with their initial values (the initialiser evaluated by the reference IR semantics)
    let mut globals = Vec::new();
    let mut globs = Vec::new();
    let ev = IrEval::new(&[]);
    for id in global_ids {
        let g = &ir.global_registry[id.0 as usize];
        let name = names.get_name_leaf(ir::name_generator::NameSymbol::GlobalVariable(id)).to_string();
        let t = ir_type(&ir, g.type_id);
        let init = match &g.init {
            Some(ir::Initializer::Expression(e)) => {
                let sx = IrConv::new(&ir).expr(e, &mut Hist::default());
                ev.eval(&sx, &mut Default::default(), 1).unwrap_or(V::Void)
            }
            _ => V::Void,
        };
        globs.push(format!("{}:{}:{}:{}", id.0, name, t.map(|t| t.name()).unwrap_or("unsupported"), init.show()));
        globals.push((id.0, name, init));
    }
    let funcs_ctx = funcs.iter().map(|(i, _, n)| format!("{}:{}", i, n)).collect::<Vec<_>>().join(",");
    Ok(Prepared { ir, prog, funcs, vars: vars.join(","), globs: globs.join(","), globals, funcs_ctx })
}

/// `c ? (x = e) : f`: printed as `c ? x = e : f`, which is valid C/HLSL (the middle operand of `?:` is a full
/// expression) but which rssl's own parser rejects; that is a finding of C04/C09, and only deprives C01 of its text oracle
fn has_assignment_in_ternary_middle(e: &Sx) -> bool {
    if let Sx::L(items) = e {
        if e.head() == "tern" {
            let m = &e.args()[1];
            if m.head() == "op" && matches!(op_sem(m.args()[0].atom()), OpSem::Assign | OpSem::Compound(_)) {
                return true;
            }
        }
        return items.iter().any(has_assignment_in_ternary_middle);
    }
    false
}

/// `a < b || (T)c > d`: printed without parentheses (valid HLSL), but rssl's parser tries `<b || (T)c>` as a template
/// argument list followed by a cast-like `(…)` and gives up: again a C04/C09 finding that only removes the text oracle here
fn has_less_then_greater_with_cast(e: &Sx) -> bool {
    fn any_op(e: &Sx, pred: &dyn Fn(&Sx) -> bool) -> bool {
        if let Sx::L(items) = e {
            if e.head() == "op" && pred(e) {
                return true;
            }
            return items.iter().any(|i| any_op(i, pred));
        }
        false
    }
    let lt = |e: &Sx| matches!(e.args()[0].atom(), "LessThan" | "LeftShift" | "LeftShiftAssignment" | "LessEqual");
    let gt = |e: &Sx| {
        matches!(e.args()[0].atom(), "GreaterThan" | "RightShift" | "GreaterEqual" | "RightShiftAssignment")
            && e.args()[1..].iter().any(|x| x.head() == "cast")
    };
    any_op(e, &lt) && any_op(e, &gt)
}

/// an untyped integer constant outside +-u64::MAX somewhere in the function (`generate_literal` cannot write it)
fn has_unprintable_intlit(e: &Sx) -> bool {
    if let Sx::L(items) = e {
        if e.head() == "lit" && e.args().len() == 2 && e.args()[0].atom() == "intlit" {
            return match e.args()[1].atom().parse::<i128>() {
                Ok(v) => v > u64::MAX as i128 || v < -(u64::MAX as i128),
                Err(_) => true, // does not even fit i128's text form the serialiser wrote: certainly out of range
            };
        }
        return items.iter().any(has_unprintable_intlit);
    }
    false
}

/// all-literal operand lists of typed Int32 constants (the side condition `LitOK` of the theorems)
fn litok_violations(e: &Sx) -> u64 {
    let is_i32 = |x: &Sx| x.head() == "lit" && x.args()[0].atom() == "i32";
    let mut n = 0;
    if let Sx::L(items) = e {
        match e.head() {
            "op" if e.args().len() >= 2 && e.args()[1..].iter().all(is_i32) => n += 1,
            "tern" if is_i32(&e.args()[1]) && is_i32(&e.args()[2]) => n += 1,
            "seq" if e.args().last().map(is_i32).unwrap_or(false) => n += 1,
            _ => {}
        }
        for i in items {
            n += litok_violations(i);
        }
    }
    n
}

fn run_program(src: &str, only: Option<(&str, &[Vec<V>])>, nvec: usize, rng: &mut Rng, out: &mut Out, hist: &mut Hist) {
    let src1 = one_line(src);
    let p = match prepare(src, hist) {
        Ok(p) => p,
        Err(why) => {
            hist.add("skip:front-end");
            out.case(&format!("C01.fn\t{}\t-\t\t-\t-", src1), "skip", &format!("SKIP:{}", why));
            return;
        }
    };
    hist.add("programs");
    let prog_text = p.prog.iter().map(|f| f.show()).collect::<Vec<_>>().join(" ");
    let lv: u64 = p.prog.iter().map(litok_violations).sum();
    if lv > 0 {
        hist.add("litok-violating-programs");
    }
    // the exporter's trees (hook) and the emitted texts for both flavours
    let ast_dx = guard(|| rssl_hlsl::verif_generate_ast(&p.ir, false));
    let ast_vk = guard(|| rssl_hlsl::verif_generate_ast(&p.ir, true));
    let text_dx = compile_src(src, Tgt::Dx, Mode::NoPipeline);
    let text_vk = compile_src(src, Tgt::Vk, Mode::NoPipeline);
    let reparsed = |o: &CompileOutcome| -> Result<Vec<Sx>, String> {
        match o {
            CompileOutcome::Ok(ps) if ps.len() == 1 => parse_text(&ps[0].text())
                .map(|m| ast_module(&m))
                .and_then(|items| protos::merge(items).map_err(|e| format!("declarations: {}", e))),
            CompileOutcome::Ok(_) => Err("compile returned several outputs".into()),
            CompileOutcome::Err(e) => Err(format!("compile error {}", one_line(&e.chars().take(80).collect::<String>()))),
            CompileOutcome::Panic(p) => Err(format!("panic {}", p)),
        }
    };
    let re_dx = reparsed(&text_dx);
    let re_vk = reparsed(&text_vk);
    let ir_eval = IrEval::new(&p.prog);
    let global_names: Vec<String> = p.globals.iter().map(|g| g.1.clone()).collect();
    let global_vals: Vec<(u32, V)> = p.globals.iter().map(|g| (g.0, g.2)).collect();

    for (fi, (fid, src_name, emitted)) in p.funcs.iter().enumerate() {
        if let Some((want, _)) = only {
            if want != src_name {
                continue;
            }
        }
        let f = &p.prog[fi];
        let params: Vec<(u8, T)> = f.args()[2]
            .args()
            .iter()
            .map(|q| {
                (
                    match q.args()[1].atom() {
                        "out" => 1u8,
                        "inout" => 2u8,
                        _ => 0u8,
                    },
                    T::parse(q.args()[2].atom()).unwrap_or(T::Void),
                )
            })
            .collect();
        let vectors: Vec<Vec<V>> = match only {
            Some((_, v)) => v.to_vec(),
            None => arg_vectors(rng, &params, nvec),
        };
        let req = format!(
            "C01.fn\t{}\t{}\t{}\tvars={};globs={};funcs={};target={}\t{}",
            src1,
            src_name,
            show_vectors(&vectors),
            p.vars,
            p.globs,
            p.funcs_ctx,
            fid,
            prog_text
        );
        let unsupported = p.prog.iter().any(|g| g.contains_head("unsupported")) || p.vars.contains("unsupported") || p.globs.contains("unsupported");
        let mut fails: Vec<String> = Vec::new();
        let mut refused_ok = false;
        // ---- observation: exporter tree + reference evaluation of the IR
        let find_fn = |m: &rssl_ast::Module| -> Option<Sx> {
            m.root_definitions.iter().find_map(|rd| match rd {
                // the definition, not a prototype of the same name (prototypes are judged on the re-parsed text: protos.rs)
                rssl_ast::RootDefinition::Function(fd) if &fd.name.node == emitted && fd.body.is_some() => Some(ast_func(fd)),
                _ => None,
            })
        };
        let ir_results: Vec<Option<Outcome>> = vectors.iter().map(|v| ir_eval.run(*fid, v, &global_vals)).collect();
        let run_text = ir_results.iter().map(show_outcome).collect::<Vec<_>>().join(" | ");
        let obs = match (&ast_dx, &ast_vk) {
            (Ok(Ok(mdx)), Ok(Ok(mvk))) => match (find_fn(mdx), find_fn(mvk)) {
                (Some(a1), Some(a2)) => {
                    if a1 != a2 {
                        fails.push(format!("dx and vk syntax trees of {} differ", emitted));
                    }
                    if unsupported { "unsupported".to_string() } else { format!("ast {} ;; run {}", a1.show(), run_text) }
                }
                _ => {
                    fails.push(format!("function {} missing from the exported module", emitted));
                    "missing".to_string()
                }
            },
            (Err(pn), _) | (_, Err(pn)) => {
                fails.push(format!("panic {}", pn));
                format!("panic {}", panic_category(pn))
            }
            _ => {
                // the exporter returned Err(GenerateError) without panicking.  The only refusal that is justified for a program
                // of the subset: `IntLiteralOutOfRange` (fix 6017bad) for a module that really contains an untyped integer
                // constant beyond +-u64::MAX (no literal can spell it), from both flavours, and reported by the public
                // compile() as an error for both; nothing is emitted, so no meaning can change.  Anything else fails.
                let why = |r: &Result<Result<rssl_ast::Module, rssl_hlsl::ExportError>, String>| match r {
                    Ok(Err(rssl_hlsl::ExportError::GenerateError(e))) => format!("{:?}", e),
                    Ok(Err(e)) => format!("{:?}", e),
                    _ => "-".to_string(),
                };
                let (e1, e2) = (why(&ast_dx), why(&ast_vk));
                let refused = |o: &CompileOutcome| matches!(o, CompileOutcome::Err(_));
                if e1 == "IntLiteralOutOfRange" && e2 == e1 && p.prog.iter().any(has_unprintable_intlit) && refused(&text_dx) && refused(&text_vk) {
                    hist.add("export-refused:IntLiteralOutOfRange");
                    refused_ok = true;
                } else if e1 == "FunctionNotDefined" && e2 == e1 && protos::has_undefined_declaration(&p.ir) && refused(&text_dx) && refused(&text_vk) {
                    // a declared function (or an instantiation of a declared function template) has no implementation in
                    // the typed module: both flavours refuse, compile() reports an error, nothing is emitted
                    hist.add("export-refused:FunctionNotDefined");
                    refused_ok = true;
                } else {
                    fails.push(format!("generate error dx={} vk={}", e1, e2));
                }
                "generate-error".to_string()
            }
        };
        // ---- statement attributes (hints without meaning; both evaluators ignore them): the exporter keeps every attribute
        // on the same statement, in the same order
        if let (Ok(Ok(mdx)), Ok(Ok(mvk))) = (&ast_dx, &ast_vk) {
            let mut want = Vec::new();
            if let Some(imp) = p.ir.function_registry.get_function_implementation(ir::FunctionId(*fid)).as_ref() {
                ir_stmt_attrs(&imp.scope_block, &mut want);
            }
            for (flav, m) in [("dx", mdx), ("vk", mvk)] {
                let mut got = Vec::new();
                for rd in &m.root_definitions {
                    if let rssl_ast::RootDefinition::Function(fd) = rd {
                        if &fd.name.node == emitted {
                            if let Some(b) = &fd.body {
                                b.iter().for_each(|st| ast_stmt_attrs(st, &mut got));
                            }
                        }
                    }
                }
                if !want.is_empty() {
                    hist.add("fn:with-statement-attributes");
                }
                if got != want && fails.is_empty() {
                    fails.push(format!("{}: statement attributes of {} differ: IR [{}] exported [{}]", flav, emitted, want.join(" "), got.join(" ")));
                }
            }
        }
        // ---- oracle: emitted text, re-parsed, under C semantics == IR under typed semantics
        let mut skip_text = false;
        if fails.is_empty() && !unsupported && !refused_ok {
            for (flav, re) in [("dx", &re_dx), ("vk", &re_vk)] {
                match re {
                    Err(e) if e == "parse" && p.prog.iter().any(has_assignment_in_ternary_middle) => {
                        hist.add("text-not-reparsable-by-rssl(ternary-middle-assignment)");
                        skip_text = true;
                    }
                    Err(e) if e == "parse" && p.prog.iter().any(has_less_then_greater_with_cast) => {
                        hist.add("text-not-reparsable-by-rssl(less-than … cast greater-than)");
                        skip_text = true;
                    }
                    Err(e) => fails.push(format!("{}: emitted text unusable: {}", flav, e)),
                    Ok(items) => {
                        if items.iter().any(|i| i.contains_head("unsupported")) {
                            hist.add("text-unsupported");
                            continue;
                        }
                        // C block scoping: every identifier denotes the innermost declaration in scope (scopes.rs)
                        let items = &match scopes::resolve_module(items) {
                            Ok(r) => r,
                            Err(why) => {
                                fails.push(format!("{}: emitted text: {}", flav, why));
                                continue;
                            }
                        };
                        if flav == "dx" && scopes::renamed_any(items) {
                            hist.add("fn:text-with-shadowing-or-reused-names");
                        }
                        let ae = AstEval::new(items);
                        // initial values of the globals must agree as well
                        match ae.init_globals() {
                            Some(gl) => {
                                for (_, n, v) in &p.globals {
                                    if gl.get(n).copied().unwrap_or(V::Void) != *v {
                                        fails.push(format!("{}: initial value of static {} differs", flav, n));
                                    }
                                }
                            }
                            None => fails.push(format!("{}: global initialisers do not evaluate", flav)),
                        }
                        for (v, want) in vectors.iter().zip(&ir_results) {
                            take_why();
                            let _ = ir_eval.run(*fid, v, &global_vals);
                            let why_ir = take_why();
                            let got = ae.run(emitted, v, &global_names);
                            let why_text = take_why();
                            hist.add(if want.is_some() { "vector:defined" } else { "vector:none" });
                            // where the reference evaluation of the IR is itself undefined (stuck on something the
                            // reference semantics does not define, or out of fuel) there is nothing to compare with
                            if want.is_some() && &got != want {
                                fails.push(format!(
                                    "{}: args [{}]: IR gives {} but emitted text gives {} (stuck at: {}{})",
                                    flav,
                                    v.iter().map(|x| x.show()).collect::<Vec<_>>().join(","),
                                    show_outcome(want),
                                    show_outcome(&got),
                                    why_ir,
                                    why_text
                                ));
                                break;
                            }
                        }
                    }
                }
            }
        }
        hist.add(if unsupported { "fn:unsupported" } else { "fn:supported" });
        let oracle = if !fails.is_empty() {
            format!("FAIL:{}", fails[0])
        } else if refused_ok {
            "ok(export refused — IntLiteralOutOfRange: the module has an integer constant no literal can spell, or FunctionNotDefined: a declared function has no definition; nothing is emitted)".to_string()
        } else if skip_text {
            "ok(text oracle not available: rssl cannot re-parse its own output here, see notes)".to_string()
        } else {
            "ok".to_string()
        };
        out.case(&req, &obs, &oracle);
    }
}

/// `C01.prim`: the concrete primitive interpretation (sx.rs) on edge values; the Lean model answers with its own
/// (Driver/C01 `concretePrim`, bit-level IEEE in Model/Ieee.lean).  Oracle: the laws IEEE-754 does give — with a NaN operand
/// only `!=` holds; otherwise exactly one of `<`, `==`, `>`, and `<=`, `>=`, `!=` follow; conversions: NaN -> 0, negative ->
/// 0u, int -> float -> int is the identity up to 2^24, `(bool)x` is `x != 0`
fn run_prim(kind: &str, fields: &[&str], out: &mut Out, hist: &mut Hist) {
    let hexes = |t: &str| -> Vec<u32> { t.split(',').filter_map(|w| u32::from_str_radix(w, 16).ok()).collect() };
    let is_nan = |x: u32| (x & 0x7fff_ffff) > 0x7f80_0000;
    match kind {
        "cmp" if fields.len() == 2 => {
            let a = u32::from_str_radix(fields[0], 16).unwrap_or(0);
            let bs = hexes(fields[1]);
            let mut obs = Vec::new();
            let mut bad = None;
            for b in &bs {
                let r: Vec<bool> = [MBin::Lt, MBin::Le, MBin::Gt, MBin::Ge, MBin::Eq, MBin::Ne].iter().map(|m| fcmp(*m, a, *b)).collect();
                let (lt, le, gt, ge, eq, ne) = (r[0], r[1], r[2], r[3], r[4], r[5]);
                let ok = if is_nan(a) || is_nan(*b) {
                    hist.add("prim:cmp-unordered");
                    !lt && !le && !gt && !ge && !eq && ne
                } else {
                    hist.add("prim:cmp-ordered");
                    (lt as u8 + eq as u8 + gt as u8) == 1 && le == (lt || eq) && ge == (gt || eq) && ne == !eq
                };
                if !ok && bad.is_none() {
                    bad = Some(format!("comparison laws fail for {:08x} {:08x}", a, b));
                }
                obs.push(r.iter().map(|x| if *x { '1' } else { '0' }).collect::<String>());
            }
            let oracle = bad.map(|b| format!("FAIL:{}", b)).unwrap_or_else(|| "ok".to_string());
            out.case(&format!("C01.prim\tcmp\t{}\t{}", fields[0], fields[1]), &obs.join(" "), &oracle);
        }
        "conv" if fields.len() == 1 => {
            let xs = hexes(fields[0]);
            let mut obs = Vec::new();
            let mut bad = None;
            for x in &xs {
                hist.add("prim:conv");
                let (a, b, c, d, e) = (i2f(*x), u2f(*x), f2i(*x), f2u(*x), f2b(*x));
                let small = (*x as i32).unsigned_abs() <= (1 << 24);
                let ok = (!is_nan(*x) || (c == 0 && d == 0 && e))
                    && (!small || f2i(a) == *x)
                    && (*x > (1 << 24) || f2u(b) == *x)
                    && (is_nan(*x) || *x & 0x8000_0000 == 0 || d == 0)
                    && e == ((*x & 0x7fff_ffff) != 0)
                    && !is_nan(a) && !is_nan(b);
                if !ok && bad.is_none() {
                    bad = Some(format!("conversion laws fail for {:08x}", x));
                }
                obs.push(format!("{:08x},{:08x},{:08x},{:08x},{}", a, b, c, d, e as u8));
            }
            let oracle = bad.map(|b| format!("FAIL:{}", b)).unwrap_or_else(|| "ok".to_string());
            out.case(&format!("C01.prim\tconv\t{}", fields[0]), &obs.join(" "), &oracle);
        }
        _ => {}
    }
}

fn prim_stream(rng: &mut Rng, out: &mut Out, hist: &mut Hist) {
    let mut fl: Vec<u32> = FLOAT_EDGES.to_vec();
    // neighbours of the conversion limits and of the rounding boundaries, then random bits
    fl.extend([0x4eff_fffe, 0x4f00_0001, 0xceff_ffff, 0x4f7f_fffe, 0x4f80_0001, 0x3f7f_ffff, 0xbf7f_ffff, 0x3f80_0001, 0x4b00_0000, 0x4b7f_ffff, 0x4a80_0001, 0x7f80_0002, 0xff80_0001]);
    for _ in 0..24 {
        fl.push(rng.next() as u32);
    }
    let bs = fl.iter().map(|b| format!("{:08x}", b)).collect::<Vec<_>>().join(",");
    for a in &fl {
        run_prim("cmp", &[&format!("{:08x}", a), &bs], out, hist);
    }
    let mut xs: Vec<u32> = fl.clone();
    xs.extend(INT_EDGES);
    // integers around every rounding boundary of int -> float: 2^p + {0, 1, half, half +- 1} for p = 24..31
    for p in 24..32u32 {
        let base = 1u32 << p;
        let half = 1u32 << (p - 24);
        for d in [0, 1, half, half.wrapping_sub(1), half + 1, half * 2, half * 3, half * 3 - 1, half * 3 + 1] {
            xs.push(base.wrapping_add(d));
            xs.push(base.wrapping_add(d).wrapping_neg());
            xs.push(base.wrapping_sub(d));
        }
    }
    for _ in 0..64 {
        xs.push(rng.next() as u32);
    }
    for chunk in xs.chunks(40) {
        run_prim("conv", &[&chunk.iter().map(|b| format!("{:08x}", b)).collect::<Vec<_>>().join(",")], out, hist);
    }
}

pub fn run(args: &Args, out: &mut Out) {
    let mut hist = Hist::default();
    if args.extra.first().map(|s| s.as_str()) == Some("vgen") {
        // debugging aid: harness c01 vgen K  -> prints the K-th generated program of the vector stream
        let k: u64 = args.extra.get(1).and_then(|s| s.parse().ok()).unwrap_or(0);
        println!("{}", vrun::vprogram(args.seed, k));
        return;
    }
    if args.extra.first().map(|s| s.as_str()) == Some("vdump") {
        // debugging aid: harness c01 vdump FILE
        vrun::vdump(&std::fs::read_to_string(&args.extra[1]).unwrap_or_default());
        return;
    }
    if args.extra.first().map(|s| s.as_str()) == Some("dump") {
        // debugging aid: harness c01 dump FILE
        let src = std::fs::read_to_string(&args.extra[1]).unwrap_or_default();
        match prepare(&src, &mut hist) {
            Ok(p) => {
                for f in &p.prog {
                    println!("IR  {}", f.show());
                }
                for t in [Tgt::Dx, Tgt::Vk] {
                    if let CompileOutcome::Ok(ps) = compile_src(&src, t, Mode::NoPipeline) {
                        println!("TEXT {}\n{}", t.name(), ps[0].text());
                        match parse_text(&ps[0].text()) {
                            Ok(m) => {
                                for i in ast_module(&m) {
                                    println!("AST {}", i.show());
                                }
                            }
                            Err(e) => println!("reparse failed: {}", e),
                        }
                    }
                }
            }
            Err(e) => println!("{}", e),
        }
        return;
    }
    if let Some(lines) = args.request_lines() {
        for line in lines {
            let f: Vec<&str> = line.split('\t').collect();
            if f.len() >= 4 && (f[0] == "C01.vfn" || f[0] == "C01.vex") {
                let src = unescape(f[1]);
                let vecs = vrun::parse_vvectors(f[3]).unwrap_or_else(|| vec![vec![]]);
                let mut rng = Rng::new(1);
                let run = if f[0] == "C01.vex" { vrun::vex_program } else { vrun::vrun_program };
                if f[2] == "-" {
                    run(&src, None, 3, &mut rng, out, &mut hist);
                } else {
                    run(&src, Some((f[2], &vecs)), vecs.len(), &mut rng, out, &mut hist);
                }
                continue;
            }
            if f.len() >= 3 && f[0] == "C01.prim" {
                run_prim(f[1], &f[2..], out, &mut hist);
                continue;
            }
            if f.len() < 4 || f[0] != "C01.fn" {
                continue;
            }
            let src = unescape(f[1]);
            let vecs = parse_vectors(f[3]).unwrap_or_else(|| vec![vec![]]);
            let mut rng = Rng::new(1);
            if f[2] == "-" {
                run_program(&src, None, 3, &mut rng, out, &mut hist);
            } else {
                run_program(&src, Some((f[2], &vecs)), vecs.len(), &mut rng, out, &mut hist);
            }
        }
        out.stat(&format!("{{\"mode\":\"replay\",\"hist\":{}}}", hist.json()));
        return;
    }
    let n = args.n.unwrap_or(if args.thorough() { 6000 } else { 300 });
    let nvec = if args.thorough() { 8 } else { 8 };
    // the concrete primitives themselves, harness against model (every tier, first)
    prim_stream(&mut Rng::new(args.seed ^ 0x9121), out, &mut hist);
    let mut rng = Rng::new(args.seed);
    for k in 0..n {
        let mut prng = rng.fork();
        let opts = pgen::GenOpts { floats: k % 3 != 0, calls: true, max_depth: 1 + (k % 3) as u32 };
        let mut src = pgen::Gen::new(&mut prng, opts).program();
        // declaration forms: every third program gets prototypes / definitions moved behind their uses (declforms.rs)
        if k % 3 == 1 {
            let (s2, np) = declforms::protoize(&src, &mut Rng::new(args.seed ^ k.wrapping_mul(0x9E37_79B9_7F4A_7C15) ^ 0x70726f74));
            if np > 0 {
                hist.add("programs-with-prototypes");
                src = s2;
            }
        }
        let mut arng = rng.fork();
        if let Err(pn) = guard(|| run_program(&src, None, nvec, &mut arng, out, &mut hist)) {
            // a panic inside the harness itself (not under a guard of the real code): report, never hide
            hist.add("harness-panic");
            out.case(&format!("C01.fn\t{}\t-\t\t-\t-", one_line(&src)), "harness-panic", &format!("SKIP:harness panic {}", pn));
        }
    }
    // exhaustive nesting shapes of the vector syntax (every tier)
    {
        let grid = vrun::parse_vvectors(&vpairs::grid_text()).unwrap_or_default();
        for (shape, src) in vpairs::stream() {
            let before = out.oracle_fail;
            let mut arng = Rng::new(1);
            let mut h2 = Hist::default();
            if let Err(pn) = guard(|| vrun::vrun_program(&src, Some(("f1", &grid)), grid.len(), &mut arng, out, &mut h2)) {
                hist.add("harness-panic");
                out.case(&format!("C01.vfn\t{}\tf1\t{}\t-\t-", one_line(&src), vpairs::grid_text()), "harness-panic", &format!("SKIP:harness panic {}", pn));
            }
            hist.add("vshape");
            if h2.0.contains_key("v:skip:front-end") {
                hist.add(&format!("vshape-rejected-by-front-end:{}", shape));
            }
            if h2.0.keys().any(|k| k.starts_with("v:text-unsupported") || k.starts_with("v:unsupported")) {
                hist.add(&format!("vshape-unsupported:{}", shape));
            }
            if out.oracle_fail > before {
                hist.add(&format!("vshape-oracle-fail:{}", shape));
            }
        }
    }
    // statement shapes under comparisons of float vector components, vectors with NaN / zeros / infinities (every tier)
    {
        let grid = vrun::parse_vvectors(&vstshapes::grid_text()).unwrap_or_default();
        for (shape, src) in vstshapes::stream() {
            let before = out.oracle_fail;
            let mut arng = Rng::new(1);
            let mut h2 = Hist::default();
            if let Err(pn) = guard(|| vrun::vrun_program(&src, Some(("f1", &grid)), grid.len(), &mut arng, out, &mut h2)) {
                hist.add("harness-panic");
                out.case(&format!("C01.vfn\t{}\tf1\t{}\t-\t-", one_line(&src), vstshapes::grid_text()), "harness-panic", &format!("SKIP:harness panic {}", pn));
            }
            hist.add("vstshape");
            if h2.0.contains_key("v:skip:front-end") {
                hist.add(&format!("vstshape-rejected-by-front-end:{}", shape));
            }
            if h2.0.keys().any(|k| k.starts_with("v:text-unsupported") || k.starts_with("v:unsupported")) {
                hist.add(&format!("vstshape-unsupported:{}", shape));
            }
            if h2.0.contains_key("v:vector:none") {
                hist.add(&format!("vstshape-some-vector-undefined:{}", shape));
            }
            if out.oracle_fail > before {
                hist.add(&format!("vstshape-oracle-fail:{}", shape));
            }
        }
    }
    // enum operands of binary operations: done in the enum's underlying type since fix 80dd7f9 (every tier)
    {
        let grid = vrun::parse_vvectors(&enumops::grid_text()).unwrap_or_default();
        for (shape, src) in enumops::stream() {
            let before = out.oracle_fail;
            let mut arng = Rng::new(1);
            let mut h2 = Hist::default();
            if let Err(pn) = guard(|| vrun::vrun_program(&src, Some(("f1", &grid)), grid.len(), &mut arng, out, &mut h2)) {
                hist.add("harness-panic");
                out.case(&format!("C01.vfn\t{}\tf1\t{}\t-\t-", one_line(&src), enumops::grid_text()), "harness-panic", &format!("SKIP:harness panic {}", pn));
            }
            hist.add("enumop");
            if h2.0.contains_key("v:skip:front-end") {
                hist.add(&format!("enumop-rejected-by-front-end:{}", shape));
            }
            if h2.0.keys().any(|k| k.starts_with("v:text-unsupported") || k.starts_with("v:unsupported")) {
                hist.add(&format!("enumop-unsupported:{}", shape));
            }
            if h2.0.contains_key("v:vector:none") {
                hist.add(&format!("enumop-some-vector-undefined:{}", shape));
            }
            if out.oracle_fail > before {
                hist.add(&format!("enumop-oracle-fail:{}", shape));
            }
        }
    }
    // declaration forms (every tier): prototypes in every order / repeated / of the tested function / in namespaces / of
    // overloads and templates, defaults with prototypes around, value template parameters, precise, 4-column matrices
    {
        let grid_text = declforms::grid_text();
        let grid = parse_vectors(&grid_text).unwrap_or_default();
        for (shape, src) in declforms::scalar_stream() {
            let before = out.oracle_fail;
            let mut arng = Rng::new(1);
            let mut h2 = Hist::default();
            if let Err(pn) = guard(|| run_program(&src, Some(("f1", &grid)), grid.len(), &mut arng, out, &mut h2)) {
                hist.add("harness-panic");
                out.case(&format!("C01.fn\t{}\tf1\t{}\t-\t-", one_line(&src), grid_text), "harness-panic", &format!("SKIP:harness panic {}", pn));
            }
            hist.add("declform");
            if h2.0.contains_key("skip:front-end") {
                hist.add(&format!("declform-rejected-by-front-end:{}", shape));
            }
            if h2.0.contains_key("fn:unsupported") {
                hist.add(&format!("declform-unsupported:{}", shape));
            }
            if h2.0.keys().any(|k| k.starts_with("text-not-reparsable") || k.starts_with("text-unsupported")) {
                hist.add(&format!("declform-text-not-evaluated:{}", shape));
            }
            if h2.0.contains_key("vector:none") {
                hist.add(&format!("declform-some-vector-undefined:{}", shape));
            }
            if out.oracle_fail > before {
                hist.add(&format!("declform-oracle-fail:{}", shape));
            }
        }
        let vgrid = vrun::parse_vvectors(&grid_text).unwrap_or_default();
        for (shape, src) in declforms::vector_stream() {
            let before = out.oracle_fail;
            let mut arng = Rng::new(1);
            let mut h2 = Hist::default();
            if let Err(pn) = guard(|| vrun::vrun_program(&src, Some(("f1", &vgrid)), vgrid.len(), &mut arng, out, &mut h2)) {
                hist.add("harness-panic");
                out.case(&format!("C01.vfn\t{}\tf1\t{}\t-\t-", one_line(&src), grid_text), "harness-panic", &format!("SKIP:harness panic {}", pn));
            }
            hist.add("vdeclform");
            if h2.0.contains_key("v:skip:front-end") {
                hist.add(&format!("vdeclform-rejected-by-front-end:{}", shape));
            }
            for k in h2.0.keys() {
                if k.starts_with("v:text-unsupported") || k.starts_with("v:unsupported") {
                    hist.add(&format!("vdeclform-unsupported:{}:{}", shape, k));
                }
            }
            if h2.0.contains_key("v:vector:none") {
                hist.add(&format!("vdeclform-some-vector-undefined:{}", shape));
            }
            if out.oracle_fail > before {
                hist.add(&format!("vdeclform-oracle-fail:{}", shape));
            }
        }
    }
    // vector / struct / array / enum stream (C01.vfn): the Lean model answers `unsupported-op`, the two Rust evaluators judge
    let nv = if args.n.is_some() { n } else if args.thorough() { 4000 } else { 250 };
    for k in 0..nv {
        let mut src = vrun::vprogram(args.seed, k);
        if k % 3 == 2 {
            let (s2, np) = declforms::protoize(&src, &mut Rng::new(args.seed ^ k.wrapping_mul(0x9E37_79B9_7F4A_7C15) ^ 0x70726f74));
            if np > 0 {
                hist.add("v:programs-with-prototypes");
                src = s2;
            }
        }
        let mut arng = Rng::new(args.seed ^ (k.wrapping_mul(0x9E37_79B9_7F4A_7C15)) ^ 0x5eed);
        if let Err(pn) = guard(|| vrun::vrun_program(&src, None, 6, &mut arng, out, &mut hist)) {
            hist.add("harness-panic");
            out.case(&format!("C01.vfn\t{}\t-\t\t-\t-", one_line(&src)), "harness-panic", &format!("SKIP:harness panic {}", pn));
        }
    }
    // expression functions of the Lean vector layer (C01.vex): model tree / values compared, oracle as above
    let nx = if args.n.is_some() { n } else if args.thorough() { 4000 } else { 400 };
    for k in 0..nx {
        let src = vrun::vex_source(args.seed, k);
        let mut arng = Rng::new(args.seed ^ (k.wrapping_mul(0x9E37_79B9_7F4A_7C15)) ^ 0x7e8);
        if let Err(pn) = guard(|| vrun::vex_program(&src, None, 6, &mut arng, out, &mut hist)) {
            hist.add("harness-panic");
            out.case(&format!("C01.vex\t{}\t-\t\t-\t-", one_line(&src)), "harness-panic", &format!("SKIP:harness panic {}", pn));
        }
    }
    // exhaustive operator-nesting shapes (every tier): one tiny function per program, fixed argument grid
    let grid = parse_vectors(&pairs::grid_text()).unwrap_or_default();
    let shapes = pairs::stream();
    let mut nshapes = 0u64;
    for (shape, src) in &shapes {
        nshapes += 1;
        let before = out.oracle_fail;
        let mut arng = Rng::new(1);
        let mut h2 = Hist::default();
        if let Err(pn) = guard(|| run_program(src, Some(("f1", &grid)), grid.len(), &mut arng, out, &mut h2)) {
            hist.add("harness-panic");
            out.case(&format!("C01.fn\t{}\tf1\t{}\t-\t-", one_line(src), pairs::grid_text()), "harness-panic", &format!("SKIP:harness panic {}", pn));
        }
        hist.add(&format!("shape:{}", shape));
        if h2.0.contains_key("skip:front-end") {
            hist.add(&format!("shape-rejected-by-front-end:{}", shape));
        }
        if h2.0.keys().any(|k| k.starts_with("text-not-reparsable")) {
            hist.add(&format!("shape-text-not-reparsable:{}", shape));
        }
        if out.oracle_fail > before {
            hist.add(&format!("shape-oracle-fail:{}", shape));
        }
    }
    // exhaustive statement shapes under float comparisons, on a grid with NaN / zeros / infinities (every tier)
    for (shape, src, grid_text) in stshapes::stream() {
        nshapes += 1;
        let grid = parse_vectors(&grid_text).unwrap_or_default();
        let before = out.oracle_fail;
        let mut arng = Rng::new(1);
        let mut h2 = Hist::default();
        if let Err(pn) = guard(|| run_program(&src, Some(("f1", &grid)), grid.len(), &mut arng, out, &mut h2)) {
            hist.add("harness-panic");
            out.case(&format!("C01.fn\t{}\tf1\t{}\t-\t-", one_line(&src), grid_text), "harness-panic", &format!("SKIP:harness panic {}", pn));
        }
        let kind = shape.split(|c| c == '[' || c == ':').next().unwrap_or("").to_string();
        hist.add(&format!("stshape:{}", kind));
        if h2.0.contains_key("skip:front-end") {
            hist.add(&format!("stshape-rejected-by-front-end:{}", shape));
        }
        if h2.0.contains_key("fn:unsupported") {
            hist.add(&format!("stshape-unsupported:{}", shape));
        }
        if h2.0.keys().any(|k| k.starts_with("text-not-reparsable") || k.starts_with("text-unsupported")) {
            hist.add(&format!("stshape-text-not-evaluated:{}", shape));
        }
        if out.oracle_fail > before {
            hist.add(&format!("stshape-oracle-fail:{}", shape));
        }
        for (k, v) in &h2.0 {
            if k.starts_with("stmt-attr:") || k == "fn:with-statement-attributes" || k.starts_with("vector:") {
                for _ in 0..*v {
                    hist.add(&format!("st:{}", k));
                }
            }
        }
    }
    // name hygiene (every tier): locals / parameters that the name map must rename next to `<name>_<k>` source names, in
    // nested scopes, with earlier functions consuming the first indices; then random modules over one small name pool
    {
        let grid_text = names::grid_text();
        let grid = parse_vectors(&grid_text).unwrap_or_default();
        for (shape, src) in names::stream() {
            nshapes += 1;
            let before = out.oracle_fail;
            let mut arng = Rng::new(1);
            let mut h2 = Hist::default();
            if let Err(pn) = guard(|| run_program(&src, Some(("f1", &grid)), grid.len(), &mut arng, out, &mut h2)) {
                hist.add("harness-panic");
                out.case(&format!("C01.fn\t{}\tf1\t{}\t-\t-", one_line(&src), grid_text), "harness-panic", &format!("SKIP:harness panic {}", pn));
            }
            let kind = shape.split(':').next().unwrap_or("").to_string();
            hist.add(&format!("nshape:{}", kind));
            if h2.0.contains_key("skip:front-end") {
                hist.add(&format!("nshape-rejected-by-front-end:{}", shape));
            }
            if h2.0.contains_key("fn:unsupported") {
                hist.add(&format!("nshape-unsupported:{}", shape));
            }
            if h2.0.contains_key("vector:none") {
                hist.add(&format!("nshape-some-vector-undefined:{}", shape));
            }
            if h2.0.contains_key("fn:text-with-shadowing-or-reused-names") {
                hist.add("nshape:text-with-shadowing-or-reused-names");
            }
            if out.oracle_fail > before {
                hist.add(&format!("nshape-oracle-fail:{}", shape));
            }
        }
        // usage positions (seeded mutant C01-5): the only reference to a global / function of the module at every syntactic
        // position the usage analysis visits, inside the scope of a local that takes the symbol's name unless it is reported used
        let vgrid = vrun::parse_vvectors(&names::vgrid_text()).unwrap_or_default();
        for (shape, src, vector) in names::usage_stream() {
            nshapes += 1;
            let before = out.oracle_fail;
            let mut arng = Rng::new(1);
            let mut h2 = Hist::default();
            let r = if vector {
                guard(|| vrun::vrun_program(&src, Some(("f1", &vgrid)), vgrid.len(), &mut arng, out, &mut h2))
            } else {
                guard(|| run_program(&src, Some(("f1", &grid)), grid.len(), &mut arng, out, &mut h2))
            };
            if let Err(pn) = r {
                hist.add("harness-panic");
                out.case(&format!("{}\t{}\tf1\t{}\t-\t-", if vector { "C01.vfn" } else { "C01.fn" }, one_line(&src), grid_text), "harness-panic", &format!("SKIP:harness panic {}", pn));
            }
            let mut it = shape.split(':');
            let (form, code) = (it.next().unwrap_or(""), it.next().unwrap_or(""));
            hist.add(&format!("ushape:{}:{}", form, code));
            hist.add(if vector { "ushape-stream:vfn" } else { "ushape-stream:fn" });
            if h2.0.contains_key("skip:front-end") || h2.0.contains_key("v:skip:front-end") {
                hist.add(&format!("ushape-rejected-by-front-end:{}", shape));
            }
            if h2.0.contains_key("fn:unsupported") || h2.0.keys().any(|k| k.starts_with("v:text-unsupported") || k.starts_with("v:unsupported") || k.starts_with("text-")) {
                hist.add(&format!("ushape-unsupported:{}", shape));
            }
            if h2.0.contains_key("vector:none") || h2.0.contains_key("v:vector:none") {
                hist.add(&format!("ushape-some-vector-undefined:{}", shape));
            }
            if out.oracle_fail > before {
                hist.add(&format!("ushape-oracle-fail:{}", shape));
            }
        }
        let nm = if args.n.is_some() { n } else if args.thorough() { 3000 } else { 200 };
        let mut nrng = Rng::new(args.seed ^ 0x4a3e_5eed);
        for _ in 0..nm {
            let mut prng = nrng.fork();
            let src = names::random_module(&mut prng);
            let mut arng = nrng.fork();
            let mut h2 = Hist::default();
            if let Err(pn) = guard(|| run_program(&src, None, 4, &mut arng, out, &mut h2)) {
                hist.add("harness-panic");
                out.case(&format!("C01.fn\t{}\t-\t\t-\t-", one_line(&src)), "harness-panic", &format!("SKIP:harness panic {}", pn));
            }
            hist.add("nmodule");
            for (k, v) in &h2.0 {
                if k == "skip:front-end" || k.starts_with("fn:") || k.starts_with("vector:") || k.starts_with("text-") {
                    for _ in 0..*v {
                        hist.add(&format!("nm:{}", k));
                    }
                }
            }
        }
    }
    out.stat(&format!("{{\"programs\":{},\"shapes\":{},\"hist\":{}}}", n, nshapes, hist.json()));
}

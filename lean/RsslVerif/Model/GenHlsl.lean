import RsslVerif.Gen.HlslGenTables
import RsslVerif.Model.Ir
import RsslVerif.Model.HlslAst
/-!
# `Model.GenHlsl` — model of `hlsl/src/ast_generate.rs` for the scalar subset

`genLiteral` ↔ `generate_literal` (driven by the re-extracted arm table `literalArms`),
`genExpr`/`genArgs`/`genSeq` ↔ `generate_expression` (+ `generate_intrinsic_op` through `opForm`,
`generate_user_call` for free functions, `generate_invocation_args`),
`genStmt`/`genStmts` ↔ `generate_statement`/`generate_scope_block`, `genForInit` ↔ `generate_for_init`,
`genVarDef` ↔ `generate_variable_definition` (local storage, scalar type, `Initializer::Expression`).
Every Rust panic inside these functions is an explicit `Except.error (.panic …)`, every `Err(GenerateError::e)` an
`Except.error (.diag e)` (since fix 6017bad: an `IntLiteral` beyond ±u64::MAX is `IntLiteralOutOfRange`, no longer a panic).
Names come from the exporter's `NameMap` and are a parameter (`Ctx`); name hygiene is property C15.
-/
namespace RsslVerif.Model.GenHlsl
open RsslVerif.Gen.HlslGenTables RsslVerif.Gen.HlslIntrinsicTables RsslVerif.Model
open RsslVerif.Model.Ir (Ty Var Const)

inductive GenErr where
  | panic (site : String)
  | diag (e : String)               -- the exporter returns `Err(GenerateError::e)`: a reported export error, no panic
  | unsupported (what : String)     -- outside the modelled subset (never produced for the subset)
  deriving DecidableEq, Repr, Inhabited

/-- what the exporter reads from the module registries and its `NameMap` -/
structure Ctx where
  locName : Nat → String
  globName : Nat → String
  funcName : Nat → String
  vty : Var → Ty

def Ctx.name (cx : Ctx) : Var → String
  | .loc n => cx.locName n
  | .glob n => cx.globName n

/-- `generate_scalar_type` through the re-extracted table; `IntLiteral`/`FloatLiteral` panic -/
def scalarKey : Ty → Option String
  | .bool => some "Bool" | .int => some "Int32" | .uint => some "UInt32" | .float => some "Float32"
  | .lit => some "IntLiteral" | .flit => some "FloatLiteral" | .void => none

def typeName (t : Ty) : Except GenErr String :=
  match scalarKey t with
  | none => .ok "void"
  | some k =>
    match scalarTypeName.find? (fun p => p.1 == k) with
    | some (_, some n) => .ok n
    | some (_, none) => .error (.panic "generate_scalar_type: literal type should not be required on output")
    | none => .error (.unsupported "scalar type")

def u64Max : Int := 18446744073709551615

/-- the integer a guard of `generate_literal` looks at (0 for non-integer constants) -/
def Const.intValue : Const → Int
  | .intLit v => v
  | .int32 v => v.toInt
  | .uint32 v => v.toNat
  | _ => 0

def guardHolds : LitGuard → Int → Bool
  | .always, _ => true
  | .neg, v => decide (v < 0)
  | .negFitsU64, v => decide (v < 0) && decide (-v ≤ u64Max)
  | .nonnegFitsU64, v => decide (v ≥ 0) && decide (v ≤ u64Max)

/-- first arm of `match *literal` that applies -/
def findArm (k : ConstKind) (v : Int) : Option LitArm :=
  (literalArms.find? fun a => a.1 == k && guardHolds a.2.1 v).map (·.2.2)

/-- the literal of suffix kind `k` carrying the (non-negative) payload of `c` -/
def mkLit (k : LitKind) (c : Const) : Except GenErr HlslAst.Lit :=
  match k, c with
  | .Bool, .bool b => .ok (.bool b)
  | .IntUntyped, .intLit v => .ok (.intUntyped v.toNat)
  | .IntUntyped, .int32 v => .ok (.intUntyped v.toNat)
  | .IntUnsigned32, .uint32 v => .ok (.intUnsigned32 v.toNat)
  | .Float32, .float32 b => .ok (.float32 b)
  | .FloatUntyped, .floatLit b => .ok (.floatUntyped b)
  | _, _ => .error (.unsupported "literal kind")

/-- magnitude of a negative constant.  `checked` = the arm computes `-v as u64` in the constant's own type (an `i32`
overflows on `i32::MIN`, debug build); otherwise `u64::from(v.unsigned_abs())`, which is total (since fix b1ff3d2) -/
def negMagnitude (checked : Bool) (c : Const) : Except GenErr Nat :=
  match c with
  | .intLit v => .ok (-v).toNat
  | .int32 v =>
    if checked = true ∧ v = BitVec.intMin 32 then .error (.panic "hlsl/src/ast_generate.rs: attempt to negate with overflow")
    else .ok (-v.toInt).toNat
  | _ => .error (.unsupported "negMinus arm on a non-integer constant")

/-- `generate_literal` -/
def genLiteral (c : Const) : Except GenErr HlslAst.Expr :=
  match findArm c.kind (Const.intValue c) with
  | none => .error (.unsupported "no arm")
  | some .panics => .error (.panic "generate_literal: cannot represent")
  | some (.errs e) => .error (.diag e)
  | some .enumLookup => .error (.unsupported "enum")
  | some (.plain k) => (mkLit k c).map .lit
  | some (.widen k) => (mkLit k c).map .lit
  | some (.negMinus k) =>
    match k, negMagnitude true c with
    | .IntUntyped, .ok m => .ok (.un .Minus (.lit (.intUntyped m)))
    | _, .ok _ => .error (.unsupported "negMinus kind")
    | _, .error e => .error e
  | some (.negMinusAbs k) =>
    match k, negMagnitude false c with
    | .IntUntyped, .ok m => .ok (.un .Minus (.lit (.intUntyped m)))
    | _, .ok _ => .error (.unsupported "negMinus kind")
    | _, .error e => .error e

mutual
/-- `generate_expression` -/
def genExpr (cx : Ctx) : Ir.Expr → Except GenErr HlslAst.Expr
  | .lit c => genLiteral c
  | .var id => .ok (.ident (cx.locName id))
  | .global id => .ok (.ident (cx.globName id))
  | .tern c t f =>
    match genExpr cx c with
    | .error e => .error e
    | .ok c' =>
      match genExpr cx t with
      | .error e => .error e
      | .ok t' =>
        match genExpr cx f with
        | .error e => .error e
        | .ok f' => .ok (.tern c' t' f')
  | .seq es =>
    match es with
    | .nil => .error (.panic "generate_expression: assertion failed: exprs.len() >= 2")
    | .cons _ .nil => .error (.panic "generate_expression: assertion failed: exprs.len() >= 2")
    | .cons _ (.cons _ _) => genSeq cx es
  | .cast ty e =>
    match genExpr cx e with
    | .error err => .error err
    | .ok inner =>
      if ty = .lit ∨ ty = .flit then .ok inner
      else
        match typeName ty with
        | .error err => .error err
        | .ok n => .ok (.cast n inner)
  | .call f args =>
    match genArgs cx args with
    | .error e => .error e
    | .ok as => .ok (.call (cx.funcName f) as)
  | .intr i _ _ args =>
    -- generate_intrinsic_function
    match intrinsicForm i with
    | .invoke name =>
      match genArgs cx args with
      | .error e => .error e
      | .ok as => .ok (.call name as)
    | .unexpected => .error (.panic "generate_intrinsic_function: Unexpected intrinsic")
    | _ => .error (.unsupported "method intrinsic")
  | .op o args =>
    match opForm o with
    | .unexpected => .error (.panic "generate_intrinsic_op: not expected")
    | .unary u =>
      match args with
      | .cons a .nil =>
        match genExpr cx a with
        | .error e => .error e
        | .ok a' => .ok (.un u a')
      | _ => .error (.panic "generate_intrinsic_op: assertion failed: exprs.len() == 1")
    | .binary b =>
      match args with
      | .cons x (.cons y .nil) =>
        match genExpr cx x with
        | .error e => .error e
        | .ok x' =>
          match genExpr cx y with
          | .error e => .error e
          | .ok y' => .ok (.bin b x' y')
      | _ => .error (.panic "generate_intrinsic_op: assertion failed: exprs.len() == 2")
/-- the `Sequence` arm: the last element first, then the front in reverse, right-nested -/
def genSeq (cx : Ctx) : Ir.Exprs → Except GenErr HlslAst.Expr
  | .nil => .error (.panic "generate_expression: called `Option::unwrap()` on a `None` value")
  | .cons e r =>
    match r with
    | .nil => genExpr cx e
    | .cons _ _ =>
      match genSeq cx r with
      | .error err => .error err
      | .ok tail =>
        match genExpr cx e with
        | .error err => .error err
        | .ok a => .ok (.bin .Sequence a tail)
/-- `generate_invocation_args` -/
def genArgs (cx : Ctx) : Ir.Exprs → Except GenErr HlslAst.Exprs
  | .nil => .ok .nil
  | .cons e r =>
    match genExpr cx e with
    | .error err => .error err
    | .ok a =>
      match genArgs cx r with
      | .error err => .error err
      | .ok as => .ok (.cons a as)
end

def genOptExpr (cx : Ctx) : Option Ir.Expr → Except GenErr (Option HlslAst.Expr)
  | none => .ok none
  | some e => (genExpr cx e).map some

/-- `generate_variable_definition` (type name, emitted name, initialiser) -/
def genVarDef (cx : Ctx) (id : Nat) (init : Option Ir.Expr) : Except GenErr (String × String × Option HlslAst.Expr) :=
  match typeName (cx.vty (.loc id)) with
  | .error e => .error e
  | .ok tn =>
    match genOptExpr cx init with
    | .error e => .error e
    | .ok i => .ok (tn, cx.locName id, i)

/-- the tail of `generate_for_init`'s `Definitions` arm: every further definition must have the same base type -/
def genForDefs (cx : Ctx) (ty : String) : List (Nat × Option Ir.Expr) → Except GenErr (List (String × Option HlslAst.Expr))
  | [] => .ok []
  | (id, init) :: r =>
    match genVarDef cx id init with
    | .error e => .error e
    | .ok (tn, name, i) =>
      if tn ≠ ty then .error (.panic "generate_for_init: assertion failed: ast.local_type == tail_ast.local_type")
      else
        match genForDefs cx ty r with
        | .error e => .error e
        | .ok ds => .ok ((name, i) :: ds)

/-- `generate_for_init` -/
def genForInit (cx : Ctx) : Ir.ForInit → Except GenErr HlslAst.ForInit
  | .empty => .ok .empty
  | .expr e => (genExpr cx e).map .expr
  | .defs [] => .error (.panic "generate_for_init: called `Option::unwrap()` on a `None` value")
  | .defs ((id, init) :: r) =>
    match genVarDef cx id init with
    | .error e => .error e
    | .ok (tn, name, i) =>
      match genForDefs cx tn r with
      | .error e => .error e
      | .ok ds => .ok (.decl tn ((name, i) :: ds))

mutual
/-- `generate_statement` -/
def genStmt (cx : Ctx) : Ir.Stmt → Except GenErr HlslAst.Stmt
  | .expr e => (genExpr cx e).map .expr
  | .var id init =>
    match genVarDef cx id init with
    | .error e => .error e
    | .ok (tn, name, i) => .ok (.var tn name i)
  | .block b => (genStmtsAcc cx b .nil).map .block
  | .ifThen c b =>
    match genExpr cx c with
    | .error e => .error e
    | .ok c' =>
      match genStmtsAcc cx b .nil with
      | .error e => .error e
      | .ok b' => .ok (.ifThen c' (.block b'))
  | .ifElse c t f =>
    match genExpr cx c with
    | .error e => .error e
    | .ok c' =>
      match genStmtsAcc cx t .nil with
      | .error e => .error e
      | .ok t' =>
        match genStmtsAcc cx f .nil with
        | .error e => .error e
        | .ok f' => .ok (.ifElse c' (.block t') (.block f'))
  | .for init cond inc b =>
    match genForInit cx init with
    | .error e => .error e
    | .ok init' =>
      match genOptExpr cx cond with
      | .error e => .error e
      | .ok cond' =>
        match genOptExpr cx inc with
        | .error e => .error e
        | .ok inc' =>
          match genStmtsAcc cx b .nil with
          | .error e => .error e
          | .ok b' => .ok (.for init' cond' inc' (.block b'))
  | .while c b =>
    match genExpr cx c with
    | .error e => .error e
    | .ok c' =>
      match genStmtsAcc cx b .nil with
      | .error e => .error e
      | .ok b' => .ok (.while c' (.block b'))
  | .doWhile b c =>
    match genStmtsAcc cx b .nil with
    | .error e => .error e
    | .ok b' =>
      match genExpr cx c with
      | .error e => .error e
      | .ok c' => .ok (.doWhile (.block b') c')
  | .break => .ok .break
  | .continue => .ok .continue
  | .ret e => (genOptExpr cx e).map .ret
  | .switch _ c b =>
    match genExpr cx c with
    | .error e => .error e
    | .ok c' =>
      match genStmtsAcc cx b .nil with
      | .error e => .error e
      | .ok b' => .ok (.switch c' (.block b'))
  | .caseLabel c =>
    -- "We use an empty statement as the syntax requires a statement after a label … removed in generate_scope_block"
    match genLiteral c with
    | .error e => .error e
    | .ok e => .ok (.caseLabel e .empty)
  | .defaultLabel => .ok (.defaultLabel .empty)
/-- the loop of `generate_scope_block`: `acc` = the statements pushed so far -/
def genStmtsAcc (cx : Ctx) : Ir.Stmts → HlslAst.Stmts → Except GenErr HlslAst.Stmts
  | .nil, acc => .ok acc
  | .cons s r, acc =>
    match genStmt cx s with
    | .error e => .error e
    | .ok s' => genStmtsAcc cx r (HlslAst.pushStmt acc s')
end

/-- `generate_scope_block` -/
def genStmts (cx : Ctx) (b : Ir.Stmts) : Except GenErr HlslAst.Stmts := genStmtsAcc cx b .nil

def genParams (cx : Ctx) : List (Nat × Ir.Dir × Ty) → Except GenErr (List (String × Ir.Dir × String))
  | [] => .ok []
  | (id, d, t) :: r =>
    match typeName t with
    | .error e => .error e
    | .ok tn =>
      match genParams cx r with
      | .error e => .error e
      | .ok ps => .ok ((cx.locName id, d, tn) :: ps)

/-- `generate_function_inner` for a free function without attributes/semantics: name, return type, parameters, body -/
def genFunc (cx : Ctx) (fn : Ir.Func) : Except GenErr HlslAst.Func :=
  match typeName fn.ret with
  | .error e => .error e
  | .ok rt =>
    match genParams cx fn.params with
    | .error e => .error e
    | .ok ps =>
      match genStmts cx fn.body with
      | .error e => .error e
      | .ok b => .ok { name := cx.funcName fn.id, ret := rt, params := ps, body := b }

/-- the function definitions of `generate_root_definitions`, in order -/
def genProg (cx : Ctx) : List Ir.Func → Except GenErr (List HlslAst.Func)
  | [] => .ok []
  | fn :: r =>
    match genFunc cx fn with
    | .error e => .error e
    | .ok a =>
      match genProg cx r with
      | .error e => .error e
      | .ok as => .ok (a :: as)

end RsslVerif.Model.GenHlsl

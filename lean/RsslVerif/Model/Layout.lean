import RsslVerif.Gen.LayoutTables
/-!
# Model of `ir/src/layout_checker.rs` (C19)

`get` mirrors `get_type_layout` (both packing modes), `offsetsMatch` mirrors `offsets_match` and
`checkAll` mirrors the final loop of `check_layout`.  The per-layer arithmetic is *not* written here: it is the straight-line `Op` programs
that `tools/gens/c19.py` re-extracts from the Rust source on every run (`Gen.LayoutTables`), interpreted
by `runOps`.  All arithmetic is `u32` with overflow checks (the harness is built with
`overflow-checks = true`): every overflow / `unwrap` / `panic!` site is an explicit `Err.panic`; the
`checked_*(..)?` forms (since fix 24ea36f) are `Err.unknown` (= the function returns `None`) instead.

Not modelled: `TypeLayer::Modifier` (transparent in the source: `remove_modifier` / the `Modifier` arm
return the inner type's layout), the collection of the types to check from the global and function
registries (the request gives the resulting list), source locations (the request index stands for it).
Core Lean only.
-/
namespace RsslVerif.Model.Layout
open RsslVerif.Gen.LayoutTables

mutual
/-- the part of `TypeLayer` that can occur below a buffer element type -/
inductive Ty where
  | scalar (s : Scalar)
  | vec (s : Scalar) (n : Nat)
  | arr (t : Ty) (n : Nat)
  | struct (ms : Tys)
  /-- an enum; `u` is the underlying scalar chosen by the type checker (`Int32` or `UInt32`) -/
  | enum (u : Scalar)
  /-- any other layer (`Void`, `Matrix`, `Object`, `ArrayUnsized`, `StructTemplate`, `TemplateParam`) -/
  | other (l : Layer)
/-- struct member list -/
inductive Tys where
  | nil
  | cons (t : Ty) (ts : Tys)
end

def Tys.ofList : List Ty → Tys
  | [] => .nil
  | t :: ts => .cons t (Tys.ofList ts)

def Tys.toList : Tys → List Ty
  | .nil => []
  | .cons t ts => t :: ts.toList

/-- `def.members.len()` -/
def Tys.length : Tys → Nat
  | .nil => 0
  | .cons _ ts => ts.length + 1

inductive Err where
  /-- `get_type_layout` returned `None` -/
  | unknown
  /-- a panic site inside the modelled functions -/
  | panic (msg : String)
  deriving DecidableEq, Repr

structure Layout where
  size : Nat
  align : Nat
  deriving DecidableEq, Repr

def u32Max : Nat := 4294967295

def mulU32 (a b : Nat) : Except Err Nat :=
  if a * b ≤ u32Max then .ok (a * b) else .error (.panic "attempt to multiply with overflow")

def addU32 (a b : Nat) : Except Err Nat :=
  if a + b ≤ u32Max then .ok (a + b) else .error (.panic "attempt to add with overflow")

/-- `u32::next_multiple_of` -/
def nextMultipleOf (a b : Nat) : Except Err Nat :=
  if b = 0 then .error (.panic "attempt to calculate the remainder with a divisor of zero")
  else if a % b = 0 then .ok a else addU32 a (b - a % b)

/-- `u32::checked_mul(..)?`: overflow makes the calling function return `None` -/
def mulU32? (a b : Nat) : Except Err Nat :=
  if a * b ≤ u32Max then .ok (a * b) else .error .unknown

/-- `u32::checked_add(..)?` -/
def addU32? (a b : Nat) : Except Err Nat :=
  if a + b ≤ u32Max then .ok (a + b) else .error .unknown

/-- `u32::checked_next_multiple_of(..)?`: `None` for a zero divisor and on overflow -/
def nextMultipleOf? (a b : Nat) : Except Err Nat :=
  if b = 0 then .error .unknown
  else if a % b = 0 then .ok a else addU32? a (b - a % b)

/-- smallest power of two `≥ x` among `p, 2p, 4p, …` (at most `fuel` doublings) -/
def pow2From : Nat → Nat → Nat → Nat
  | 0, p, _ => p
  | fuel + 1, p, x => if x ≤ p then p else pow2From fuel (2 * p) x

/-- `u32::next_power_of_two` -/
def nextPow2 (x : Nat) : Except Err Nat :=
  let p := pow2From 32 1 x
  if p ≤ u32Max then .ok p else .error (.panic "attempt to add with overflow")

/-- the mutable locals the op programs work on -/
structure St where
  lay : Layout
  /-- vector component count `x` -/
  x : Nat
  /-- `member_layout` -/
  mem : Layout
  /-- array length `count` (a `u64`) -/
  count : Nat
  /-- `def.members.len()` (Struct arm) -/
  nmem : Nat

def step (op : Op) (s : St) : Except Err St :=
  match op with
  | .mulSizeX =>
    match mulU32 s.lay.size s.x with
    | .ok z => .ok { s with lay := { s.lay with size := z } }
    | .error e => .error e
  | .xNextPow2 =>
    match nextPow2 s.x with
    | .ok x => .ok { s with x := x }
    | .error e => .error e
  | .alignGetsSize => .ok { s with lay := { s.lay with align := s.lay.size } }
  | .alignUpToMember =>
    match nextMultipleOf s.lay.size s.mem.align with
    | .ok z => .ok { s with lay := { s.lay with size := z } }
    | .error e => .error e
  | .addMemberSize =>
    match addU32 s.lay.size s.mem.size with
    | .ok z => .ok { s with lay := { s.lay with size := z } }
    | .error e => .error e
  | .maxAlign => .ok { s with lay := { s.lay with align := max s.lay.align s.mem.align } }
  | .roundSizeToAlign =>
    match nextMultipleOf s.lay.size s.lay.align with
    | .ok z => .ok { s with lay := { s.lay with size := z } }
    | .error e => .error e
  | .mulSizeCount =>
    if s.count ≤ u32Max then
      match mulU32 s.lay.size s.count with
      | .ok z => .ok { s with lay := { s.lay with size := z } }
      | .error e => .error e
    else .error (.panic "called `Result::unwrap()` on an `Err` value: TryFromIntError(())")
  | .alignUpToMemberChecked =>
    match nextMultipleOf? s.lay.size s.mem.align with
    | .ok z => .ok { s with lay := { s.lay with size := z } }
    | .error e => .error e
  | .addMemberSizeChecked =>
    match addU32? s.lay.size s.mem.size with
    | .ok z => .ok { s with lay := { s.lay with size := z } }
    | .error e => .error e
  | .roundSizeToAlignChecked =>
    match nextMultipleOf? s.lay.size s.lay.align with
    | .ok z => .ok { s with lay := { s.lay with size := z } }
    | .error e => .error e
  | .mulSizeCountChecked =>
    -- `layout.size.checked_mul(u32::try_from(count).ok()?)?`
    if s.count ≤ u32Max then
      match mulU32? s.lay.size s.count with
      | .ok z => .ok { s with lay := { s.lay with size := z } }
      | .error e => .error e
    else .error .unknown
  | .sizeOneIfNoMembers =>
    -- `if def.members.is_empty() && matches!(mode, <the mode this op is listed for>) { layout.size = 1; }`
    if s.nmem = 0 then .ok { s with lay := { s.lay with size := 1 } } else .ok s

def runOps : List Op → St → Except Err St
  | [], s => .ok s
  | op :: ops, s =>
    match step op s with
    | .ok s' => runOps ops s'
    | .error e => .error e

def runLay (ops : List Op) (s : St) : Except Err Layout :=
  match runOps ops s with
  | .ok s' => .ok s'.lay
  | .error e => .error e

/-- the two `TypeLayer::Scalar` arms -/
def scalarLayout (s : Scalar) : Except Err Layout :=
  if s = .Bool && boolHasNoLayout then .error .unknown
  else match scalarSize s with
    | some z => .ok ⟨z, z⟩
    | none => .error (.panic "unexpected unsized scalar")

def otherLayout (l : Layer) : Except Err Layout :=
  match layerKind l with
  | .none => .error .unknown
  | .panic => .error (.panic "unexpected layer")
  | _ => .error (.panic "model: layer is not opaque")

mutual
/-- `get_type_layout(module, ty, mode)` -/
def get (m : Mode) : Ty → Except Err Layout
  | .scalar s => scalarLayout s
  | .vec s n =>
    match scalarLayout s with
    | .error e => .error e
    | .ok l => runLay (vectorOps m) ⟨l, n, l, 0, 0⟩
  | .arr t n =>
    match get m t with
    | .error e => .error e
    | .ok l => runLay (arrayOps m) ⟨l, 0, l, n, 0⟩
  | .struct ms =>
    match getMembers m ms ⟨structInit.1, structInit.2⟩ with
    | .error e => .error e
    | .ok l => runLay (structFinalOps m) ⟨l, 0, l, 0, ms.length⟩
  | .enum u => scalarLayout u
  | .other l => otherLayout l
/-- the member loop of the `Struct` arm, from accumulator `acc` -/
def getMembers (m : Mode) : Tys → Layout → Except Err Layout
  | .nil, acc => .ok acc
  | .cons t ts, acc =>
    match get m t with
    | .error e => .error e
    | .ok ml =>
      match runLay (structMemberOps m) ⟨acc, 0, ml, 0, 0⟩ with
      | .error e => .error e
      | .ok acc' => getMembers m ts acc'
end

/-! ### `offsets_match` -/

/-- the mutable locals of `offsets_match` -/
structure OffSt where
  /-- `offset_hlsl` -/
  ch : Nat
  /-- `offset_metal` -/
  cm : Nat
  /-- `hlsl` -/
  lh : Layout
  /-- `metal` -/
  lm : Layout

/-- control flow of one statement: fall through or `return Some(b)` -/
inductive Flow where
  | next (s : OffSt)
  | ret (b : Bool)

/-- one statement of `offsets_match`. `gh`/`gm` are the two `get_type_layout` calls on the member (or
    element) type, `rec` the recursive `offsets_match` call on it (only inspected where the source
    evaluates it), `count` the array length. -/
def offStep (gh gm : Except Err Layout) (rec : Except Err Bool) (count : Nat) (op : OffOp) (s : OffSt) :
    Except Err Flow :=
  match op with
  | .getHlsl =>
    match gh with
    | .ok l => .ok (.next { s with lh := l })
    | .error e => .error e
  | .getMetal =>
    match gm with
    | .ok l => .ok (.next { s with lm := l })
    | .error e => .error e
  | .alignHlsl =>
    match nextMultipleOf s.ch s.lh.align with
    | .ok z => .ok (.next { s with ch := z })
    | .error e => .error e
  | .alignMetal =>
    match nextMultipleOf s.cm s.lm.align with
    | .ok z => .ok (.next { s with cm := z })
    | .error e => .error e
  | .requireEqualThenRecurse =>
    if s.ch ≠ s.cm then .ok (.ret false)
    else match rec with
      | .ok true => .ok (.next s)
      | .ok false => .ok (.ret false)
      | .error e => .error e
  | .advanceHlsl =>
    match addU32 s.ch s.lh.size with
    | .ok z => .ok (.next { s with ch := z })
    | .error e => .error e
  | .advanceMetal =>
    match addU32 s.cm s.lm.size with
    | .ok z => .ok (.next { s with cm := z })
    | .error e => .error e
  | .alignHlslChecked =>
    match nextMultipleOf? s.ch s.lh.align with
    | .ok z => .ok (.next { s with ch := z })
    | .error e => .error e
  | .alignMetalChecked =>
    match nextMultipleOf? s.cm s.lm.align with
    | .ok z => .ok (.next { s with cm := z })
    | .error e => .error e
  | .advanceHlslChecked =>
    match addU32? s.ch s.lh.size with
    | .ok z => .ok (.next { s with ch := z })
    | .error e => .error e
  | .advanceMetalChecked =>
    match addU32? s.cm s.lm.size with
    | .ok z => .ok (.next { s with cm := z })
    | .error e => .error e
  | .requireEqualStrideIfSeveralChecked =>
    if count > 1 then
      match nextMultipleOf? s.lh.size s.lh.align with
      | .error e => .error e
      | .ok a =>
        match nextMultipleOf? s.lm.size s.lm.align with
        | .error e => .error e
        | .ok b => if a ≠ b then .ok (.ret false) else .ok (.next s)
    else .ok (.next s)
  | .zeroCountTrue => if count = 0 then .ok (.ret true) else .ok (.next s)
  | .requireEqualStrideIfSeveral =>
    if count > 1 then
      match nextMultipleOf s.lh.size s.lh.align with
      | .error e => .error e
      | .ok a =>
        match nextMultipleOf s.lm.size s.lm.align with
        | .error e => .error e
        | .ok b => if a ≠ b then .ok (.ret false) else .ok (.next s)
    else .ok (.next s)
  | .recurse =>
    match rec with
    | .ok b => .ok (.ret b)
    | .error e => .error e

def runOff (gh gm : Except Err Layout) (rec : Except Err Bool) (count : Nat) :
    List OffOp → OffSt → Except Err Flow
  | [], s => .ok (.next s)
  | op :: ops, s =>
    match offStep gh gm rec count op s with
    | .ok (.next s') => runOff gh gm rec count ops s'
    | .ok (.ret b) => .ok (.ret b)
    | .error e => .error e

mutual
/-- `offsets_match(module, ty)`; `Err.unknown` = `None` -/
def offsetsMatch : Ty → Except Err Bool
  | .struct ms => offsetsMembers ms offsetsInit.1 offsetsInit.2
  | .arr t n =>
    match runOff (get .hlsl t) (get .metal t) (offsetsMatch t) n offsetsArrayOps ⟨0, 0, ⟨0, 0⟩, ⟨0, 0⟩⟩ with
    | .ok (.ret b) => .ok b
    | .ok (.next _) => .error (.panic "model: the array arm of offsets_match has no result")
    | .error e => .error e
  | _ => .ok true
/-- the member loop of the `Struct` arm, from the two running offsets -/
def offsetsMembers : Tys → Nat → Nat → Except Err Bool
  | .nil, _, _ => .ok true
  | .cons t ts, ch, cm =>
    match runOff (get .hlsl t) (get .metal t) (offsetsMatch t) 0 offsetsMemberOps ⟨ch, cm, ⟨0, 0⟩, ⟨0, 0⟩⟩ with
    | .ok (.ret b) => .ok b
    | .ok (.next s) => offsetsMembers ts s.ch s.cm
    | .error e => .error e
end

/-- outcome of `check_layout` on the list of types it collected (index = position in that list) -/
inductive Verdict where
  | ok
  | unknown (i : Nat)
  | mismatch (i : Nat) (hlsl metal : Layout)
  | panic (msg : String)
  deriving DecidableEq, Repr

/-- the condition of the final `if` of the loop: do the two adjusted layouts count as different?
    `same` = result of `offsets_match` -/
def differs (h m : Layout) (same : Bool) : Bool :=
  match checkCompare with
  | .sizeOnly => h.size != m.size
  | .sizeAndAlign => h.size != m.size || h.align != m.align
  | .sizeAndOffsets => h.size != m.size || !same

/-- body of the final loop of `check_layout` for one type; `none` = consistent -/
def checkOne (t : Ty) : Except Err (Option (Layout × Layout)) :=
  match get .hlsl t with
  | .error e => .error e
  | .ok lh =>
    match get .metal t with
    | .error e => .error e
    | .ok lm =>
      match runLay (checkTopOps .hlsl) ⟨lh, 0, lh, 0, 0⟩ with
      | .error e => .error e
      | .ok lh' =>
        match runLay (checkTopOps .metal) ⟨lm, 0, lm, 0, 0⟩ with
        | .error e => .error e
        | .ok lm' =>
          match (if hasOffsetsMatch then offsetsMatch t else .ok true) with
          | .error e => .error e
          | .ok same => if differs lh' lm' same then .ok (some (lh', lm')) else .ok none

def checkFrom : Nat → List Ty → Verdict
  | _, [] => .ok
  | i, t :: ts =>
    match checkOne t with
    | .error .unknown => .unknown i
    | .error (.panic msg) => .panic msg
    | .ok (some (h, m)) => .mismatch i h m
    | .ok none => checkFrom (i + 1) ts

/-- `check_layout` on the collected element types, in collection order -/
def checkAll (ts : List Ty) : Verdict := checkFrom 0 ts

end RsslVerif.Model.Layout

import RsslVerif.Model.Lexer
import RsslVerif.Driver.Util
/-! Line-protocol front end of the C10 model (lexer + exact decimal→binary reference). -/
namespace RsslVerif.Driver.C10
open RsslVerif.Gen.LexTables RsslVerif.Model.Lexer RsslVerif.Driver

def hexPad (width n : Nat) : String :=
  let rec go : Nat → Nat → List Char → List Char
    | 0, _, acc => acc
    | k + 1, n, acc => go k (n / 16) (hexNibble (n % 16) :: acc)
  String.ofList (go width n [])

def showFb : FollowedBy → String
  | .token => "T"
  | .whitespace => "W"

def showTok : Token → String
  | .simple s => s.name
  | .id n => "Id:" ++ hex n
  | .litInt v => "Int:" ++ toString v
  | .litIntU32 v => "IntU32:" ++ toString v
  | .litIntU64 v => "IntU64:" ++ toString v
  | .litIntS64 v => "IntS64:" ++ toString v
  | .litFloat b => "Float:" ++ hexPad 16 b
  | .litFloat16 b => "Float16:" ++ hexPad 8 b
  | .litFloat32 b => "Float32:" ++ hexPad 8 b
  | .litFloat64 b => "Float64:" ++ hexPad 16 b
  | .litString s => "String:" ++ hex s
  | .reservedWord s => "ReservedWord:" ++ hex s
  | .headerName s => "HeaderName:" ++ hex s
  | .leftAngle f => "LeftAngleBracket:" ++ showFb f
  | .rightAngle f => "RightAngleBracket:" ++ showFb f

def showPTok (t : PTok) : String := showTok t.tok ++ " " ++ toString t.start ++ " " ++ toString t.stop

/-- `t<0|1>i<0|1>b<N>` -/
def parseFlags (s : String) : Option (Bool × Bool) :=
  match s.toList with
  | 't' :: t :: 'i' :: i :: 'b' :: _ => do
    let t ← bit? t
    let i ← bit? i
    pure (t, i)
  | _ => none

def handle (op : String) (args : List String) : String :=
  match op, args with
  | "C10.lex", [flags, hx] =>
    match parseFlags flags, unhex? hx with
    | some (trail, inc), some bytes =>
      let r := readAll bytes trail true inc
      let toks := ";".intercalate (r.1.map showPTok)
      match r.2 with
      | .ok () => toks
      | .error (.lexer reason off) => toks ++ " !err " ++ reason.name ++ " " ++ toString off
      | .error (.panic site) => toks ++ " !panic " ++ site
      | .error .outOfFuel => toks ++ " !model-out-of-fuel"
    | _, _ => "bad-request"
  | _, _ => "unsupported-op"

end RsslVerif.Driver.C10

import RsslVerif.Lemmas.Layout
/-!
# Structural agreement = equal flattened field offsets (C19)

`Spec.Layout.Agree` is structural (same relative offsets at every level, same strides).  The property speaks
about "the same byte offset for every field, recursively": the flattened list `fieldsAt`.  `agree_fields`
(Lemmas/Layout) is one direction; this file proves the converse for types of the grid, so that soundness,
completeness and "a rejection is never spurious" can all be stated in the property's own words.
Core Lean only.
-/
namespace RsslVerif.Lemmas.LayoutFields
open RsslVerif.Gen.LayoutTables RsslVerif.Model.Layout RsslVerif.Spec.Layout RsslVerif.Lemmas.Layout

/-- length of a `flatMap` over `range n` whose chunks all have length `c` -/
theorem length_flatMap_range (f : Nat → List Nat) (c : Nat) (hf : ∀ k, (f k).length = c) :
    ∀ n, ((List.range n).flatMap f).length = n * c
  | 0 => by simp
  | n + 1 => by
    rw [List.range_succ, List.flatMap_append, List.length_append, length_flatMap_range f c hf n]
    simp [hf, Nat.succ_mul]

mutual
/-- the number of fields below a type does not depend on the rule set or the base address -/
theorem fields_length : ∀ (t : Ty) (m m' : Mode) (b b' : Nat),
    (fieldsAt m t b).length = (fieldsAt m' t b').length
  | .scalar _, _, _, _, _ => rfl
  | .vec _ _, _, _, _, _ => rfl
  | .enum _, _, _, _, _ => rfl
  | .other _, _, _, _, _ => rfl
  | .struct ms, m, m', b, b' => by
    simp only [fieldsAt]; exact members_length ms m m' b b' 0 0
  | .arr t n, m, m', b, b' => by
    simp only [fieldsAt]
    rw [length_flatMap_range _ (1 + (fieldsAt m t 0).length) (fun k => by
          simp only [List.length_cons]; rw [fields_length t m m _ 0]; omega) n,
        length_flatMap_range _ (1 + (fieldsAt m t 0).length) (fun k => by
          simp only [List.length_cons]; rw [fields_length t m' m _ 0]; omega) n]
theorem members_length : ∀ (ts : Tys) (m m' : Mode) (b b' c c' : Nat),
    (membersAt m ts b c).length = (membersAt m' ts b' c').length
  | .nil, _, _, _, _, _, _ => rfl
  | .cons t ts, m, m', b, b', c, c' => by
    simp only [membersAt, List.length_cons, List.length_append]
    rw [fields_length t m m' _ (b' + roundUp c' (align m' t)), members_length ts m m' b b' _ _]
end

/-- equal `flatMap`s over `range n` with chunks of one common length are equal chunk by chunk -/
theorem flatMap_range_inj (f g : Nat → List Nat) (c : Nat) (hf : ∀ k, (f k).length = c) (hg : ∀ k, (g k).length = c) :
    ∀ n, (List.range n).flatMap f = (List.range n).flatMap g → ∀ k, k < n → f k = g k
  | 0, _, k, hk => by omega
  | n + 1, h, k, hk => by
    rw [List.range_succ, List.flatMap_append, List.flatMap_append] at h
    have hl : ((List.range n).flatMap f).length = ((List.range n).flatMap g).length := by
      rw [length_flatMap_range f c hf, length_flatMap_range g c hg]
    obtain ⟨h1, h2⟩ := List.append_inj h hl
    by_cases hkn : k < n
    · exact flatMap_range_inj f g c hf hg n h1 k hkn
    · have : k = n := by omega
      subst this
      simpa using h2

mutual
/-- equal flattened offsets (at some base) give structural agreement -/
theorem fields_agree : ∀ (t : Ty), wf t = true → ∀ b, fieldsAt .hlsl t b = fieldsAt .metal t b → agreeIn t = true
  | .scalar _, _, _, _ => rfl
  | .vec _ _, _, _, _ => rfl
  | .enum _, _, _, _ => rfl
  | .other _, h, _, _ => by simp [wf] at h
  | .struct ms, hw, b, h => by
    simp only [wf] at hw
    simp only [fieldsAt] at h
    obtain ⟨h1, h2⟩ := members_agree ms hw b 0 0 h
    simp only [agreeIn, Bool.and_eq_true, beq_iff_eq]
    exact ⟨h1, h2⟩
  | .arr t n, hw, b, h => by
    simp only [wf, Bool.and_eq_true, decide_eq_true_eq] at hw
    simp only [fieldsAt] at h
    have hc := flatMap_range_inj
      (fun k => (b + k * stride .hlsl t) :: fieldsAt .hlsl t (b + k * stride .hlsl t))
      (fun k => (b + k * stride .metal t) :: fieldsAt .metal t (b + k * stride .metal t))
      (1 + (fieldsAt .hlsl t 0).length)
      (fun k => by simp only [List.length_cons]; rw [fields_length t .hlsl .hlsl _ 0]; omega)
      (fun k => by simp only [List.length_cons]; rw [fields_length t .metal .hlsl _ 0]; omega)
      n h
    have h0 := hc 0 (by omega)
    simp only [Nat.zero_mul, Nat.add_zero, List.cons.injEq, true_and] at h0
    have ih := fields_agree t hw.2 b h0
    simp only [agreeIn, Bool.or_eq_true, Bool.and_eq_true, beq_iff_eq, decide_eq_true_eq]
    refine Or.inr ⟨?_, ih⟩
    by_cases h1 : n ≤ 1
    · exact Or.inl h1
    · have := hc 1 (by omega)
      simp only [Nat.one_mul, List.cons.injEq] at this
      exact Or.inr (by omega)
theorem members_agree : ∀ (ts : Tys), wfAll ts = true → ∀ b cH cM,
    membersAt .hlsl ts b cH = membersAt .metal ts b cM →
    offsets .hlsl ts cH = offsets .metal ts cM ∧ agreeInAll ts = true
  | .nil, _, _, _, _, _ => ⟨rfl, rfl⟩
  | .cons t ts, hw, b, cH, cM, h => by
    simp only [wfAll, Bool.and_eq_true] at hw
    simp only [membersAt, List.cons.injEq] at h
    obtain ⟨ho, hrest⟩ := h
    have ho' : roundUp cH (align .hlsl t) = roundUp cM (align .metal t) := by omega
    rw [ho'] at hrest
    obtain ⟨hf, hm⟩ := List.append_inj hrest (fields_length t .hlsl .metal _ _)
    have iht := fields_agree t hw.1 _ hf
    obtain ⟨io, ia⟩ := members_agree ts hw.2 b
      (roundUp cM (align .metal t) + size .hlsl t) (roundUp cM (align .metal t) + size .metal t) hm
    refine ⟨?_, by simp only [agreeInAll, iht, ia, Bool.and_self]⟩
    simp only [offsets, List.cons.injEq]
    rw [ho']
    exact ⟨rfl, io⟩
end

/-- **`Agree` in the property's words**: same total size and the same absolute byte offset of every field,
    recursively (every array element listed) -/
theorem agree_iff_fields (t : Ty) (hw : wf t = true) :
    Agree t ↔ (size .hlsl t = size .metal t ∧ fieldsAt .hlsl t 0 = fieldsAt .metal t 0) :=
  ⟨fun h => ⟨h.1, agree_fields t h.2 0⟩, fun h => ⟨h.1, fields_agree t hw 0 h.2⟩⟩

end RsslVerif.Lemmas.LayoutFields

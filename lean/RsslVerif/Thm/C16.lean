import RsslVerif.Lemmas.Overload
/-!
# C16 — overload resolution is order-independent and prefers exact matches

All statements are about `Model.Overload.resolve`, the model of `find_function_type`, over **arbitrary**
candidate lists, arities and argument lists (no size bound), with the conversion ranks coming from
`Model.Conv.find`/`getRank` and the rank tables re-extracted from casting.rs on every run (`Gen.RankTable`).
-/
namespace RsslVerif.Thm.C16
open RsslVerif.Gen.RankTable RsslVerif.Model.Conv RsslVerif.Model.Overload RsslVerif.Spec.Overload
open RsslVerif.Lemmas.Overload

/-! ## facts about the extracted tables (a one-cell change of casting.rs breaks one of these) -/

/-- `NumericRank::compare` never reaches its `unreachable!()` arm -/
theorem compare_total (a b : NumRank) : (a.compare b).isSome = true := by
  cases a <;> cases b <;> decide

/-- the `unreachable!()` arms of the `(source_scalar, dest_scalar)` match are exactly the diagonal, which `find`
    never asks for: `find` does not panic -/
theorem primaryRank_diag (s d : Scalar) : (primaryRank s d).isNone = decide (s = d) := by
  cases s <;> cases d <;> decide

/-- converting between different scalar kinds is never ranked `Exact` -/
theorem primaryRank_ne_exact (s d : Scalar) : primaryRank s d ≠ some .exact := by
  cases s <;> cases d <;> decide

/-- `NumericRank::order` is the priority list the property talks about -/
theorem order_agrees (r : NumRank) : r.order = numBadness r := order_eq_badness r

/-- `VectorRank::worst_to_best` lists every vector rank once, worst first, in the property's order -/
theorem worstToBest_agrees :
    VecRank.worstToBest.map vecBadness = [2, 1, 0] ∧ VecRank.worstToBest.length = VecRank.all.length := by
  decide

/-- `out` and `inout` parameters need an lvalue argument, `in` parameters do not -/
theorem needsLvalue_table :
    InputModifier.in.needsLvalue = false ∧ InputModifier.out.needsLvalue = true ∧
    InputModifier.inOut.needsLvalue = true := by decide

/-! ## order independence -/

/-- **Order independence.** For any two declaration orders of the same candidates (any permutation, any number of
    candidates, any arities, any arguments) `find_function_type` gives the same verdict: the same selected
    overload, or the same set of ambiguous overloads, or unmatched in both, or a panic in both. -/
theorem resolve_perm {cands cands' : List Cand} (h : List.Perm cands cands') (args : List ETy) :
    Outcome.Equiv (resolve cands args) (resolve cands' args) := by
  simp only [resolve]
  have hm := h.map (rankCand args)
  rw [any_perm hm]
  by_cases hp : (List.map (rankCand args) cands').any CandResult.isPanic = true
  · simp [hp, Outcome.Equiv]
  · simp only [hp, Bool.false_eq_true, if_false]
    exact resolveRanked_perm (hm.filterMap _)

/-- non-vacuity of `resolve_perm`: a three-candidate set where the verdict is a selection, and one where it is an
    ambiguity listed in a different order -/
example :
    let fI : Cand := ⟨0, [⟨⟨{}, .scalar .int32⟩, .in⟩], 1⟩
    let fU : Cand := ⟨1, [⟨⟨{}, .scalar .uInt32⟩, .in⟩], 1⟩
    let fF : Cand := ⟨2, [⟨⟨{}, .scalar .float32⟩, .in⟩], 1⟩
    resolve [fI, fU, fF] [⟨⟨{}, .scalar .uInt32⟩, .rvalue⟩] = .selected 1 ∧
    resolve [fF, fU, fI] [⟨⟨{}, .scalar .uInt32⟩, .rvalue⟩] = .selected 1 ∧
    resolve [fI, fU, fF] [⟨⟨{}, .scalar .intLiteral⟩, .rvalue⟩] = .ambiguous [0, 1] ∧
    resolve [fF, fU, fI] [⟨⟨{}, .scalar .intLiteral⟩, .rvalue⟩] = .ambiguous [1, 0] := by decide

end RsslVerif.Thm.C16

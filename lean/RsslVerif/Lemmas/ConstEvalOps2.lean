import RsslVerif.Lemmas.ConstEvalOps
/-!
# C13 helper lemmas, part 3: unary arms of `evaluate_operator` and `evaluate_cast`
-/
namespace RsslVerif.Lemmas.ConstEval
open RsslVerif.Gen.EvalTable RsslVerif.Model.ConstEval
open RsslVerif.Spec.HlslConst (bv sInt uInt fitsLit lit?)

@[simp, c13] theorem plain_floatLit (v : Nat) : plain (.floatLit v) = true := by simp [plain, wf, Constant.kind]
@[simp, c13] theorem plain_float16 (v : Nat) : plain (.float16 v) = true := by simp [plain, wf, Constant.kind]
@[simp, c13] theorem plain_float32 (v : Nat) : plain (.float32 v) = true := by simp [plain, wf, Constant.kind]
@[simp, c13] theorem plain_float64 (v : Nat) : plain (.float64 v) = true := by simp [plain, wf, Constant.kind]
@[simp, c13] theorem plain_string : plain .string = true := by simp [plain, wf, Constant.kind]
@[simp, c13] theorem plain_int64 (v : Int) : plain (.int64 v) = i64.inRange v := by simp [plain, wf, Constant.kind]
@[simp, c13] theorem plain_uint64 (v : Int) : plain (.uint64 v) = u64.inRange v := by simp [plain, wf, Constant.kind]
attribute [c13] floatFmtOf Constant.floatBits? mkFloat bv_one

theorem wrap_of_inRange_signed {w : Nat} (hw : 0 < w) {z : Int} (h : (IntTy.mk true w).inRange z = true) :
    (IntTy.mk true w).wrap z = z := by
  rw [wrap_signed]; exact toInt_ofInt_of_inRange hw h

theorem not_inRange_i128 {v : Int} (h : i128.inRange v = true) : i128.inRange (-v - 1) = true := by
  simp only [IntTy.inRange, IntTy.lo, IntTy.hi, i128, Bool.and_eq_true, decide_eq_true_eq] at h ⊢
  simp at h ⊢; omega

theorem unop_agrees (o : Op) {a r : Constant} (hn : arityOk o 1 = true) (ha : plain a = true)
    (h : applyOp o [a] = .ok r) : S.unop o a = some r ∧ plain r = true := by
  cases o <;> first
    | (simp [arityOk, opTable] at hn; done)
    | (cases a <;> simp [c13] at h ha ⊢)
  all_goals first
    | (subst h; simp [c13, *]; done)
    | (obtain ⟨z, ⟨h1, rfl⟩, rfl⟩ := h; simp [c13, h1]; done)
    | (subst h; simp [c13, BitVec.not_eq_neg_add]; done)
    | (subst h
       have hr := not_inRange_i128 ha
       have := wrap_of_inRange_signed (w := 128) (by decide) hr
       simp only [i128] at *
       simp [c13, this, hr, i128]; done)
    | trace_state

theorem toIntSat_bounds (lo hi : Int) (h0 : lo ≤ 0) (h1 : 0 ≤ hi) (v : RsslVerif.Model.ConstEvalFloat.FVal) :
    lo ≤ RsslVerif.Model.ConstEvalFloat.toIntSat lo hi v ∧ RsslVerif.Model.ConstEvalFloat.toIntSat lo hi v ≤ hi := by
  cases v with
  | nan n p => simp [RsslVerif.Model.ConstEvalFloat.toIntSat, h0, h1]
  | inf n => simp only [RsslVerif.Model.ConstEvalFloat.toIntSat]; split <;> omega
  | fin n m e =>
    simp only [RsslVerif.Model.ConstEvalFloat.toIntSat]
    split
    · omega
    · split <;> omega

theorem i32_lo : i32.lo = -2147483648 := by decide
theorem i32_hi : i32.hi = 2147483647 := by decide
theorem u32_lo : u32.lo = 0 := by decide
theorem u32_hi : u32.hi = 4294967295 := by decide

theorem toIntSat_i32 (v : RsslVerif.Model.ConstEvalFloat.FVal) :
    i32.inRange (RsslVerif.Model.ConstEvalFloat.toIntSat (-2147483648) 2147483647 v) = true := by
  have := toIntSat_bounds (-2147483648) 2147483647 (by omega) (by omega) v
  simp [IntTy.inRange, i32_lo, i32_hi, this]
theorem toIntSat_u32 (v : RsslVerif.Model.ConstEvalFloat.FVal) :
    u32.inRange (RsslVerif.Model.ConstEvalFloat.toIntSat 0 4294967295 v) = true := by
  have := toIntSat_bounds 0 4294967295 (by omega) (by omega) v
  simp [IntTy.inRange, u32_lo, u32_hi, this]

theorem sInt_bv_of_inRange {x : Int} (h : i32.inRange x = true) : sInt (bv x) = .int32 x := by
  simp [sInt, toInt_bv h]
theorem uInt_bv_of_inRange {x : Int} (h : u32.inRange x = true) : uInt (bv x) = .uint32 x := by
  simp [uInt, toNat_bv h]

@[c13] theorem f64_ne_f32 : (RsslVerif.Model.ConstEvalFloat.f64 = RsslVerif.Model.ConstEvalFloat.f32) = False := by
  simp [RsslVerif.Model.ConstEvalFloat.f64, RsslVerif.Model.ConstEvalFloat.f32]
@[c13] theorem f32_ne_f64 : (RsslVerif.Model.ConstEvalFloat.f32 = RsslVerif.Model.ConstEvalFloat.f64) = False := by
  simp [RsslVerif.Model.ConstEvalFloat.f64, RsslVerif.Model.ConstEvalFloat.f32]

attribute [c13] castScalar stripEnum castTable applyCastRule mkConst rustInt rustFloat S.castScalar

theorem castScalar_agrees (s : Scalar) {v r : Constant} (hv : plain v = true)
    (h : castScalar s v = .ok r) : S.castScalar s v = some r ∧ plain r = true := by
  cases s <;> cases v <;> simp [c13] at h hv ⊢
  all_goals first
    | (subst h; simp [c13, *]; done)
    | (subst h; simp [c13, sInt_bv_of_inRange, uInt_bv_of_inRange, i32_lo, i32_hi, u32_lo, u32_hi, toIntSat_i32, toIntSat_u32, *]; done)
    | (subst h; rename_i b; cases b <;> simp [c13] <;> decide)
    | trace_state

@[c13] theorem wf_enum (i : Nat) (c : Constant) : wf (.enum i c) = plain c := rfl

theorem plain_wf {c : Constant} (h : plain c = true) : wf c = true := by
  simp [plain] at h; exact h.1

/-- `evaluate_cast`: a returned value is the specified conversion, and it is in range -/
theorem evalCast_agrees (t : Ty) {v r : Constant} (hv : wf v = true)
    (h : evalCast t v = .ok r) : S.cast t v = some r ∧ wf r = true := by
  have hstrip : plain (S.strip v) = true := by
    cases v <;> simp_all [S.strip, plain, wf, Constant.kind]
  have hcs : ∀ s, castScalar s v = castScalar s (S.strip v) := by
    intro s
    cases v with
    | enum i c => cases c <;> simp_all [castScalar, stripEnum, S.strip, plain, wf, Constant.kind]
    | _ => simp [castScalar, stripEnum, S.strip]
  cases t with
  | scalar s =>
    simp only [evalCast, hcs] at h
    have := castScalar_agrees s hstrip h
    exact ⟨by simp [S.cast, this.1], plain_wf this.2⟩
  | enum id u =>
    simp only [evalCast, hcs] at h
    cases hc : castScalar u (S.strip v) with
    | error e => simp [hc] at h
    | ok x =>
      simp [hc] at h; subst h
      have := castScalar_agrees u hstrip hc
      exact ⟨by simp [S.cast, this.1], by simpa [c13] using this.2⟩
  | other => simp [evalCast] at h
end RsslVerif.Lemmas.ConstEval

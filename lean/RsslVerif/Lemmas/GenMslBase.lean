import RsslVerif.Spec.SemMslWT
import RsslVerif.Lemmas.GenSemLit
/-! Metal exporter, base: the simulation relation, the link between the two worlds, literals. -/
namespace RsslVerif.Lemmas.GenMsl
open RsslVerif.Gen.HlslGenTables RsslVerif.Gen.MslGenTables RsslVerif.Model RsslVerif.Model.GenMsl RsslVerif.Spec.Sem
open RsslVerif.Model.Ir (Ty Var Const Dir)
open RsslVerif.Model.GenHlsl (GenErr)

/-- static type the emitted expression has in Metal: `-2147483648` is a `long` -/
def mTy (e : Ir.Expr) (t : Ty) : Ty := if Ir.isMin e then .lit else t

/-- value the emitted expression has in Metal -/
def mVal (e : Ir.Expr) (v : Val) : Val := if Ir.isMin e then .lit (-2147483648) else v

/-- the emitted names denote the IR's entities in the frame at hand (for the variables in scope there), with their
declared types; user functions are not called like the library functions the exporter uses -/
structure AgreeM (cx : Ctx) (vis : Var → Bool) (env : Ast.Env) : Prop where
  res : ∀ x, vis x = true → env.res (cx.name x) = some x
  vty : env.vty = cx.vty
  fres : ∀ f, env.fres (cx.funcName f) = some f
  notLib : ∀ f, cx.funcName f ≠ Msl.fmodName ∧ cx.funcName f ≠ Msl.tagName

/-- the side conditions of an expression inside a given frame -/
def side (cx : Ctx) (W : World) (vis : Var → Bool) (rsv : Nat → List Var) : Ir.Side :=
  { sig := W.sig, vty := cx.vty, vis := vis, req := cx.req, rsv := rsv, called := cx.called }

def toMArg : Val × Option Var → Msl.MArg
  | (v, none) => .val v
  | (_, some x) => .ref x

/-- the value an argument has when the call happens -/
def valAt (σ : Store) : Val × Option Var → Val
  | (v, none) => v
  | (_, some x) => σ x

def pkOf : Dir → Msl.PK
  | .in_ => .val
  | _ => .ref

def mParams (ps : List (Dir × Ty)) : List (Msl.PK × Ty) := ps.map fun p => (pkOf p.1, p.2)

def globParams (cx : Ctx) (gs : List Nat) : List (Msl.PK × Ty) := gs.map fun g => (Msl.PK.ref, cx.vty (.glob g))

def globMArgs (gs : List Nat) : List Msl.MArg := gs.map fun g => Msl.MArg.ref (.glob g)

/-- by-value arguments where the parameter is `in`, variables of exactly the parameter's type elsewhere -/
def fitsB (vty : Var → Ty) : List (Dir × Ty) → List (Val × Option Var) → Bool
  | [], [] => true
  | (d, T) :: ps, (_, o) :: l =>
    (match o with
      | none => decide (d = .in_)
      | some x => decide (d ≠ .in_) && decide (vty x = T)) && fitsB vty ps l
  | _, _ => false

/-- **the link between the two worlds**: same primitives; for every function that is called somewhere in the module
(`called_functions`) the Metal overload callers see (`target = false`) takes the
user parameters (by value for `in`, by reference otherwise) followed by references to the statics the function needs;
and calling it with variables for the out/inout parameters *behaves as copy-in / copy-out around the typed function*:
the values of those variables at the moment of the call are passed in, the function runs on its own copies, the final
parameter values are written back in parameter order. -/
structure Worlds (cx : Ctx) (rsv : Nat → List Var) (W : World) (M : Msl.MWorld) : Prop where
  prim : M.P = W.P
  ret : ∀ f rt ps, W.sig f = some (rt, ps) → cx.retTy f = some rt
  sig : ∀ f rt ps gs, W.sig f = some (rt, ps) → cx.req f = some gs → cx.called f = true →
    M.msig f false = some (rt, mParams ps ++ globParams cx gs)
  call : ∀ f rt ps gs (l : List (Val × Option Var)) σ, W.sig f = some (rt, ps) → cx.req f = some gs → cx.called f = true →
    fitsB cx.vty ps l = true → (∀ p ∈ l, ∀ x, p.2 = some x → (rsv f).contains x = false) →
    M.mphi f false (l.map toMArg ++ globMArgs gs) σ =
      match W.phi f (l.map (valAt σ)) σ with
      | none => none
      | some (ret, finals, σ2) => some (ret, writeBack (l.map (·.2)) finals σ2)

/-- emitted expression `a` simulates IR expression `e` of type `t` -/
def SimM (W : World) (M : Msl.MWorld) (env : Ast.Env) (e : Ir.Expr) (a : HlslAst.Expr) (t : Ty) : Prop :=
  Msl.typeOf M.msig env a = some (mTy e t) ∧
  ∀ σ, Msl.eval M env a σ = (Ir.eval W e σ).map (fun r => (mVal e r.1, r.2))

theorem isMin_cases {e : Ir.Expr} (h : Ir.isMin e = true) : e = .lit (.int32 (BitVec.intMin 32)) := by
  cases e with
  | lit c =>
    cases c <;> simp [Ir.isMin] at h
    subst h; rfl
  | _ => simp [Ir.isMin] at h

theorem SimM.plain {W : World} {M : Msl.MWorld} {env : Ast.Env} {e : Ir.Expr} {a : HlslAst.Expr} {t : Ty}
    (h : SimM W M env e a t) (hl : Ir.isMin e = false) :
    Msl.typeOf M.msig env a = some t ∧ ∀ σ, Msl.eval M env a σ = Ir.eval W e σ := by
  obtain ⟨h1, h2⟩ := h
  refine ⟨by simpa [mTy, hl] using h1, fun σ => ?_⟩
  rw [h2 σ]
  cases Ir.eval W e σ <;> simp [mVal, hl]

theorem SimM.min {W : World} {M : Msl.MWorld} {env : Ast.Env} {a : HlslAst.Expr} {t : Ty}
    (h : SimM W M env (.lit (.int32 (BitVec.intMin 32))) a t) :
    Msl.typeOf M.msig env a = some .lit ∧ ∀ σ, Msl.eval M env a σ = some (.lit (-2147483648), σ) := by
  obtain ⟨h1, h2⟩ := h
  have hm : Ir.isMin (.lit (.int32 (BitVec.intMin 32))) = true := by simp [Ir.isMin]
  refine ⟨by simpa [mTy, hm] using h1, fun σ => ?_⟩
  rw [h2 σ]
  simp [Ir.eval, mVal, hm]

theorem isMin_ty {sig : Sig} {vty : Var → Ty} {e : Ir.Expr} {t : Ty}
    (ht : Ir.typeOf sig vty e = some t) (hl : Ir.isMin e = true) : t = .int := by
  rw [isMin_cases hl] at ht
  simp [Ir.typeOf, Const.ty] at ht
  exact ht.symm

/-- the implicit conversion to the IR type recovers the IR value -/
theorem SimM.conv {W : World} {M : Msl.MWorld} {env : Ast.Env} {e : Ir.Expr} {a : HlslAst.Expr} {t : Ty} {vty : Var → Ty}
    (h : SimM W M env e a t) (ht : Ir.typeOf W.sig vty e = some t) (σ : Store) :
    Msl.convR M.P (mTy e t) t (Msl.eval M env a σ) = Ir.eval W e σ := by
  by_cases hl : Ir.isMin e = true
  · have := isMin_cases hl; subst this
    have hm := h.min
    simp [Ir.typeOf, Const.ty] at ht
    subst ht
    rw [hm.2 σ]
    simp only [mTy, hl, if_true, Msl.convR, Msl.convert, Msl.castM, Ir.eval, Ir.constVal]
    simp [castVal]
    decide
  · have hl' : Ir.isMin e = false := by simpa using hl
    have := h.plain hl'
    rw [this.2 σ]
    cases hr : Ir.eval W e σ with
    | none => simp [Msl.convR]
    | some r => simp [Msl.convR, Msl.convert, mTy, hl']

/-- an explicit cast applied to the emitted value gives what the IR's cast gives on the IR value -/
theorem SimM.castR {W : World} {M : Msl.MWorld} {env : Ast.Env} {e : Ir.Expr} {a : HlslAst.Expr} {t : Ty}
    (hp : M.P = W.P) (h : SimM W M env e a t) (T : Ty) (hT : Ir.scalarTy T = true) (ht : t ≠ .lit) (σ : Store) :
    Msl.castR M.P (mTy e t) T (Msl.eval M env a σ) = Spec.Sem.castR W.P T (Ir.eval W e σ) := by
  by_cases hl : Ir.isMin e = true
  · have := isMin_cases hl; subst this
    rw [h.min.2 σ]
    simp only [mTy, hl, if_true, Msl.castR, Msl.castM, Ir.eval, Ir.constVal, Spec.Sem.castR, hp]
    cases T <;> simp [Ir.scalarTy] at hT <;> simp [castVal, Msl.inInt32] <;> first | decide | rfl
  · have hl' : Ir.isMin e = false := by simpa using hl
    rw [(h.plain hl').2 σ]
    cases hr : Ir.eval W e σ with
    | none => simp [Msl.castR, Spec.Sem.castR]
    | some r =>
      have hT' : T ≠ .flit := by cases T <;> simp [Ir.scalarTy] at hT <;> simp
      simp only [Msl.castR, Spec.Sem.castR, Msl.castM, mTy, hl', hT', ht, hp, if_false, Bool.false_eq_true, false_and]
      cases castVal W.P T r.fst <;> rfl

/-- the Metal arm for a row of the HLSL literal table: the same row, except that a `Float64` constant — Metal has neither
`double` nor `long double` — is refused with `Err(GenerateError::UnsupportedDouble)` (fix 9824ce3; before, the Metal
function emitted `Literal::Float64`, which the Metal printer could not print) -/
def mslArmOf (a : ConstKind × LitGuard × LitArm) : ConstKind × LitGuard × LitArm :=
  if a.1 = .Float64 then (a.1, a.2.1, .errs "UnsupportedDouble") else a

theorem literal_arms_eq : mslLiteralArms = literalArms.map mslArmOf := by decide

theorem findArm_eq (k : ConstKind) (v : Int) (hk : k ≠ .Float64) : GenMsl.findArm k v = GenHlsl.findArm k v := by
  cases k <;> first | exact absurd rfl hk | rfl

theorem findArm_float64 (v : Int) : GenMsl.findArm .Float64 v = some (.errs "UnsupportedDouble") := rfl

theorem kind_ne_float64 (c : Ir.Const) : c.kind ≠ ConstKind.Float64 := by cases c <;> simp [Ir.Const.kind]

theorem genLiteral_eq (c : Ir.Const) : GenMsl.genLiteral c = GenHlsl.genLiteral c := by
  unfold GenMsl.genLiteral GenHlsl.genLiteral
  rw [findArm_eq _ _ (kind_ne_float64 c)]
  cases GenHlsl.findArm c.kind (GenHlsl.Const.intValue c) with
  | none => rfl
  | some arm =>
    cases arm with
    | negMinus k => cases k <;> cases GenHlsl.negMagnitude true c <;> rfl
    | negMinusAbs k => cases k <;> cases GenHlsl.negMagnitude false c <;> rfl
    | _ => rfl

theorem ofNat_toNat_int (k : Int) (h : 0 ≤ k) : BitVec.ofNat 32 k.toNat = BitVec.ofInt 32 k := by
  have h1 : ((k.toNat : Nat) : Int) = k := by omega
  calc BitVec.ofNat 32 k.toNat = BitVec.ofInt 32 ((k.toNat : Nat) : Int) := (BitVec.ofInt_natCast 32 k.toNat).symm
    _ = BitVec.ofInt 32 k := by rw [h1]

theorem neg_ofNat_of_neg (v : BitVec 32) (h : v.toInt < 0) : -(BitVec.ofNat 32 (-v.toInt).toNat) = v := by
  rw [ofNat_toNat_int _ (by omega), BitVec.ofInt_neg, BitVec.ofInt_toInt]
  simp

theorem toInt_ne_min {v : BitVec 32} (hm : v ≠ BitVec.intMin 32) : v.toInt ≠ -2147483648 := by
  intro h0
  apply hm
  have := BitVec.ofInt_toInt (x := v)
  rw [h0] at this
  rw [← this]; decide

theorem mag_lt (v : BitVec 32) (hm : v ≠ BitVec.intMin 32) : (-v.toInt).toNat < 2147483648 := by
  have := toInt_ne_min hm
  have := BitVec.le_toInt (x := v)
  omega

theorem toNat_lt_of_nonneg (v : BitVec 32) (h : ¬ v.toInt < 0) : v.toNat < 2147483648 := by
  rw [BitVec.toInt_eq_toNat_cond] at h
  split at h <;> omega

end RsslVerif.Lemmas.GenMsl

import RsslVerif.Lemmas.ElabPlace
import RsslVerif.Lemmas.Overload
/-!
# C03 — accepted programs elaborate to well-typed IR; ill-typed programs are rejected

Statements are about `Model.Conv.find` / `targetType` (model of `ImplicitConversion::find` / `get_target_type`),
`Model.Elab.elabE` / `elabStmt` (model of `parse_expr_internal` / `parse_statement`) and the typing judgment
`Model.IrTyping.HasType` (written from `Expression::get_type` / `IntrinsicOp::get_return_type`, asserts as premises).
All are universally quantified: any environment, any expression nesting, any types.
-/
namespace RsslVerif.Thm.C03
open RsslVerif.Gen.RankTable RsslVerif.Gen.TypingTables RsslVerif.Model.Conv RsslVerif.Model.Overload
open RsslVerif.Model.IrTyping RsslVerif.Model.Elab RsslVerif.Lemmas.ElabConv RsslVerif.Lemmas.Elab
open RsslVerif.Lemmas.ElabForms RsslVerif.Lemmas.ElabExact RsslVerif.Lemmas.ElabRelease RsslVerif.Lemmas.ElabPlace
open RsslVerif.Lemmas.Overload
open RsslVerif.Spec.Overload

/-! ## `ImplicitConversion::find` -/

/-- **`find` is sound**: every conversion `ImplicitConversion::find` returns produces exactly the requested type —
    `get_target_type` does not panic on it and gives the destination's value category, layer **and modifier**.
    (Before fix 828cdd4 this failed for a numeric cast between equally modified types: `const int → const float`
    produced `float`; that witness, `find_sound_fails`, is gone.) -/
theorem find_sound {s d : ETy} {c : Conversion} (h : find s d = .ok (some c)) : targetType c = .ok d :=
  targetType_ok h

/-- non-vacuity, and the former counterexample: `const int` lvalue → `const float` rvalue and `volatile int` lvalue →
    `volatile float` rvalue are found, with a numeric cast, and now carry the modifier cast -/
example :
    (match find ⟨⟨{ isConst := true }, .scalar .int32⟩, .lvalue⟩ ⟨⟨{ isConst := true }, .scalar .float32⟩, .rvalue⟩,
           find ⟨⟨{ volatile := true }, .scalar .int32⟩, .lvalue⟩ ⟨⟨{ volatile := true }, .scalar .float32⟩, .rvalue⟩ with
     | .ok (some c1), .ok (some c2) => c1.primary.isSome && c1.modCast.isSome && c2.primary.isSome && c2.modCast.isSome
     | _, _ => false) = true := by decide

/-- an rvalue never converts to an lvalue -/
theorem find_rejects_rvalue_to_lvalue (s d : ETy) (hs : s.vt = .rvalue) (hd : d.vt = .lvalue) :
    find s d = .ok none := by
  simp [find, hs, hd]

/-- a conversion towards an lvalue never drops `const` (nor `volatile`) -/
theorem find_keeps_const {s d : ETy} (hd : d.vt = .lvalue)
    (hc : (s.ty.mod.isConst = true ∧ d.ty.mod.isConst = false) ∨ (s.ty.mod.volatile = true ∧ d.ty.mod.volatile = false))
    (c : Conversion) : find s d ≠ .ok (some c) := by
  intro h
  obtain ⟨_, _, _, _, _, hm⟩ := find_inv h
  simp only [hd, decide_true] at hm
  unfold modifierCast at hm
  have hne : s.ty.mod ≠ d.ty.mod := by
    intro he
    rw [he] at hc
    rcases hc with ⟨h1, h2⟩ | ⟨h1, h2⟩ <;> simp [h1] at h2
  simp only [hne, ne_eq, not_false_eq_true, if_true] at hm
  rcases hc with ⟨h1, h2⟩ | ⟨h1, h2⟩ <;> simp [h1, h2] at hm

/-! ## soundness of elaboration -/

/-- **Accepted expressions are well typed — in debug and release builds.**  If the type checker accepts an
    expression and computes type `τ` for it, the produced IR expression has type `τ` under the IR's own typing rules,
    and so has — at some type — every sub-expression, including the ones `Expression::get_type` never looks at (call
    arguments, cast operands, conditions).  By induction over all source expressions; the proof does not use the
    debug-only type query of `parse_expr_internal`, it shows every node is built with operands of the right types. -/
theorem elab_sound {Γ : Env} {dbg : Bool} {e : SExpr} {e' : IExpr} {τ : ETy} (h : elabE dbg Γ e = .ok (e', τ)) :
    HasType Γ e' τ := elab_sound_any dbg e e' τ h

/-- **The debug-build type query is redundant**: `parse_expr_internal`'s `cfg(debug_assertions)` check (and
    `parse_expr`'s unconditional one) never fires; debug and release builds produce the same typed expression, the same
    diagnostic or the same panic for every expression.  (Before fixes 828cdd4 / 660cfa4 / 276433e it fired for
    `volatile int b; b = 1;`, `b++`, ... and release builds accepted `(int)(b = 1)` with an untypable node inside:
    the former witness `release_accepts_ill_typed` is gone.) -/
theorem elab_debug_check_redundant {Γ : Env} (e : SExpr) : elabE true Γ e = elabE false Γ e := elab_debug_eq e

/-- non-vacuity: `v0 = v1 + 1` with `float v0; const int v1` is accepted and elaborates to
    `Assignment(v0, Cast(float, Add(Cast(int, v1), 1)))` -/
example :
    (match elabE true { vars := [⟨{}, .scalar .float32⟩, ⟨{ isConst := true }, .scalar .int32⟩], funcs := [] }
        (.bin .assignment (.var 0) (.bin .add (.var 1) (.lit .intLiteral))) with
     | .ok (.op .assignment (.cons (.var 0) (.cons (.cast _ (.op .add (.cons (.cast _ (.var 1)) (.cons (.lit .int32) .nil)))) .nil)), τ) =>
       decide (τ = ⟨⟨{}, .scalar .float32⟩, .lvalue⟩)
     | _ => false) = true := by decide

/-- **Every referenced definition exists**: all variable and function ids of an accepted expression are allocated
    in the environment (a consequence of the typing judgment, whose rules look the ids up) -/
theorem ids_in_range {Γ : Env} {dbg : Bool} {e : SExpr} {e' : IExpr} {τ : ETy} (h : elabE dbg Γ e = .ok (e', τ)) :
    IdsInRange Γ e' := ids_of_hasType e' τ (elab_sound h)

/-- what it means for a typed statement to be well typed -/
def StmtTyped (Γ : Env) : IStmt → Prop
  | .expr e => ∃ τ, HasType Γ e τ
  | .ret none => Γ.ret = none
  | .ret (some e) => ∃ τ, HasType Γ e τ
  | .init _ e => ∃ τ, HasType Γ e τ

theorem elabTop_sound {Γ : Env} {dbg : Bool} {e : SExpr} {e' : IExpr} {τ : ETy}
    (h : elabTop dbg Γ e = .ok (e', τ)) : HasType Γ e' τ := by
  unfold elabTop at h
  split at h
  · simp at h
  · rename_i e1 τ1 h1
    obtain ⟨rfl, rfl, _⟩ := selfCheck_true h
    exact elab_sound h1

/-- accepted statements (expression statement, `return`, initialised definition) are well typed, conversions to the
    return / variable type included -/
theorem elabStmt_sound {Γ : Env} {dbg : Bool} {s : SStmt} {s' : IStmt} (h : elabStmt dbg Γ s = .ok s') :
    StmtTyped Γ s' := by
  cases s with
  | expr e =>
    simp only [elabStmt] at h
    split at h
    · simp at h
    · rename_i e' τ he
      simp at h; subst h
      exact ⟨τ, elabTop_sound he⟩
  | ret eo =>
    cases eo with
    | none =>
      simp only [elabStmt] at h
      split at h
      · rename_i hr; simp at h; subst h; exact hr
      · simp at h
    | some e =>
      simp only [elabStmt] at h
      split at h
      · simp at h
      · rename_i e' τ he
        split at h
        · simp at h
        · split at h
          · simp at h
          · simp at h
          · rename_i hc
            simp at h; subst h
            exact convert_typed ⟨τ, elabTop_sound he⟩ hc
  | init t e =>
    simp only [elabStmt] at h
    split at h
    · simp at h
    · rename_i e' τ he
      split at h
      · simp at h
      · simp at h
      · rename_i hc
        simp at h; subst h
        exact convert_typed ⟨τ, elabTop_sound he⟩ hc

/-! ## ill-typed programs are rejected

Each statement says the expression is **never accepted** (`≠ .ok _`), in debug and release builds alike, whatever the
other operands are: it may be rejected with the diagnostic of the violation, or earlier because another operand is
ill-typed. -/

/-- assignment family (`=`, `+=`, ..., `^=`): a left operand of const type is never accepted -/
theorem elab_rejects_assign_to_const {Γ : Env} {dbg : Bool} {o : BinOp} {a b : SExpr} {a' : IExpr} {τa : ETy}
    (ho : o.cls = .assign) (ha : elabE dbg Γ a = .ok (a', τa)) (hc : τa.ty.mod.isConst = true) :
    ∀ r, elabE dbg Γ (.bin o a b) ≠ .ok r := by
  intro r h
  simp only [elabE, ha] at h
  split at h
  · simp at h
  · simp only [ho] at h
    simp [elabAssign, hc] at h

/-- assignment family: a left operand that is not an lvalue (a literal, `a + b`, a function result, a cast, `a++`,
    `c ? a : b`, ... see `rvalue_forms`) is never accepted -/
theorem elab_rejects_assign_to_rvalue {Γ : Env} {dbg : Bool} {o : BinOp} {a b : SExpr} {a' : IExpr} {τa : ETy}
    (ho : o.cls = .assign) (ha : elabE dbg Γ a = .ok (a', τa)) (hv : τa.vt = .rvalue) :
    ∀ r, elabE dbg Γ (.bin o a b) ≠ .ok r := by
  intro r h
  simp only [elabE, ha] at h
  split at h
  · simp at h
  · simp only [ho] at h
    by_cases hc : τa.ty.mod.isConst = true <;> simp [elabAssign, hc, hv] at h

/-- `++` / `--` (prefix and postfix) on a const or non-lvalue operand is never accepted -/
theorem elab_rejects_increment {Γ : Env} {dbg : Bool} {o : UnOp} {e : SExpr} {e' : IExpr} {τ : ETy}
    (ho : o = .prefixIncrement ∨ o = .prefixDecrement ∨ o = .postfixIncrement ∨ o = .postfixDecrement)
    (he : elabE dbg Γ e = .ok (e', τ)) (hv : τ.vt = .rvalue ∨ τ.ty.mod.isConst = true) :
    ∀ r, elabE dbg Γ (.un o e) ≠ .ok r := by
  intro r h
  simp only [elabE, he] at h
  have hen : ∃ m, enforceIncrement τ = .error m := by
    unfold enforceIncrement
    rcases hv with hv | hv
    · simp [hv]
    · by_cases hr : τ.vt = .rvalue <;> simp [hr, hv]
  obtain ⟨m, hm⟩ := hen
  rcases ho with rfl | rfl | rfl | rfl <;> simp [elabUn, hm] at h

/-- a candidate cannot be called with these argument types: wrong number of arguments, or some argument has no
    implicit conversion to its parameter -/
def NotCallable (c : Cand) (ts : List ETy) : Prop :=
  c.params.length < ts.length ∨ ts.length < c.nonDefault ∨
  ∃ (i : Nat) (p : Param) (a : ETy), c.params[i]? = some p ∧ ts[i]? = some a ∧ find a p.ety = .ok none

theorem zipRanks_not_some : ∀ (ps : List Param) (as : List ETy) (i : Nat) (p : Param) (a : ETy),
    ps[i]? = some p → as[i]? = some a → find a p.ety = .ok none → ∀ rs, zipRanks ps as ≠ .ok (some rs)
  | [], _, i, p, a, hp, _, _, _ => by simp at hp
  | _ :: _, [], i, p, a, _, ha, _, _ => by simp at ha
  | q :: ps, b :: as, 0, p, a, hp, ha, hf, rs => by
    simp at hp ha; subst hp ha
    simp [zipRanks, hf]
  | q :: ps, b :: as, i + 1, p, a, hp, ha, hf, rs => by
    simp at hp ha
    have ih := zipRanks_not_some ps as i p a hp ha hf
    simp only [zipRanks]
    split
    · simp
    · simp
    · split
      · simp
      · simp
      · rename_i rs' hrs
        exact absurd hrs (ih rs')

theorem rankCand_not_ranked {c : Cand} {ts : List ETy} (h : NotCallable c ts) (id : Nat) (rs : List Rank) :
    rankCand ts c ≠ .ranked id rs := by
  unfold rankCand
  rcases h with h | h | ⟨i, p, a, hp, ha, hf⟩
  · have : ¬ (ts.length ≤ c.params.length ∧ c.nonDefault ≤ ts.length) := by omega
    simp [this]
  · have : ¬ (ts.length ≤ c.params.length ∧ c.nonDefault ≤ ts.length) := by omega
    simp [this]
  · split
    · have := zipRanks_not_some c.params ts i p a hp ha hf
      split
      · simp
      · simp
      · rename_i rs' hrs; exact absurd hrs (this rs')
    · simp

/-- a selected overload is one of the candidates and was ranked, i.e. every argument converts to its parameter
    (same statement and proof as `Thm.C16.selected_is_viable`; repeated here so that C03 depends only on the
    tournament lemmas of `Lemmas/Overload`, not on C16's witness theorems about the current rank tables) -/
theorem selected_is_ranked {cands : List Cand} {args : List ETy} {i : Nat}
    (h : resolve cands args = .selected i) : ∃ c ∈ cands, ∃ rc, rankCand args c = .ranked c.id rc := by
  rcases resolve_cases cands args with hp | hr
  · rw [hp] at h; simp at h
  · rw [hr] at h
    obtain ⟨rc, hf⟩ := resolveRanked_selected h
    have hm : (i, rc) ∈ rankedList cands args :=
      winners_subset (finals_subset (by rw [hf]; exact List.mem_cons_self))
    obtain ⟨c, hc, hrc⟩ := mem_rankedList.mp hm
    have hid := rankCand_id hrc
    exact ⟨c, hc, rc, by rw [hrc, hid]⟩

/-- **Calls.**  If no function of the called name can take the arguments (each one has the wrong number of
    parameters or a parameter some argument does not convert to), the call is never accepted. -/
theorem elab_rejects_call {Γ : Env} {dbg : Bool} {name : Nat} {args : SArgs} {args' : IArgs} {ts : List ETy}
    (ha : elabArgs dbg Γ args = .ok (args', ts)) (hn : ∀ c ∈ candidates Γ name, NotCallable c ts) :
    ∀ r, elabE dbg Γ (.call name args) ≠ .ok r := by
  intro r h
  simp only [elabE, ha] at h
  split at h
  · simp at h
  · split at h
    · simp at h
    · rename_i n τ hc
      unfold elabCall at hc
      split at hc
      · simp at hc
      · simp at hc
      · simp at hc
      · rename_i id hsel
        obtain ⟨c, hmem, rc, hv⟩ := selected_is_ranked hsel
        exact rankCand_not_ranked (hn c hmem) _ _ hv

/-- wrong number of arguments: never accepted -/
theorem elab_rejects_arity {Γ : Env} {dbg : Bool} {name : Nat} {args : SArgs} {args' : IArgs} {ts : List ETy}
    (ha : elabArgs dbg Γ args = .ok (args', ts))
    (hn : ∀ c ∈ candidates Γ name, c.params.length < ts.length ∨ ts.length < c.nonDefault) :
    ∀ r, elabE dbg Γ (.call name args) ≠ .ok r :=
  elab_rejects_call ha fun c hc => by
    unfold NotCallable
    rcases hn c hc with h | h
    · exact Or.inl h
    · exact Or.inr (Or.inl h)

/-- an argument without implicit conversion to the parameter type (e.g. a struct for an `int`): never accepted -/
theorem elab_rejects_unconvertible {Γ : Env} {dbg : Bool} {name : Nat} {args : SArgs} {args' : IArgs} {ts : List ETy}
    (ha : elabArgs dbg Γ args = .ok (args', ts))
    (hn : ∀ c ∈ candidates Γ name, ∃ (i : Nat) (p : Param) (a : ETy), c.params[i]? = some p ∧ ts[i]? = some a ∧ find a p.ety = .ok none) :
    ∀ r, elabE dbg Γ (.call name args) ≠ .ok r :=
  elab_rejects_call ha fun c hc => by
    unfold NotCallable
    exact Or.inr (Or.inr (hn c hc))

/-- an rvalue argument for an `out` / `inout` parameter: never accepted -/
theorem elab_rejects_out_arg_rvalue {Γ : Env} {dbg : Bool} {name : Nat} {args : SArgs} {args' : IArgs} {ts : List ETy}
    (ha : elabArgs dbg Γ args = .ok (args', ts))
    (hn : ∀ c ∈ candidates Γ name, ∃ (i : Nat) (p : Param) (a : ETy), c.params[i]? = some p ∧ ts[i]? = some a ∧
      p.io.needsLvalue = true ∧ a.vt = .rvalue) :
    ∀ r, elabE dbg Γ (.call name args) ≠ .ok r :=
  elab_rejects_unconvertible ha fun c hc => by
    obtain ⟨i, p, a, hp, hta, hio, hv⟩ := hn c hc
    exact ⟨i, p, a, hp, hta, find_rejects_rvalue_to_lvalue a p.ety hv (by simp [Param.ety, hio])⟩

/-- a const argument for an `out` / `inout` parameter (whose type is not const): never accepted -/
theorem elab_rejects_out_arg_const {Γ : Env} {dbg : Bool} {name : Nat} {args : SArgs} {args' : IArgs} {ts : List ETy}
    (ha : elabArgs dbg Γ args = .ok (args', ts))
    (hn : ∀ c ∈ candidates Γ name, ∃ (i : Nat) (p : Param) (a : ETy), c.params[i]? = some p ∧ ts[i]? = some a ∧
      p.io.needsLvalue = true ∧ a.ty.mod.isConst = true ∧ p.ty.mod.isConst = false) :
    ∀ r, elabE dbg Γ (.call name args) ≠ .ok r :=
  elab_rejects_unconvertible ha fun c hc => by
    obtain ⟨i, p, a, hp, hta, hio, hca, hcp⟩ := hn c hc
    refine ⟨i, p, a, hp, hta, ?_⟩
    obtain ⟨r, hr⟩ := RsslVerif.Lemmas.Conv.find_no_panic a p.ety
    cases r with
    | none => exact hr
    | some c' =>
      exact absurd hr (find_keeps_const (by simp [Param.ety, hio]) (Or.inl ⟨hca, by simpa [Param.ety] using hcp⟩) c')

/-- `return e;` where `e` does not convert to the function's return type, and any `return e;` in a `void`
    function, are rejected with `WrongTypeInReturnStatement` -/
theorem elab_rejects_return_type {Γ : Env} {dbg : Bool} {e : SExpr} {e' : IExpr} {τ : ETy}
    (he : elabTop dbg Γ e = .ok (e', τ))
    (hr : Γ.ret = none ∨ ∃ rt, Γ.ret = some rt ∧ find τ rt.r = .ok none) :
    elabStmt dbg Γ (.ret (some e)) = .error (.reject "WrongTypeInReturnStatement") := by
  simp only [elabStmt, he]
  rcases hr with hr | ⟨rt, hr, hf⟩
  · simp [hr]
  · simp [hr, convert, hf]

/-- `return;` in a function that returns a value is rejected -/
theorem elab_rejects_return_void {Γ : Env} {dbg : Bool} {rt : Ty} (hr : Γ.ret = some rt) :
    elabStmt dbg Γ (.ret none) = .error (.reject "WrongTypeInReturnStatement") := by
  simp [elabStmt, hr]

/-- environment of the non-vacuity example: `int v0; S0 v1; const int v2; int f0(out int);` -/
def exEnv : Env :=
  { vars := [⟨{}, .scalar .int32⟩, ⟨{}, .other 0⟩, ⟨{ isConst := true }, .scalar .int32⟩],
    funcs := [⟨0, [⟨⟨{}, .scalar .int32⟩, .out⟩], 1, ⟨{}, .scalar .int32⟩⟩] }

def exRejected (e : SExpr) : Bool :=
  match elabE true exEnv e with
  | .error (.reject "FunctionArgumentTypeMismatch") => true
  | _ => false

/-- non-vacuity of the call theorems: with `int f0(out int)`: `f0(1)`, `f0(v0 + v0)`, `f0()`, `f0(v0, v0)`, `f0(s)` for
    a struct, `f0(c)` for a `const int` are all rejected by the model, and `f0(v0)` is accepted unchanged -/
example :
    (exRejected (.call 0 (.cons (.lit .intLiteral) .nil)) &&
     exRejected (.call 0 (.cons (.bin .add (.var 0) (.var 0)) .nil)) &&
     exRejected (.call 0 .nil) && exRejected (.call 0 (.cons (.var 0) (.cons (.var 0) .nil))) &&
     exRejected (.call 0 (.cons (.var 1) .nil)) && exRejected (.call 0 (.cons (.var 2) .nil)) &&
     (match elabE true exEnv (.call 0 (.cons (.var 0) .nil)) with
      | .ok (.call 0 (.cons (.var 0) .nil), _) => true
      | _ => false)) = true := by
  decide

/-! ## what the judgment says about operators (the asserts of `get_return_type` as consequences of `HasType`) -/

theorem opReturn_same {o : IOp} {a b : ETy} {τ : ETy} (ho : o.rule.sameTypes = true)
    (h : opReturn o [a, b] = .ok τ) : a.ty = b.ty := by
  by_cases hne : a.ty = b.ty
  · exact hne
  · exfalso
    simp [opReturn, ho, hne] at h
    repeat' split at h
    all_goals simp at h

theorem opReturn_lvalue {o : IOp} {a b : ETy} {τ : ETy} (ho : o.rule.lhsLvalue = true)
    (h : opReturn o [a, b] = .ok τ) : a.vt = .lvalue := by
  by_cases hv : a.vt = .lvalue
  · exact hv
  · exfalso
    simp [opReturn, ho, hv] at h
    repeat' split at h
    all_goals simp at h

/-- an assignment-family node that has a type has an lvalue left operand and both operands of exactly the same type -/
theorem assignment_operands {Γ : Env} {o : IOp} {a b : IExpr} {τ : ETy}
    (ho : o.rule.lhsLvalue = true ∧ o.rule.sameTypes = true)
    (h : HasType Γ (.op o (.cons a (.cons b .nil))) τ) :
    ∃ ta tb, HasType Γ a ta ∧ HasType Γ b tb ∧ ta.ty = tb.ty ∧ ta.vt = .lvalue := by
  cases h with
  | op hargs hret =>
    cases hargs with
    | cons ha hr =>
      cases hr with
      | cons hb hn =>
        cases hn
        exact ⟨_, _, ha, hb, opReturn_same ho.2 hret, opReturn_lvalue ho.1 hret⟩

/-- a binary operator node that has a type has two operands of exactly the same type -/
theorem binary_operands_equal {Γ : Env} {o : IOp} {a b : IExpr} {τ : ETy} (ho : o.rule.sameTypes = true)
    (h : HasType Γ (.op o (.cons a (.cons b .nil))) τ) :
    ∃ ta tb, HasType Γ a ta ∧ HasType Γ b tb ∧ ta.ty = tb.ty := by
  cases h with
  | op hargs hret =>
    cases hargs with
    | cons ha hr =>
      cases hr with
      | cons hb hn =>
        cases hn
        exact ⟨_, _, ha, hb, opReturn_same ho hret⟩

/-- every operator the elaboration of a binary source operator can produce asserts equal operand types, and the
    assignment family additionally an lvalue on the left (table fact, re-extracted from intrinsics.rs / expressions.rs) -/
theorem binop_rules (b : BinOp) (i : IOp) (h : b.toIOp = some i) :
    i.rule.sameTypes = true ∧ i.rule.arity = some 2 ∧ (b.cls = .assign → i.rule.lhsLvalue = true) := by
  cases b <;> simp [BinOp.toIOp] at h <;> subst h <;> decide

/-! ## exactness: what accepted assignments, operators and calls look like -/

/-- **Accepted assignments.**  An accepted `a op= b` elaborates to an assignment-family operator whose left operand
    is a non-const lvalue and whose right operand has exactly the type of the left one (the conversion is explicit);
    the result is the left operand's type. -/
theorem elab_assign_exact {Γ : Env} {dbg : Bool} {o : BinOp} {a b : SExpr} {e' : IExpr} {τ : ETy} (ho : o.cls = .assign)
    (h : elabE dbg Γ (.bin o a b) = .ok (e', τ)) :
    ∃ i a' b' ta tb, e' = .op i (.cons a' (.cons b' .nil)) ∧ HasType Γ a' ta ∧ HasType Γ b' tb ∧
      ta.ty = tb.ty ∧ ta.vt = .lvalue ∧ ta.ty.mod.isConst = false ∧ τ = ta := by
  have hs := elab_sound h
  simp only [elabE] at h
  split at h
  · simp at h
  · rename_i a1 τa ha
    have iha := elab_sound ha
    split at h
    · simp at h
    · rename_i b1 τb hb
      simp only [ho] at h
      split at h
      · simp at h
      · rename_i n τn hn
        obtain ⟨rfl, rfl⟩ := selfCheck_type h
        unfold elabAssign at hn
        split at hn
        · simp at hn
        · rename_i hconst
          split at hn
          · simp at hn
          · split at hn
            · simp at hn
            · split at hn
              · simp at hn
              · simp at hn
              · split at hn
                · simp at hn
                · rename_i i hi
                  split at hn
                  · simp at hn
                  · rename_i out hout
                    simp only [Except.ok.injEq, Prod.mk.injEq] at hn
                    obtain ⟨rfl, rfl⟩ := hn
                    obtain ⟨_, _, hl⟩ := binop_rules o i hi
                    obtain ⟨hsame, _, _⟩ := binop_rules o i hi
                    obtain ⟨ta, tb, h1, h2, h3, h4⟩ := assignment_operands ⟨hl ho, hsame⟩ hs
                    have hta : ta = τa := by
                      have e1 := typeOf_of_hasType _ _ h1
                      have e2 := typeOf_of_hasType _ _ iha
                      rw [e1] at e2; simpa using e2
                    subst hta
                    refine ⟨i, _, _, ta, tb, rfl, h1, h2, h3, h4, by simpa using hconst, ?_⟩
                    -- the result type is the left operand's type
                    have := typeOf_of_hasType _ _ hs
                    cases hs with
                    | op hargs hret =>
                      cases hargs with
                      | cons ha' hr =>
                        cases hr with
                        | cons hb' hn' =>
                          cases hn'
                          have e1 := typeOf_of_hasType _ _ ha'
                          have e2 := typeOf_of_hasType _ _ h1
                          rw [e1] at e2
                          simp at e2; subst e2
                          have hres : i.rule.result = .arg0 := by
                            cases o <;> simp [BinOp.cls] at ho <;> simp [BinOp.toIOp] at hi <;> subst hi <;> rfl
                          simp only [opReturn, hres] at hret
                          repeat' split at hret
                          all_goals (first | (simp at hret; done) | (simp at hret; exact hret.symm))

/-- **Accepted arithmetic / comparison / bit / logical operators** receive two operands of exactly the same type -/
theorem elab_arith_exact {Γ : Env} {dbg : Bool} {o : BinOp} {a b : SExpr} {e' : IExpr} {τ : ETy} (ho : o.cls = .arith)
    (h : elabE dbg Γ (.bin o a b) = .ok (e', τ)) :
    ∃ i a' b' ta tb, e' = .op i (.cons a' (.cons b' .nil)) ∧ HasType Γ a' ta ∧ HasType Γ b' tb ∧ ta.ty = tb.ty := by
  have hs := elab_sound h
  simp only [elabE] at h
  split at h
  · simp at h
  · split at h
    · simp at h
    · simp only [ho] at h
      split at h
      · simp at h
      · rename_i n τn hn
        obtain ⟨rfl, rfl⟩ := selfCheck_type h
        unfold elabArith at hn
        repeat' split at hn
        all_goals (first | (simp at hn; done) | skip)
        all_goals (
          unfold arithBuild at hn
          repeat' split at hn)
        all_goals (first | (simp at hn; done) | skip)
        all_goals (
          simp only [Except.ok.injEq, Prod.mk.injEq] at hn
          obtain ⟨rfl, rfl⟩ := hn
          rename_i i hi _ _ _
          obtain ⟨hsame, _, _⟩ := binop_rules o i hi
          obtain ⟨ta, tb, h1, h2, h3⟩ := binary_operands_equal hsame hs
          exact ⟨i, _, _, ta, tb, rfl, h1, h2, h3⟩)

/-- the scalar kind a vector / matrix operation is done in is never an untyped literal kind (table fact about the
    re-extracted `Gen.TypingTables.litVecRemap`) -/
theorem arithScalar_concrete (ts : Scalar) (dim : Dim) (hd : (Layer.ofDim (arithScalar ts dim) dim).isVecOrMat = true) :
    (Layer.ofDim (arithScalar ts dim) dim).extractScalar ≠ some .intLiteral ∧
    (Layer.ofDim (arithScalar ts dim) dim).extractScalar ≠ some .floatLiteral := by
  cases dim with
  | scalar => simp [Layer.ofDim, Layer.isVecOrMat] at hd
  | vector n => cases ts <;> simp [arithScalar, litVecRemap, Layer.ofDim, Layer.extractScalar]
  | matrix x y => cases ts <;> simp [arithScalar, litVecRemap, Layer.ofDim, Layer.extractScalar]

theorem elabArith_inv {o : BinOp} {a b n : IExpr} {τa τb τ' : ETy} (h : elabArith o a τa b τb = .ok (n, τ')) :
    ∃ ts dim ca cb, find τa (Ty.mk {} (Layer.ofDim (arithScalar ts dim) dim)).r = .ok (some ca) ∧
      find τb (Ty.mk {} (Layer.ofDim (arithScalar ts dim) dim)).r = .ok (some cb) ∧ arithBuild o ca cb a b = .ok (n, τ') := by
  unfold elabArith at h
  split at h
  all_goals (first | (simp at h; done) | skip)
  split at h
  all_goals (first | (simp at h; done) | skip)
  rename_i ts hts
  split at h
  all_goals (first | (simp at h; done) | skip)
  rename_i dim hdim
  split at h
  all_goals (first | (simp at h; done) | skip)
  rename_i ca hfa
  split at h
  all_goals (first | (simp at h; done) | skip)
  rename_i cb hfb
  exact ⟨ts, dim, ca, cb, hfa, hfb, h⟩

theorem arithBuild_inv {o : BinOp} {ca cb : Conversion} {a b n : IExpr} {τ' : ETy}
    (h : arithBuild o ca cb a b = .ok (n, τ')) :
    ∃ i a' b', applyConv ca a = .ok a' ∧ applyConv cb b = .ok b' ∧ n = .op i (.cons a' (.cons b' .nil)) := by
  unfold arithBuild at h
  split at h
  all_goals (first | (simp at h; done) | skip)
  split at h
  all_goals (first | (simp at h; done) | skip)
  split at h
  all_goals (first | (simp at h; done) | skip)
  split at h
  all_goals (first | (simp at h; done) | skip)
  rename_i a' haa
  split at h
  all_goals (first | (simp at h; done) | skip)
  rename_i b' hbb
  split at h
  all_goals (first | (simp at h; done) | skip)
  rename_i i hi
  split at h
  all_goals (first | (simp at h; done) | skip)
  simp only [Except.ok.injEq, Prod.mk.injEq] at h
  exact ⟨i, a', b', haa, hbb, h.1.symm⟩

/-- **Vector and matrix operators are done in a concrete scalar kind** (fix 40c6233): the two operands of an accepted
    arithmetic / comparison / bit operator that works on vectors or matrices never have the element kind `IntLiteral` /
    `FloatLiteral` (`v * 1.5` for `int3 v` used to be typed `Vector(FloatLiteral, 3)`, a type no target can express) -/
theorem elab_arith_vector_kind_concrete {Γ : Env} {dbg : Bool} {o : BinOp} {a b : SExpr} {e' : IExpr} {τ : ETy}
    (ho : o.cls = .arith) (h : elabE dbg Γ (.bin o a b) = .ok (e', τ)) :
    ∃ i a' b' ta tb, e' = .op i (.cons a' (.cons b' .nil)) ∧ HasType Γ a' ta ∧ HasType Γ b' tb ∧ ta.ty = tb.ty ∧
      (ta.ty.layer.isVecOrMat = true →
        ta.ty.layer.extractScalar ≠ some .intLiteral ∧ ta.ty.layer.extractScalar ≠ some .floatLiteral) := by
  obtain ⟨i, a', b', ta, tb, rfl, h1, h2, h3⟩ := elab_arith_exact ho h
  refine ⟨i, a', b', ta, tb, rfl, h1, h2, h3, ?_⟩
  simp only [elabE] at h
  split at h
  · simp at h
  · rename_i a1 τa ha
    have iha := elab_sound ha
    split at h
    · simp at h
    · simp only [ho] at h
      split at h
      · simp at h
      · rename_i n τn hn
        obtain ⟨hnn, _⟩ := selfCheck_type h
        obtain ⟨ts, dim, ca, cb, hfa, _, hb⟩ := elabArith_inv hn
        obtain ⟨i2, a2, b2, haa, _, rfl⟩ := arithBuild_inv hb
        simp at hnn
        obtain ⟨_, rfl, _⟩ := hnn
        obtain ⟨τa', t1, t2, _⟩ := applyConv_type iha hfa haa
        have e1 := typeOf_of_hasType _ _ t1
        have e2 := typeOf_of_hasType _ _ h1
        rw [e1] at e2
        simp at e2; subst e2
        rw [t2]
        exact arithScalar_concrete ts dim

/-- non-vacuity: `int3 v0; v0 * 1.5` is done in `float3` (both operands cast to `float3`), `bool3`-free `v0 + 1` stays `int3` -/
example :
    ((match elabE true { vars := [⟨{}, .vector .int32 3⟩], funcs := [] } (.bin .multiply (.var 0) (.lit .floatLiteral)) with
      | .ok (.op .multiply (.cons (.cast t1 (.var 0)) (.cons (.cast t2 (.lit .floatLiteral)) .nil)), τ) =>
        decide (τ = ⟨⟨{}, .vector .float32 3⟩, .rvalue⟩ ∧ t1 = ⟨{}, .vector .float32 3⟩ ∧ t2 = t1)
      | _ => false) &&
     (match elabE true { vars := [⟨{}, .vector .int32 3⟩], funcs := [] } (.bin .add (.var 0) (.lit .intLiteral)) with
      | .ok (_, τ) => decide (τ = ⟨⟨{}, .vector .int32 3⟩, .rvalue⟩)
      | _ => false)) = true := by decide

/-! ### `?:` with a vector / matrix arm (fix c05bffa) -/

theorem litTernRemap_concrete (s : Scalar) : litTernRemap s ≠ .intLiteral ∧ litTernRemap s ≠ .floatLiteral := by
  cases s <;> decide

theorem ofDim_concrete {s : Scalar} (d : Dim) (h : s ≠ .intLiteral ∧ s ≠ .floatLiteral) :
    (Layer.ofDim s d).extractScalar ≠ some .intLiteral ∧ (Layer.ofDim s d).extractScalar ≠ some .floatLiteral := by
  cases d <;> simp [Layer.ofDim, Layer.extractScalar, h.1, h.2]

theorem ternTargets_concrete {la lb lt rt : Layer} (h : ternTargets la lb = .ok (lt, rt)) (heq : lt = rt)
    (hv : lt.isVecOrMat = true) :
    lt.extractScalar ≠ some .intLiteral ∧ lt.extractScalar ≠ some .floatLiteral := by
  subst heq
  cases la <;> cases lb <;>
    simp [ternTargets, Layer.extractScalar, mostSignificantDimension, ternScalar, Layer.transformScalar] at h
  all_goals (try (obtain ⟨rfl, h2⟩ := h))
  all_goals (try (simp at h2; done))
  all_goals (try (simp [Layer.ofDim, Layer.isVecOrMat] at hv; done))
  all_goals (try (exact ofDim_concrete _ (litTernRemap_concrete _)))
  all_goals (try (simp [Layer.extractScalar]; exact litTernRemap_concrete _))
  all_goals (
    split at h
    all_goals (try (simp at h; done))
    all_goals (try (rename_i hs hd; simp at hs; done))
    all_goals (try (
      rename_i hs hd
      simp at hs; subst hs
      simp at h; obtain ⟨rfl, _⟩ := h
      exact ofDim_concrete _ (litTernRemap_concrete _)))
    all_goals (try (
      rename_i hs hd
      simp at hs; subst hs
      simp at h; obtain ⟨rfl, _⟩ := h
      simp [Layer.extractScalar]; exact litTernRemap_concrete _)))

theorem ternBuild_result {c a b n : IExpr} {τc τa τb d τ' : ETy} {ca cb : Conversion}
    (hfa : find τa d = .ok (some ca)) (hfb : find τb d = .ok (some cb))
    (h : ternBuild c τc ca cb a b = .ok (n, τ')) : τ' = d := by
  unfold ternBuild at h
  rw [targetType_ok hfa, targetType_ok hfb] at h
  split at h
  · simp at h
  · split at h
    · simp at h
    · simp only [ne_eq, not_true_eq_false, if_false] at h
      split at h
      · simp at h
      · split at h
        · simp at h
        · simp at h
        · simp at h; exact h.2.symm

theorem elabTern_result_layer {c a b n : IExpr} {τc τa τb τ' : ETy} (h : elabTern c τc a τa b τb = .ok (n, τ')) :
    ∃ lt rt, ternTargets τa.ty.layer τb.ty.layer = .ok (lt, rt) ∧ lt = rt ∧ τ'.ty.layer = lt := by
  unfold elabTern at h
  split at h
  · simp at h
  · rename_i lt rt htt
    split at h
    · simp at h
    · rename_i heq
      split at h
      all_goals (first | (simp at h; done) | skip)
      rename_i ca hfa
      split at h
      all_goals (first | (simp at h; done) | skip)
      rename_i cb hfb
      have := ternBuild_result hfa hfb h
      subst this
      exact ⟨lt, rt, htt, by simpa using heq, rfl⟩

/-- **A conditional expression with a vector / matrix arm has a concrete element kind** (fix c05bffa): the type of an accepted
    `c ? a : b` that is a vector or matrix never has the element kind `IntLiteral` / `FloatLiteral` (`c ? v : 1.5` for `int3 v`
    used to be typed `Vector(FloatLiteral, 3)`) -/
theorem elab_tern_vector_kind_concrete {Γ : Env} {dbg : Bool} {c a b : SExpr} {e' : IExpr} {τ : ETy}
    (h : elabE dbg Γ (.tern c a b) = .ok (e', τ)) (hv : τ.ty.layer.isVecOrMat = true) :
    τ.ty.layer.extractScalar ≠ some .intLiteral ∧ τ.ty.layer.extractScalar ≠ some .floatLiteral := by
  simp only [elabE] at h
  split at h
  · simp at h
  · split at h
    · simp at h
    · split at h
      · simp at h
      · split at h
        · simp at h
        · rename_i n τn hn
          obtain ⟨_, rfl⟩ := selfCheck_type h
          obtain ⟨lt, rt, htt, heq, hl⟩ := elabTern_result_layer hn
          rw [hl] at hv ⊢
          exact ternTargets_concrete htt heq hv

/-- **Accepted calls.**  The callee exists, the result has its return type, and every argument expression has
    exactly the type of its parameter — no implicit conversion remains. -/
theorem elab_call_args_exact {Γ : Env} {dbg : Bool} {name : Nat} {args : SArgs} {e' : IExpr} {τ : ETy}
    (h : elabE dbg Γ (.call name args) = .ok (e', τ)) :
    ∃ id s as' us, e' = .call id as' ∧ Γ.funcs[id]? = some s ∧ τ = s.ret.r ∧ HasArgs Γ as' us ∧
      ArgsMatch us s.params := by
  simp only [elabE] at h
  split at h
  · simp at h
  · split at h
    · simp at h
    · rename_i as1 ts ha
      have iha := elabArgs_sound_any dbg args as1 ts ha
      split at h
      · simp at h
      · rename_i n τn hn
        obtain ⟨rfl, rfl⟩ := selfCheck_type h
        obtain ⟨id, s, as'', _, hs, hca, _, rfl, rfl⟩ := elabCall_inv hn
        obtain ⟨us, h1, h2⟩ := castArgs_exact s.params as1 ts as'' iha hca
        exact ⟨id, s, as'', us, rfl, hs, rfl, h1, h2⟩

/-- **`out` / `inout` arguments are mutable lvalues.**  In an accepted call every argument given for an `out` / `inout`
    parameter is — under the IR's own typing rules — an lvalue of non-const type (`OutArgsPlaces`), hence never the result
    of a conversion (`out_arg_not_converted`): `check_output_arguments` runs on the arguments *after* `apply_casts`
    (fixes b359800, 3758fdd).  Before the fix `void f0(out int); int1 v0; f0(v0)` elaborated to `f0(Cast(int, v0))` — the
    former witness `out_arg_receives_cast`. -/
theorem elab_out_args_are_lvalues {Γ : Env} {dbg : Bool} {name : Nat} {args : SArgs} {e' : IExpr} {τ : ETy}
    (h : elabE dbg Γ (.call name args) = .ok (e', τ)) :
    ∃ id s as', e' = .call id as' ∧ Γ.funcs[id]? = some s ∧ OutArgsPlaces Γ s.params as' := by
  simp only [elabE] at h
  split at h
  · simp at h
  · split at h
    · simp at h
    · rename_i as1 ts ha
      have iha := elabArgs_sound_any dbg args as1 ts ha
      split at h
      · simp at h
      · rename_i n τn hn
        obtain ⟨rfl, rfl⟩ := selfCheck_type h
        obtain ⟨id, s, as'', _, hs, hca, hco, rfl, rfl⟩ := elabCall_inv hn
        obtain ⟨us, h1, _⟩ := castArgs_exact s.params as1 ts as'' iha hca
        exact ⟨id, s, as'', rfl, hs, checkOutArgs_places s.params as'' us h1 hco⟩

/-- an lvalue is not a `Cast` and not a re-tagged literal, the two nodes `ImplicitConversion::apply` can wrap an argument in -/
theorem out_arg_not_converted {Γ : Env} {e : IExpr} {τ : ETy} (he : HasType Γ e τ) (hv : τ.vt = .lvalue) :
    (∀ t x, e ≠ .cast t x) ∧ (∀ k, e ≠ .lit k) := lvalue_not_converted he hv

/-- the former witness is now rejected: `void f0(out int); int1 v0; f0(v0)` reports `LvalueRequired` (the argument would be
    `Cast(int, v0)`), like `inout int1` given an `int` and `out float2x2` given a `row_major float2x2`; `f0(v1)` with
    `int v1` is accepted with the variable itself as argument -/
def outEnv : Env :=
  { vars := [⟨{}, .vector .int32 1⟩, ⟨{}, .scalar .int32⟩, ⟨{ rest := 1 }, .matrix .float32 2 2⟩],
    funcs := [⟨0, [⟨⟨{}, .scalar .int32⟩, .out⟩], 1, ⟨{}, .scalar .int32⟩⟩,
              ⟨1, [⟨⟨{}, .vector .int32 1⟩, .inOut⟩], 1, ⟨{}, .scalar .int32⟩⟩,
              ⟨2, [⟨⟨{}, .matrix .float32 2 2⟩, .out⟩], 1, ⟨{}, .scalar .int32⟩⟩] }

def lvalueRequired (e : SExpr) : Bool :=
  match elabE true outEnv e with
  | .error (.reject "LvalueRequired") => true
  | _ => false

example :
    (lvalueRequired (.call 0 (.cons (.var 0) .nil)) && lvalueRequired (.call 1 (.cons (.var 1) .nil)) &&
     lvalueRequired (.call 2 (.cons (.var 2) .nil)) &&
     (match elabE true outEnv (.call 0 (.cons (.var 1) .nil)) with
      | .ok (.call 0 (.cons (.var 1) .nil), _) => true
      | _ => false)) = true := by decide

/-- writes to the source forms the property lists (literal, `a + b`, function result, and casts, `?:`, `a++`, `-a`, ...)
    are never accepted -/
theorem elab_rejects_assign_to_rvalue_form {Γ : Env} {dbg : Bool} {o : BinOp} {a b : SExpr} (ho : o.cls = .assign)
    (hf : isRvalueForm a = true) : ∀ r, elabE dbg Γ (.bin o a b) ≠ .ok r := by
  intro r h
  cases ha : elabE dbg Γ a with
  | error m => simp [elabE, ha] at h
  | ok p =>
    obtain ⟨a', τa⟩ := p
    exact elab_rejects_assign_to_rvalue ho ha (rvalue_forms hf ha) r h

/-- `++` / `--` on the same forms are never accepted -/
theorem elab_rejects_increment_of_rvalue_form {Γ : Env} {dbg : Bool} {o : UnOp} {e : SExpr}
    (ho : o = .prefixIncrement ∨ o = .prefixDecrement ∨ o = .postfixIncrement ∨ o = .postfixDecrement)
    (hf : isRvalueForm e = true) : ∀ r, elabE dbg Γ (.un o e) ≠ .ok r := by
  intro r h
  cases he : elabE dbg Γ e with
  | error m => simp [elabE, he] at h
  | ok p =>
    obtain ⟨e', τ⟩ := p
    exact elab_rejects_increment ho he (Or.inl (rvalue_forms hf he)) r h

end RsslVerif.Thm.C03

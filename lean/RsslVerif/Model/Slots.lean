import RsslVerif.Gen.SlotTables
/-!
# Model of `Module::assign_api_bindings` (ir/src/ir_module.rs)

A left fold over the root definitions with two finite maps (`used_slots`, `inline_size`),
mirroring `process_definition` arm by arm.  Numbers are unbounded `Nat`; the Rust code computes
in `u32` (`array_count * slice_cost`, `+=`), so the theorems carry the explicit guard
`NoOverflow` (every running total < 2^32) and the overflow behaviour is reported under C08.
-/
namespace RsslVerif.Model.Slots
open RsslVerif.Gen.SlotTables

/-- What `process_definition` looks at, per root definition. -/
inductive Decl where
  /-- Struct / StructTemplate / Enum / FunctionDeclaration / Function -/
  | other
  /-- `cbuffer` with optional explicit bind group (`lang_binding.set`) -/
  | cbuffer (set : Option Nat)
  /-- global variable: explicit group, has a static sampler initialiser, the object kind left after
      peeling modifier / one array layer / modifier, array length.  `kind = none` stands for every
      global `process_definition` leaves alone: a non-object type, or (since fix "do not allocate binding
      slots for static or groupshared globals") a global whose storage class is not `Extern` -/
  | global (set : Option Nat) (staticSampler : Bool) (kind : Option ObjKind) (len : Option Nat)
  deriving DecidableEq, Repr, Inhabited

inductive Loc where
  | index (n : Nat)
  | inline (offset : Nat)
  deriving DecidableEq, Repr, Inhabited

structure Binding where
  set : Nat
  loc : Loc
  slotType : Option RegT
  deriving DecidableEq, Repr, Inhabited

structure InlineBuf where
  set : Nat
  apiLocation : Nat
  sizeInBytes : Nat
  deriving DecidableEq, Repr, Inhabited

/-- finite map `u32 -> u32` as a total function with default 0 plus the list of keys ever inserted
    (the `HashMap`'s key set, in insertion order). -/
structure Counter where
  get : Nat → Nat
  keys : List Nat

def Counter.empty : Counter := { get := fun _ => 0, keys := [] }

/-- `match entry(set) { Occupied => {slot = *o; *o += n; slot}, Vacant => {insert(n); 0} }` -/
def Counter.bump (c : Counter) (set n : Nat) : Nat × Counter :=
  (c.get set,
   { get := fun s => if s = set then c.get set + n else c.get s,
     keys := if c.keys.contains set then c.keys else c.keys ++ [set] })

structure State where
  used : Counter
  inline : Counter

def State.init : State := { used := Counter.empty, inline := Counter.empty }

def slotCount (p : Params) (kind : Option ObjKind) (len : Option Nat) : Nat :=
  len.getD 1 * sliceCost p.metalSlotLayout kind

/-- One call of `process_definition`.  Since fix 774c0b4 ("a global of an object type that is not a resource is not
    given a register") no arm panics: `register_type = match tyl { Object(ot) => ot.get_register_type(), _ => None }`
    and only `Some(register_type)` is bound, so a global of a non-resource object kind (`RayDesc`, `RayQuery`,
    `TriangleStream`, the mips views) is left alone exactly like a non-object global.  The `Except` type is kept for
    the callers (`Module.assignApiBindings` still has the `assert!(!assigned_api_slots)` guard). -/
def step (p : Params) (dflt : Nat) (st : State) : Decl → Except String (State × Option Binding)
  | .other => .ok (st, none)
  | .cbuffer set =>
    let g := set.getD dflt
    let (idx, used') := st.used.bump g 1
    .ok ({ st with used := used' },
         some { set := g, loc := .index idx, slotType := if p.requireSlotType then some .B else none })
  | .global set ss kind len =>
    let g := set.getD dflt
    if ss && !p.staticSamplersHaveSlots then .ok (st, none) else
    match kind with
    | none => .ok (st, none)
    | some k =>
      let n := slotCount p (some k) len
      match registerType k with
      | none => .ok (st, none)
      | some r =>
        if p.supportBufferAddress && isBufferAddress k && len.isNone then
          let (off, inl') := st.inline.bump g (8 * n)
          .ok ({ st with inline := inl' }, some { set := g, loc := .inline off, slotType := none })
        else
          let (idx, used') := st.used.bump g n
          .ok ({ st with used := used' },
               some { set := g, loc := .index idx, slotType := if p.requireSlotType then some r else none })

def run (p : Params) (dflt : Nat) : State → List Decl → Except String (State × List (Option Binding))
  | st, [] => .ok (st, [])
  | st, d :: ds =>
    match step p dflt st d with
    | .error e => .error e
    | .ok (st', b) =>
      match run p dflt st' ds with
      | .error e => .error e
      | .ok (st'', bs) => .ok (st'', b :: bs)

/-- insertion sort on `set` (keys are distinct, so this is the derived `Ord` sort of the Rust code) -/
def insertBuf (b : InlineBuf) : List InlineBuf → List InlineBuf
  | [] => [b]
  | x :: xs => if b.set ≤ x.set then b :: x :: xs else x :: insertBuf b xs

def sortBufs : List InlineBuf → List InlineBuf
  | [] => []
  | x :: xs => insertBuf x (sortBufs xs)

def inlineBuffers (st : State) : List InlineBuf :=
  sortBufs (st.inline.keys.map fun g =>
    { set := g, apiLocation := st.used.get g, sizeInBytes := st.inline.get g })

structure Result where
  bindings : List (Option Binding)
  inlineBufs : List InlineBuf
  deriving DecidableEq, Repr

def assign (p : Params) (dflt : Nat) (ds : List Decl) : Except String Result :=
  match run p dflt State.init ds with
  | .error e => .error e
  | .ok (st, bs) => .ok { bindings := bs, inlineBufs := inlineBuffers st }

end RsslVerif.Model.Slots

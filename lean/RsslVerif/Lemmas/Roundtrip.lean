import RsslVerif.Lemmas.FmtParseTables
/-! Round trip `parse (toks (fmt e)) = e`: fuel-free relations, lifting between levels, inert tokens. -/
set_option linter.unusedSimpArgs false
set_option linter.unusedVariables false
namespace RsslVerif.Lemmas.Roundtrip
open RsslVerif.Gen.FmtTables RsslVerif.Gen.ParseTables RsslVerif.Model.Format RsslVerif.Model.Parse
open RsslVerif.Lemmas.FmtParseTables

/-- with enough fuel, level `k` reads `ts` as `out` -/
def Parses (k : Nat) (term : Terminator) (ts : List Tok) (out : Expr × List Tok) : Prop :=
  ∃ N, ∀ f, N ≤ f → parseLvl f k term ts = some out
/-- with enough fuel, level `k` continues from the operand `acc` to `out` -/
def Conts (k : Nat) (term : Terminator) (acc : Expr) (ts : List Tok) (out : Expr × List Tok) : Prop :=
  ∃ N, ∀ f, N ≤ f → cont f k term acc ts = some out

/-- level `k` does nothing in front of `ts` -/
def Inert (k : Nat) (term : Terminator) (ts : List Tok) : Prop := ∀ acc, Conts k term acc ts (acc, ts)
/-- no level below `k` does anything in front of `ts` -/
def NoLow (k : Nat) (term : Terminator) (ts : List Tok) : Prop := ∀ i, 1 ≤ i → i < k → Inert i term ts

def NoPrefix : List Tok → Prop
  | [] => True
  | t :: _ => prefixOp t = none

theorem NoLow.mono {k j term ts} (h : NoLow k term ts) (hj : j ≤ k) : NoLow j term ts :=
  fun i h1 h2 => h i h1 (Nat.lt_of_lt_of_le h2 hj)

theorem succ_of_pos {f N : Nat} (h : N + 1 ≤ f) : ∃ f', f = f' + 1 ∧ N ≤ f' := ⟨f - 1, by omega, by omega⟩

theorem cont2 (f : Nat) (term : Terminator) (acc : Expr) (ts : List Tok) :
    cont (f + 1) 2 term acc ts = some (acc, ts) := by
  simp [cont]

theorem conts2_eq {term acc ts out} (h : Conts 2 term acc ts out) : out = (acc, ts) := by
  obtain ⟨N, h⟩ := h
  have := h (N + 1) (by omega)
  rw [cont2] at this
  exact (Option.some.inj this).symm

theorem inert2 (term : Terminator) (ts : List Tok) : Inert 2 term ts :=
  fun acc => ⟨1, fun f hf => by obtain ⟨f', rfl, _⟩ := succ_of_pos hf; exact cont2 f' term acc ts⟩

/-- one level up: `parseLvl (k+1)` is `parseLvl k` followed by `cont (k+1)` (unless a prefix operator starts level 2) -/
theorem lift {k term ts a r out} (hp : Parses k term ts (a, r)) (hc : Conts (k + 1) term a r out)
    (h2 : k + 1 = 2 → NoPrefix ts) : Parses (k + 1) term ts out := by
  obtain ⟨N1, h1⟩ := hp
  obtain ⟨N2, hc⟩ := hc
  refine ⟨max N1 N2 + 1, fun f hf => ?_⟩
  obtain ⟨f', rfl, hf'⟩ := succ_of_pos hf
  unfold parseLvl
  by_cases hk : k + 1 = 2
  · have hnp := h2 hk
    obtain rfl : k = 1 := by omega
    cases ts with
    | nil => simp [hk, h1 f' (by omega), hc f' (by omega)]
    | cons t rest =>
      simp only [NoPrefix] at hnp
      simp [hk, hnp, h1 f' (by omega), hc f' (by omega)]
  · simp [hk, h1 f' (by omega), hc f' (by omega)]

/-- several levels up through levels that do nothing in front of `rest` -/
theorem raise {j term ts e rest} (hp : Parses j term ts (e, rest)) (hnp : j < 2 → NoPrefix ts) :
    ∀ d out, (∀ i, j < i → i < j + d + 1 → Inert i term rest) → Conts (j + d + 1) term e rest out →
      Parses (j + d + 1) term ts out := by
  intro d
  induction d with
  | zero =>
    intro out _ hc
    exact lift hp hc (fun h => hnp (by omega))
  | succ d ih =>
    intro out hin hc
    have hmid : Parses (j + d + 1) term ts (e, rest) :=
      ih (e, rest) (fun i h1 h2 => hin i h1 (by omega)) (hin (j + d + 1) (by omega) (by omega) e)
    exact lift hmid hc (fun h => hnp (by omega))

/-- the head token does not continue a postfix chain -/
def NoPostfix : List Tok → Prop
  | [] => True
  | t :: _ => t ≠ .p .PlusPlus ∧ t ≠ .p .MinusMinus ∧ t ≠ .p .Period ∧ t ≠ .p .LeftSquareBracket ∧ t ≠ .p .LeftParen

def NoQuestion : List Tok → Prop
  | [] => True
  | t :: _ => t ≠ .p .QuestionMark

/-- a level does nothing when its trigger is absent -/
theorem inert_of (k : Nat) (term : Terminator) (ts : List Tok)
    (h1 : k = 1 → NoPostfix ts) (h13 : k = 13 → NoQuestion ts)
    (hop : k ≠ 1 → k ≠ 2 → k ≠ 13 → parseOpAt k term ts = none) : Inert k term ts := by
  intro acc
  refine ⟨1, fun f hf => ?_⟩
  obtain ⟨f', rfl, _⟩ := succ_of_pos hf
  unfold cont
  by_cases k1 : k = 1
  · subst k1
    have := h1 rfl
    cases ts with
    | nil => simp
    | cons t rest =>
      obtain ⟨a, b, c, d, e⟩ := this
      simp only [if_true]
      split <;> simp_all
  · by_cases k2 : k = 2
    · simp [k2]
    · by_cases k13 : k = 13
      · subst k13
        have := h13 rfl
        cases ts with
        | nil => simp
        | cons t rest =>
          simp only [NoQuestion] at this
          simp only [k1, k2, if_false, if_true]
          split <;> simp_all
      · have := hop k1 k2 k13
        by_cases k14 : k = 14
        · subst k14; simp [this]
        · simp [k1, k2, k13, k14, this]

theorem inert_nil (k : Nat) (term : Terminator) : Inert k term [] :=
  inert_of k term [] (fun _ => trivial) (fun _ => trivial) (fun _ _ _ => parseOpAt_nil term k)

/-- closing tokens: nothing continues in front of `)`, `]`, `:`, `;`, and `,` under `Sequence` -/
def Closes (term : Terminator) (t : Tok) : Prop :=
  t = .p .RightParen ∨ t = .p .RightSquareBracket ∨ t = .p .Colon ∨ t = .p .Semicolon ∨
  (t = .p .Comma ∧ term = .Sequence)

theorem inert_closes (k : Nat) (term : Terminator) (t : Tok) (rest : List Tok) (h : Closes term t) :
    Inert k term (t :: rest) := by
  apply inert_of
  · intro _; rcases h with rfl | rfl | rfl | rfl | ⟨rfl, _⟩ <;> simp [NoPostfix]
  · intro _; rcases h with rfl | rfl | rfl | rfl | ⟨rfl, _⟩ <;> simp [NoQuestion]
  · intro _ _ _
    apply parseOpAt_closer
    rcases h with rfl | rfl | rfl | rfl | ⟨rfl, h'⟩ <;> simp_all [Closer]

theorem noLow_closes (k : Nat) (term : Terminator) (t : Tok) (rest : List Tok) (h : Closes term t) :
    NoLow k term (t :: rest) := fun i _ _ => inert_closes i term t rest h

theorem noLow_nil (k : Nat) (term : Terminator) : NoLow k term [] := fun i _ _ => inert_nil i term

/-- `?` is seen by level 13 only -/
theorem inert_question (k : Nat) (term : Terminator) (rest : List Tok) (hk : k ≠ 13) :
    Inert k term (.p .QuestionMark :: rest) := by
  apply inert_of
  · intro _; simp [NoPostfix]
  · intro h; exact absurd h hk
  · intro _ _ _; exact parseOpAt_closer term _ rest k (by simp [Closer])

/-- the tokens of a binary operator are seen by no level below the operator's own -/
theorem inert_binToks (op : BinOp) (k : Nat) (term : Terminator) (rest : List Tok)
    (hr : OperandStart rest) (hk : k < binLevel op) : Inert k term (binToks op ++ rest) := by
  apply inert_of
  · intro _; cases op <;> simp [binToks, NoPostfix]
  · intro _; cases op <;> simp [binToks, NoQuestion]
  · intro _ _ _; exact parseOpAt_lower op term rest k hr hk

end RsslVerif.Lemmas.Roundtrip

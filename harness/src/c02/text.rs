//! C02, text leg: what the user receives from the Metal back end is TEXT, the rest of C02 reads the exporter's syntax TREE
//! (hook `verif_generate_ast`).  For every program of the semantic streams (C02.gen / C02.vfn / C02.vex / C02.dup):
//!
//! (a) tie      the text of the public route `rssl_msl::export_to_msl(ir).source` is `rssl_formatter::format(tree, Msl)`
//!              of the hooked tree (so the tree the evaluators read is the tree that is printed);
//! (b) trip     the body of every emitted function (methods of structs and functions in namespaces included) and every
//!              initialiser of a file-scope variable, printed by the real formatter for `Target::Msl` and read back by the
//!              real rssl preprocessor + parser (C09's harness code: `c09::statement_text_trip`), is the SAME tree.  A body
//!              the rssl parser cannot read as a whole (Metal-only syntax) is retried statement by statement; what stays
//!              unreadable is counted (`text:stmt:unreadable:*`), never judged.
//!              A tree that reads back differently (`a + (b + c)` printed `a + b + c`) is a FAIL of every request of that
//!              function; in the scalar stream the re-read tree is also run by the Metal evaluator against the IR.
use crate::c09::{statement_text_trip, TextTrip};
use crate::util::*;
use rssl_ast as ast;
use rssl_text::Located;
use std::collections::BTreeMap;

#[derive(Default)]
pub struct TextReport {
    /// failures that concern the whole module (tie, file-scope initialisers)
    pub module_fails: Vec<String>,
    /// emitted function name -> failures of its definitions (trampoline target, trampoline, overloads)
    pub per_fn: BTreeMap<String, Vec<String>>,
    /// the module with every readable function body replaced by what the parser read from the printed text
    pub reread: Option<ast::Module>,
    /// some body of the re-read module differs from the original
    pub differs: bool,
}

impl TextReport {
    pub fn fails_for(&self, emitted_name: &str) -> Vec<String> {
        let mut v = self.module_fails.clone();
        if let Some(f) = self.per_fn.get(emitted_name) {
            v.extend(f.iter().cloned());
        }
        v
    }
}

fn stmt_of(kind: ast::StatementKind) -> ast::Statement {
    ast::Statement { kind, location: rssl_text::SourceLocation::UNKNOWN, attributes: Vec::new() }
}

/// one statement through the text; `Ok(re-read statement)` when readable (same or different), `Err(())` when not
fn trip(s: &ast::Statement, what: &str, fails: &mut Vec<String>, differs: &mut bool, hist: &mut Hist, unit: &str) -> Result<ast::Statement, ()> {
    match statement_text_trip(s, rssl_formatter::Target::Msl) {
        TextTrip::Same(_, s2) => {
            hist.add(&format!("text:{}:same", unit));
            Ok(s2)
        }
        TextTrip::Unreadable(stage, text) => {
            if unit != "fn" && std::env::var("C02_TEXT_DEBUG").is_ok() {
                eprintln!("unreadable {} {}: {}", unit, stage, text);
            }
            hist.add(&format!("text:{}:unreadable:{}", unit, stage.split(' ').next().unwrap_or("?")));
            Err(())
        }
        TextTrip::Differs(text, sig, orig, back, s2) => {
            if std::env::var("C02_TEXT_DEBUG").is_ok() {
                eprintln!("differs {} [{}]\n  text {}\n  orig {}\n  back {}", unit, sig, text, orig, back);
            }
            // the rssl reader takes `a < b ? x : c > (d)` for the call `a<..>(d)` of a template; in Metal (C++) a variable name
            // is never a template name, so the text is the comparison the tree says: the READER cannot read it, not judged
            let targs = |t: &str| t.matches(") ((E ").count() + t.matches(") ((T ").count();
            if targs(&back) > targs(&orig) {
                hist.add(&format!("text:{}:unreadable:template-ambiguity", unit));
                return Err(());
            }
            hist.add(&format!("text:{}:DIFFERS", unit));
            *differs = true;
            let cut = |s: &str| s.chars().take(300).collect::<String>();
            fails.push(format!(
                "class:emitted-text-reads-as-another-tree ## {}: the tree the exporter hands to the formatter is printed (Target::Msl) as `{}` which reads back as another tree [{}]: tree {} text {}",
                what,
                cut(&text),
                sig,
                cut(&orig),
                cut(&back)
            ));
            Ok(s2)
        }
        TextTrip::Panic(p) => {
            hist.add(&format!("text:{}:panic", unit));
            fails.push(format!("panic {}", p));
            Err(())
        }
    }
}

fn function(f: &mut ast::FunctionDefinition, rep: &mut TextReport, hist: &mut Hist) {
    let body = match &f.body {
        Some(b) => b.clone(),
        None => return,
    };
    let name = f.name.node.clone();
    let mut fails = Vec::new();
    let what = format!("function {}", name);
    let whole = stmt_of(ast::StatementKind::Block(body.clone()));
    let mut differs = false;
    match trip(&whole, &what, &mut fails, &mut differs, hist, "fn") {
        Ok(ast::Statement { kind: ast::StatementKind::Block(b2), .. }) => f.body = Some(b2),
        Ok(_) => {}
        Err(()) => {
            // statement by statement: one unreadable construct does not hide the rest of the function
            let mut new_body = Vec::new();
            for s in &body {
                match trip(s, &what, &mut fails, &mut differs, hist, "stmt") {
                    Ok(s2) => new_body.push(s2),
                    Err(()) => new_body.push(s.clone()),
                }
            }
            f.body = Some(new_body);
        }
    }
    rep.differs |= differs;
    if !fails.is_empty() {
        rep.per_fn.entry(name).or_default().extend(fails);
    }
}

fn defs(ds: &mut [ast::RootDefinition], rep: &mut TextReport, hist: &mut Hist) {
    for d in ds.iter_mut() {
        match d {
            ast::RootDefinition::Function(f) => function(f, rep, hist),
            ast::RootDefinition::Namespace(_, inner) => defs(inner, rep, hist),
            ast::RootDefinition::Struct(s) => {
                for m in s.members.iter_mut() {
                    if let ast::StructEntry::Method(f) = m {
                        function(f, rep, hist);
                    }
                }
            }
            ast::RootDefinition::GlobalVariable(g) => {
                for def in g.defs.iter_mut() {
                    if let Some(ast::Initializer::Expression(e)) = &def.init {
                        let s = stmt_of(ast::StatementKind::Return(Some(Located::none(e.node.clone()))));
                        let mut fails = Vec::new();
                        let mut differs = false;
                        let r = trip(&s, "initialiser of a file-scope variable", &mut fails, &mut differs, hist, "init");
                        rep.differs |= differs;
                        rep.module_fails.extend(fails);
                        if let Ok(ast::Statement { kind: ast::StatementKind::Return(Some(e2)), .. }) = r {
                            def.init = Some(ast::Initializer::Expression(e2));
                        }
                    }
                }
            }
            _ => {}
        }
    }
}

/// the text leg for one exported module (`tree` = what the hook returned for `ir`)
pub fn check_module(ir: &rssl::ir::Module, tree: &ast::Module, hist: &mut Hist) -> TextReport {
    let mut rep = TextReport::default();
    hist.add("text:modules");
    // (a) the public route prints this tree
    let printed = guard(|| rssl_formatter::format(tree, rssl_formatter::Target::Msl));
    let public = guard(|| rssl_msl::export_to_msl(ir));
    match (&printed, &public) {
        (Ok(Ok(t)), Ok(Ok(src))) => {
            if *t == src.source {
                hist.add("text:tie:same");
            } else {
                hist.add("text:tie:DIFFERS");
                let at = t.bytes().zip(src.source.bytes()).take_while(|(a, b)| a == b).count();
                let cut = |s: &str| one_line(&s.chars().skip(at.saturating_sub(30)).take(90).collect::<String>());
                rep.module_fails.push(format!(
                    "class:exported-text-is-not-the-printed-tree ## export_to_msl's text differs from format(verif_generate_ast tree, Msl) at byte {}: `{}` vs `{}`",
                    at,
                    cut(&src.source),
                    cut(t)
                ));
            }
        }
        (Ok(Ok(_)), Ok(Err(e))) => {
            hist.add("text:tie:public-route-refuses");
            rep.module_fails.push(format!("export_to_msl refuses ({}) a module whose tree the hook produced", one_line(&format!("{:?}", e)).chars().take(80).collect::<String>()));
        }
        (Ok(Err(_)), _) => hist.add("text:tie:tree-not-printable"),
        (Err(p), _) | (_, Err(p)) => {
            hist.add("text:tie:panic");
            rep.module_fails.push(format!("panic {}", p));
        }
    }
    // (b) every body through the text
    let mut m2 = tree.clone();
    defs(&mut m2.root_definitions, &mut rep, hist);
    rep.reread = Some(m2);
    rep
}

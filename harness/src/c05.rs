//! C05: reflection metadata agrees with the emitted source.
//!
//! request : see `c05/case.rs` (a self-contained description of a shader file)
//! observe : per built pipeline, joined by " ## ":
//!   M[group|group..]   metadata: entries `name=i<slot>|n<offset>:DescriptorType:count|-:b<bindless>:u<used>:s<static sampler>`,
//!                      `;inl=<slot>/<bytes>` when the group has an inline constant buffer
//!   A[..]              binding annotations found in the *emitted source* (HLSL: re-parsed with the real rssl lexer+parser;
//!                      MSL: text scan), `name=>[struct/]annotation text`, sorted
//!   S[..]              reported stages `Stage:entry:x.y.z|-`
//!   F[..]              for each reported stage the function of that name found in the emitted source with the *values* of
//!                      its numthreads attributes (HLSL; several attributes joined by `/`) / of its
//!                      max_total_threads_per_threadgroup attributes (MSL), or `!missing(name)`
//!   or `err:<Class>` when the front end refuses the file with one of the errors the model follows
//! oracle  : independent of the Lean model (see `judge`): every metadata entry matches annotation, declared type and
//!           array length of the declaration with that name; every externally bound declaration has exactly one entry;
//!           inline constant blocks match; every reported stage names a defined function with the reported size;
//!           reachable bindings are never reported unused, and on Metal used => reachable (reachability from the
//!           request's own use graph: bodies, default arguments, global initialisers). Supporting observables outside
//!           the property's sentence (judged against the request): static sampler parameters, graphics pipeline state.
use crate::compile_util::*;
use crate::progen;
use crate::util::*;
use rssl::ast;
use std::collections::{BTreeMap, BTreeSet};

#[path = "c05/case.rs"]
mod case;
#[path = "c05/state.rs"]
mod state;
use case::*;

// ------------------------------------------------------------------------------------------------ real compile

enum Raw {
    Ok(Vec<rssl::CompiledPipeline>),
    Err(String),
    Panic(String),
}

fn compile_raw(src: &str, target: Tgt, mode: &Mode) -> Raw {
    let r = guard(|| {
        let mut inc = MemFiles(vec![("main.rssl".to_string(), src.to_string())]);
        let mut args = rssl::CompileArgs::new("main.rssl", &mut inc, target.target())
            .support_buffer_address(target.buffer_address());
        match mode {
            Mode::All => {}
            Mode::Named(n) => args = args.pipeline_name(Some(n.as_str())),
            Mode::NoPipeline => args = args.no_pipeline_mode(),
        }
        rssl::compile(args).map_err(|e| format!("{}", e))
    });
    match r {
        Ok(Ok(v)) => Raw::Ok(v),
        Ok(Err(e)) => Raw::Err(e),
        Err(p) => Raw::Panic(p),
    }
}

// ------------------------------------------------------------------------------------------------ what the emitted source declares

#[derive(Clone, Debug, Default)]
struct SrcDecl {
    name: String,
    /// struct the declaration is a member of (InlineDescriptor<n> / ArgumentBuffer<n>), if any
    in_struct: Option<String>,
    /// canonical annotation texts found on the declaration
    annots: Vec<String>,
    /// (register letter, index, space) / (index, set) / offset / id
    reg: Option<(char, u32, u32)>,
    vk: Option<(u32, u32)>,
    offset: Option<u32>,
    id: Option<u32>,
    /// head of the declared type, e.g. `Texture2D`, `cbuffer`, `uint64_t`, `metal::texture2d`
    ty: String,
    arr: Option<ArrLen>,
    is_static: bool,
    /// `= g_inlineDescriptor<n>.<member>`
    inline_init: Option<(String, String)>,
}

#[derive(Clone, Debug, Default)]
struct SrcFunc {
    name: String,
    has_body: bool,
    /// values of every numthreads attribute (HLSL) or the totals of every max_total_threads_per_threadgroup
    /// attribute (MSL, in .0); `None` = an argument that could not be evaluated
    threads: Vec<Option<(u128, u128, u128)>>,
    /// MSL: stage attribute (`kernel`, `vertex`, ..) and `[[buffer(i)]]` parameters (struct name, param name, i)
    stage_attr: Option<String>,
    buffers: Vec<(String, String, u32)>,
}

#[derive(Default, Debug)]
struct Emitted {
    decls: Vec<SrcDecl>,
    funcs: Vec<SrcFunc>,
    structs: Vec<String>,
    /// type heads of the members of every struct of the emitted source
    struct_members: BTreeMap<String, Vec<String>>,
    /// initialiser expressions of the globals (to evaluate named constants inside numthreads arguments)
    consts: BTreeMap<String, ast::Expression>,
}

fn parse_hlsl(src: &str) -> Result<ast::Module, String> {
    use rssl::text::CompileErrorExt;
    let mut sm = rssl::text::SourceManager::new();
    let mut inc = MemFiles(vec![("out.hlsl".to_string(), src.to_string())]);
    let tokens = match rssl::preprocess::preprocess("out.hlsl", &mut sm, &mut inc, &[("__HLSL_VERSION", "2021")]) {
        Ok(t) => t,
        Err(e) => return Err(format!("preprocess: {}", e.display(&sm))),
    };
    let tokens = rssl::preprocess::prepare_tokens(&tokens);
    match rssl::parser::parse(&tokens) {
        Ok(m) => Ok(m),
        Err(e) => Err(format!("parse: {}", e.display(&sm))),
    }
}

fn lit_u64(e: &ast::Expression) -> Option<u64> {
    match e {
        ast::Expression::Literal(ast::Literal::IntUntyped(v))
        | ast::Expression::Literal(ast::Literal::IntUnsigned32(v))
        | ast::Expression::Literal(ast::Literal::IntUnsigned64(v)) => Some(*v),
        ast::Expression::Literal(ast::Literal::IntSigned64(v)) if *v >= 0 => Some(*v as u64),
        _ => None,
    }
}

/// value of a constant integer expression of the emitted source (literals, named constants, + - * /, casts)
fn eval_const(e: &ast::Expression, consts: &BTreeMap<String, ast::Expression>, depth: u32) -> Option<u128> {
    if depth > 16 {
        return None;
    }
    if let Some(v) = lit_u64(e) {
        return Some(v as u128);
    }
    match e {
        ast::Expression::Identifier(id) => {
            let name = &id.identifiers.last()?.node;
            eval_const(consts.get(name)?, consts, depth + 1)
        }
        ast::Expression::BinaryOperation(op, l, r) => {
            let a = eval_const(&l.node, consts, depth + 1)?;
            let b = eval_const(&r.node, consts, depth + 1)?;
            match op {
                ast::BinOp::Add => a.checked_add(b),
                ast::BinOp::Subtract => a.checked_sub(b),
                ast::BinOp::Multiply => a.checked_mul(b),
                ast::BinOp::Divide => a.checked_div(b),
                _ => None,
            }
        }
        ast::Expression::Cast(_, inner) => eval_const(&inner.node, consts, depth + 1),
        ast::Expression::AmbiguousParseBranch(bs) => bs.iter().find_map(|b| eval_const(&b.expr.node, consts, depth + 1)),
        _ => None,
    }
}

fn attr_name(a: &ast::Attribute) -> String {
    a.name.iter().map(|n| n.node.clone()).collect::<Vec<_>>().join("::")
}

fn attr_args(a: &ast::Attribute) -> Option<Vec<u64>> {
    a.arguments.iter().map(|e| lit_u64(&e.node)).collect()
}

fn declarator_name(d: &ast::Declarator) -> (Option<String>, Option<ArrLen>) {
    match d {
        ast::Declarator::Empty => (None, None),
        ast::Declarator::Identifier(id, _) => (id.identifiers.last().map(|s| s.node.clone()), None),
        ast::Declarator::Pointer(p) => declarator_name(&p.inner),
        ast::Declarator::Reference(r) => declarator_name(&r.inner),
        ast::Declarator::Array(a) => {
            let (n, inner) = declarator_name(&a.inner);
            let len = match &a.array_size {
                None => ArrLen::Unsized,
                Some(e) => match lit_u64(&e.node) {
                    Some(v) => ArrLen::Sized(v as u32),
                    None => ArrLen::Unsized,
                },
            };
            let len = match (inner, len) {
                (None, l) => l,
                (Some(ArrLen::Sized(a)), ArrLen::Sized(b)) => ArrLen::Nested(a, b),
                (Some(_), _) => ArrLen::Nested(0, 0),
            };
            (n, Some(len))
        }
    }
}

fn type_head(t: &ast::Type) -> String {
    t.layout.0.identifiers.iter().map(|s| s.node.clone()).collect::<Vec<_>>().join("::")
}

fn register_text(r: &ast::Register) -> String {
    let mut s = String::from(" : register(");
    if let Some(slot) = &r.slot {
        s.push_str(&format!("{}{}", slot.slot_type, slot.index));
    }
    if r.slot.is_some() && r.space.is_some() {
        s.push_str(", ");
    }
    if let Some(sp) = r.space {
        s.push_str(&format!("space{}", sp));
    }
    s.push(')');
    s
}

fn attr_text(a: &ast::Attribute, args: &[u64]) -> String {
    let mut s = format!("[[{}", attr_name(a));
    if !args.is_empty() {
        s.push('(');
        s.push_str(&args.iter().map(|v| v.to_string()).collect::<Vec<_>>().join(", "));
        s.push(')');
    }
    s.push_str("]]");
    s
}

fn apply_annotations(d: &mut SrcDecl, locs: &[ast::LocationAnnotation], attrs: &[ast::Attribute]) {
    for l in locs {
        if let ast::LocationAnnotation::Register(r) = l {
            d.annots.push(register_text(r));
            if let Some(slot) = &r.slot {
                let letter = format!("{}", slot.slot_type).chars().next().unwrap_or('?');
                d.reg = Some((letter, slot.index, r.space.unwrap_or(0)));
            }
        }
    }
    for a in attrs {
        let n = attr_name(a);
        if let Some(args) = attr_args(a) {
            if n == "vk::binding" && (args.len() == 1 || args.len() == 2) {
                d.annots.push(attr_text(a, &args));
                d.vk = Some((args[0] as u32, args.get(1).copied().unwrap_or(0) as u32));
            } else if n == "vk::offset" && args.len() == 1 {
                d.annots.push(attr_text(a, &args));
                d.offset = Some(args[0] as u32);
            }
        }
    }
}

/// first pass: named constants (they may be referenced before the function that uses them is visited)
fn collect_consts(defs: &[ast::RootDefinition], out: &mut Emitted) {
    for def in defs {
        match def {
            ast::RootDefinition::Namespace(_, inner) => collect_consts(inner, out),
            ast::RootDefinition::GlobalVariable(gv) => {
                for idecl in &gv.defs {
                    if let (Some(name), Some(ast::Initializer::Expression(e))) = (declarator_name(&idecl.declarator).0, &idecl.init) {
                        out.consts.insert(name, e.node.clone());
                    }
                }
            }
            _ => {}
        }
    }
}

fn walk_hlsl(defs: &[ast::RootDefinition], out: &mut Emitted) {
    for def in defs {
        match def {
            ast::RootDefinition::Namespace(_, inner) => walk_hlsl(inner, out),
            ast::RootDefinition::Struct(sd) => {
                out.structs.push(sd.name.node.clone());
                let mut heads = Vec::new();
                for m in &sd.members {
                    if let ast::StructEntry::Variable(v) = m {
                        heads.push(type_head(&v.ty));
                    }
                }
                out.struct_members.insert(sd.name.node.clone(), heads);
                if sd.name.node.starts_with("InlineDescriptor") {
                    for m in &sd.members {
                        if let ast::StructEntry::Variable(v) = m {
                            for idecl in &v.defs {
                                let (name, arr) = declarator_name(&idecl.declarator);
                                let mut d = SrcDecl {
                                    name: name.unwrap_or_default(),
                                    in_struct: Some(sd.name.node.clone()),
                                    ty: type_head(&v.ty),
                                    arr,
                                    ..Default::default()
                                };
                                apply_annotations(&mut d, &idecl.location_annotations, &v.attributes);
                                out.decls.push(d);
                            }
                        }
                    }
                }
            }
            ast::RootDefinition::ConstantBuffer(cb) => {
                let mut d = SrcDecl { name: cb.name.node.clone(), ty: "cbuffer".into(), ..Default::default() };
                apply_annotations(&mut d, &cb.location_annotations, &cb.attributes);
                out.decls.push(d);
            }
            ast::RootDefinition::GlobalVariable(gv) => {
                let is_static = gv.global_type.modifiers.modifiers.iter().any(|m| {
                    matches!(m.node, ast::TypeModifier::Static | ast::TypeModifier::GroupShared)
                });
                for idecl in &gv.defs {
                    let (name, arr) = declarator_name(&idecl.declarator);
                    let mut d = SrcDecl {
                        name: name.unwrap_or_default(),
                        ty: type_head(&gv.global_type),
                        arr,
                        is_static,
                        ..Default::default()
                    };
                    apply_annotations(&mut d, &idecl.location_annotations, &gv.attributes);
                    if let Some(ast::Initializer::Expression(e)) = &idecl.init {
                        if let ast::Expression::Member(obj, member) = &e.node {
                            if let ast::Expression::Identifier(id) = &obj.node {
                                if let (Some(o), Some(m)) = (id.identifiers.last(), member.identifiers.last()) {
                                    d.inline_init = Some((o.node.clone(), m.node.clone()));
                                }
                            }
                        }
                    }
                    out.decls.push(d);
                }
            }
            ast::RootDefinition::Function(f) => {
                let mut sf = SrcFunc { name: f.name.node.clone(), has_body: f.body.is_some(), ..Default::default() };
                for a in &f.attributes {
                    if attr_name(a) == "numthreads" {
                        let vals: Vec<Option<u128>> = a.arguments.iter().map(|e| eval_const(&e.node, &out.consts, 0)).collect();
                        sf.threads.push(match vals.as_slice() {
                            [Some(x), Some(y), Some(z)] => Some((*x, *y, *z)),
                            _ => None,
                        });
                    }
                }
                out.funcs.push(sf);
            }
            _ => {}
        }
    }
}

/// the initialiser expression of `static const uint X = <text>;` as the rssl parser reads it
fn parse_expr_text(text: &str) -> Option<ast::Expression> {
    let m = parse_hlsl(&format!("static const uint c05_probe = {};\n", text)).ok()?;
    for def in &m.root_definitions {
        if let ast::RootDefinition::GlobalVariable(gv) = def {
            if let Some(ast::Initializer::Expression(e)) = gv.defs.first().and_then(|d| d.init.as_ref()) {
                return Some(e.node.clone());
            }
        }
    }
    None
}

/// light scan of the emitted Metal source: argument buffer structs, named constants and stage entry functions
fn scan_msl(src: &str) -> Emitted {
    let mut out = Emitted::default();
    let lines: Vec<&str> = src.lines().collect();
    for l in &lines {
        // constant uint c_nt0 = 8u;
        if let Some(rest) = l.strip_prefix("constant ") {
            if let (Some(eq), true) = (rest.find(" = "), rest.ends_with(';')) {
                let name = rest[..eq].rsplit(' ').next().unwrap_or("").to_string();
                if let Some(e) = parse_expr_text(&rest[eq + 3..rest.len() - 1]) {
                    out.consts.insert(name, e);
                }
            }
        }
    }
    let mut i = 0;
    while i < lines.len() {
        let l = lines[i];
        if let Some(name) = l.strip_prefix("struct ") {
            let name = name.trim().to_string();
            out.structs.push(name.clone());
            if name.starts_with("ArgumentBuffer") {
                i += 1;
                while i < lines.len() && !lines[i].starts_with("};") {
                    let m = lines[i].trim();
                    if let Some(rest) = m.strip_prefix("[[id(") {
                        if let Some(close) = rest.find(")]]") {
                            let id: Option<u32> = rest[..close].parse().ok();
                            let decl = rest[close + 3..].trim().trim_end_matches(';').trim();
                            // last identifier = member name, before it = type
                            let cut = decl.rfind(|c: char| !(c.is_alphanumeric() || c == '_')).map(|k| k + 1).unwrap_or(0);
                            let (ty, nm) = decl.split_at(cut);
                            let mut ty = ty.trim().trim_end_matches('&').trim().to_string();
                            for pre in ["constant ", "const ", "device "] {
                                if let Some(t) = ty.strip_prefix(pre) {
                                    ty = t.to_string();
                                }
                            }
                            let mut arr = None;
                            if let Some(inner) = ty.strip_prefix("metal::array<") {
                                // metal::array<T, n>
                                if let Some(k) = inner.rfind(',') {
                                    let n: Option<u32> = inner[k + 1..].trim().trim_end_matches('>').trim().parse().ok();
                                    arr = n.map(ArrLen::Sized);
                                    let mut t = inner[..k].trim().to_string();
                                    if let Some(tt) = t.strip_prefix("const ") {
                                        t = tt.to_string();
                                    }
                                    if t.starts_with("metal::array<") {
                                        arr = Some(ArrLen::Nested(0, 0));
                                    }
                                    ty = t;
                                }
                            }
                            out.decls.push(SrcDecl {
                                name: nm.to_string(),
                                in_struct: Some(name.clone()),
                                annots: vec![format!("[[id({})]]", id.map(|v| v.to_string()).unwrap_or_else(|| "?".into()))],
                                id,
                                ty,
                                arr,
                                ..Default::default()
                            });
                        }
                    }
                    i += 1;
                }
            }
        } else if ["[[kernel]]", "[[vertex]]", "[[fragment]]", "[[object]]", "[[mesh]]"].contains(&l.trim()) {
            let stage_attr = l.trim().trim_start_matches("[[").trim_end_matches("]]").to_string();
            let mut threads = Vec::new();
            i += 1;
            while i < lines.len() && lines[i].starts_with("[[") {
                if let Some(rest) = lines[i].strip_prefix("[[max_total_threads_per_threadgroup(") {
                    let total = rest
                        .strip_suffix(")]]")
                        .and_then(parse_expr_text)
                        .and_then(|e| eval_const(&e, &out.consts, 0));
                    threads.push(total.map(|t| (t, 0, 0)));
                }
                i += 1;
            }
            if i < lines.len() {
                let sig = lines[i];
                if let Some(open) = sig.find('(') {
                    let name = sig[..open].rsplit(' ').next().unwrap_or("").to_string();
                    let mut buffers = Vec::new();
                    for param in sig[open + 1..].split(',') {
                        if let Some(k) = param.find("[[buffer(") {
                            let n: Option<u32> = param[k + 9..].split(')').next().and_then(|v| v.parse().ok());
                            let head: Vec<&str> = param[..k].split_whitespace().collect();
                            // constant ArgumentBuffer0& set0
                            if head.len() >= 3 {
                                buffers.push((
                                    head[head.len() - 2].trim_end_matches('&').to_string(),
                                    head[head.len() - 1].to_string(),
                                    n.unwrap_or(u32::MAX),
                                ));
                            }
                        }
                    }
                    out.funcs.push(SrcFunc {
                        name,
                        has_body: sig.trim_end().ends_with('{'),
                        threads,
                        stage_attr: Some(stage_attr),
                        buffers,
                    });
                }
            }
        }
        i += 1;
    }
    out
}

// ------------------------------------------------------------------------------------------------ oracle tables (HLSL / MSL semantics, written independently of the compiler's tables)

/// descriptor types a declaration of the given emitted type may be reported as
fn allowed_desc(ty: &str, msl: bool) -> &'static [&'static str] {
    if !msl {
        match ty {
            "cbuffer" | "ConstantBuffer" => &["ConstantBuffer"],
            "ByteAddressBuffer" => &["ByteBuffer", "BufferAddress"],
            "RWByteAddressBuffer" => &["RwByteBuffer", "RwBufferAddress"],
            "uint64_t" => &["BufferAddress", "RwBufferAddress"],
            "StructuredBuffer" => &["StructuredBuffer"],
            "RWStructuredBuffer" => &["RwStructuredBuffer"],
            "Buffer" => &["TexelBuffer"],
            "RWBuffer" => &["RwTexelBuffer"],
            "Texture2D" => &["Texture2d"],
            "Texture2DArray" => &["Texture2dArray"],
            "RWTexture2D" => &["RwTexture2d"],
            "RWTexture2DArray" => &["RwTexture2dArray"],
            "TextureCube" => &["TextureCube"],
            "TextureCubeArray" => &["TextureCubeArray"],
            "Texture3D" => &["Texture3d"],
            "RWTexture3D" => &["RwTexture3d"],
            "RaytracingAccelerationStructure" => &["RaytracingAccelerationStructure"],
            "SamplerState" => &["SamplerState"],
            "SamplerComparisonState" => &["SamplerComparisonState"],
            _ => &[],
        }
    } else {
        let t = ty.split('<').next().unwrap_or("");
        let rw = ty.contains("access::read_write");
        match t {
            "helper::ByteAddressBuffer" => &["ByteBuffer", "BufferAddress"],
            "helper::RWByteAddressBuffer" => &["RwByteBuffer", "RwBufferAddress"],
            "helper::StructuredBuffer" => &["StructuredBuffer"],
            "helper::RWStructuredBuffer" => &["RwStructuredBuffer"],
            "metal::texture_buffer" => if rw { &["RwTexelBuffer"] } else { &["TexelBuffer"] },
            "metal::texture2d" => if rw { &["RwTexture2d"] } else { &["Texture2d"] },
            "metal::texture2d_array" => if rw { &["RwTexture2dArray"] } else { &["Texture2dArray"] },
            "metal::texturecube" => &["TextureCube"],
            "metal::texturecube_array" => &["TextureCubeArray"],
            "metal::texture3d" => if rw { &["RwTexture3d"] } else { &["Texture3d"] },
            "metal::sampler" => &["SamplerState", "SamplerComparisonState"],
            "metal::raytracing::instance_acceleration_structure" => &["RaytracingAccelerationStructure"],
            // `constant T&` members: constant buffers
            _ => &["ConstantBuffer"],
        }
    }
}

/// descriptor types a declaration of the given *source* kind may be reported as (used where nothing is emitted
/// to compare with: Metal without a pipeline)
fn desc_of_input_kind(kind: &str) -> &'static [&'static str] {
    match kind {
        "BufferAddress" => &["BufferAddress"],
        "RWBufferAddress" => &["RwBufferAddress"],
        "ByteAddressBuffer" => &["ByteBuffer"],
        "RWByteAddressBuffer" => &["RwByteBuffer"],
        k => allowed_desc(k, false),
    }
}

/// D3D register class of a descriptor type
fn register_class(desc: &str) -> char {
    match desc {
        "ConstantBuffer" | "PushConstants" | "InlineConstants" => 'b',
        "SamplerState" | "SamplerComparisonState" => 's',
        d if d.starts_with("Rw") => 'u',
        _ => 't',
    }
}

/// is a global of this emitted HLSL type a resource that must be bound from outside
fn is_resource_type(ty: &str) -> bool {
    ty != "uint64_t" && !allowed_desc(ty, false).is_empty()
}

/// does a struct of the emitted HLSL source hold (directly or through member structs) a resource
fn struct_holds_resource(ty: &str, em: &Emitted, depth: u32) -> bool {
    depth < 8
        && em.struct_members.get(ty).is_some_and(|ms| ms.iter().any(|m| is_resource_type(m) || struct_holds_resource(m, em, depth + 1)))
}

// ------------------------------------------------------------------------------------------------ observation + oracle

struct Fail {
    class: &'static str,
    detail: String,
}

/// failure classes that are recorded findings; anything else is reported first
const RECORDED: &[&str] = &[
    "unsized-array-unbound",
    "nested-array-unbound",
    "struct-resource-unbound",
    "prototype-default-unused",
];

fn show_meta(m: &rssl::ir::export::PipelineDescription) -> String {
    use rssl::ir::export::ApiLocation;
    let groups: Vec<String> = m
        .bind_groups
        .iter()
        .map(|g| {
            let es: Vec<String> = g
                .bindings
                .iter()
                .map(|b| {
                    format!(
                        "{}={}:{:?}:{}:b{}:u{}:s{}",
                        b.name,
                        match b.api_binding {
                            ApiLocation::Index(i) => format!("i{}", i),
                            ApiLocation::InlineConstant(o) => format!("n{}", o),
                        },
                        b.descriptor_type,
                        opt_u32(b.descriptor_count),
                        b.is_bindless as u8,
                        b.is_used as u8,
                        b.static_sampler.is_some() as u8
                    )
                })
                .collect();
            let inl = match &g.inline_constants {
                Some(c) => format!(";inl={}/{}", c.api_location, c.size_in_bytes),
                None => String::new(),
            };
            format!("{}{}", es.join(","), inl)
        })
        .collect();
    groups.join("|")
}

fn name_class(name: &str) -> &'static str {
    if name.starts_with("g_r") || name.starts_with("cs_") || name.starts_with("vs_") || name.starts_with("ps_") {
        "plain"
    } else {
        "special"
    }
}

/// `name_<digits>` -> name
fn strip_generated_suffix(name: &str) -> Option<&str> {
    let k = name.rfind('_')?;
    if k + 1 < name.len() && name[k + 1..].chars().all(|c| c.is_ascii_digit()) { Some(&name[..k]) } else { None }
}

fn show_threads_vals(ts: &[Option<(u128, u128, u128)>], msl: bool) -> String {
    if ts.is_empty() {
        return "-".into();
    }
    ts.iter()
        .map(|t| match t {
            None => "?".to_string(),
            Some(t) if msl => t.0.to_string(),
            Some(t) => format!("{}.{}.{}", t.0, t.1, t.2),
        })
        .collect::<Vec<_>>()
        .join("/")
}

/// Judge one compiled pipeline. Returns (observation, failures).
fn judge(case: &Case, tgt: Tgt, pipe: Option<&XPipe>, out: &rssl::CompiledPipeline, hist: &mut Hist) -> (String, Vec<Fail>) {
    use rssl::ir::export::ApiLocation;
    let msl = tgt == Tgt::Msl;
    let mut fails: Vec<Fail> = Vec::new();
    let text = String::from_utf8_lossy(&out.data).into_owned();
    let emitted = if msl {
        scan_msl(&text)
    } else {
        match parse_hlsl(&text) {
            Ok(m) => {
                let mut e = Emitted::default();
                collect_consts(&m.root_definitions, &mut e);
                walk_hlsl(&m.root_definitions, &mut e);
                e
            }
            Err(e) => {
                fails.push(Fail { class: "emitted-source-unparsable", detail: one_line(&e.chars().take(120).collect::<String>()) });
                Emitted::default()
            }
        }
    };
    let reach = case.reachable(pipe);
    let reach_kept = case.reachable_opt(pipe, false);
    let mut res_by_name: BTreeMap<&str, (usize, &XRes)> = BTreeMap::new();
    let mut shared_names: BTreeSet<&str> = BTreeSet::new();
    for (i, r) in case.res.iter().enumerate() {
        if res_by_name.insert(r.name.as_str(), (i, r)).is_some() {
            shared_names.insert(r.name.as_str());
        }
    }

    // ---- 1. every metadata entry matches the declaration with that name
    let mut entries_by_name: BTreeMap<String, u32> = BTreeMap::new();
    let mut nentries = 0;
    // names that several metadata entries share: none of them can be attributed to a declaration
    let mut name_count: BTreeMap<&str, u32> = BTreeMap::new();
    for b in out.metadata.bind_groups.iter().flat_map(|g| g.bindings.iter()) {
        *name_count.entry(b.name.as_str()).or_insert(0) += 1;
    }
    for (n, c) in &name_count {
        if *c > 1 {
            fails.push(Fail { class: "entry-name-ambiguous", detail: format!("{} declarations named `{}` in the metadata", c, n) });
        }
    }
    for (g, group) in out.metadata.bind_groups.iter().enumerate() {
        let g = g as u32;
        for b in &group.bindings {
            nentries += 1;
            *entries_by_name.entry(b.name.clone()).or_insert(0) += 1;
            hist.add(&format!("desc={:?}", b.descriptor_type));
            let desc = format!("{:?}", b.descriptor_type);
            if name_count.get(b.name.as_str()).copied().unwrap_or(0) > 1 {
                continue;
            }
            // the input declaration: by its own name, or by the name a generated `_<n>` suffix was appended to
            let source = res_by_name
                .get(b.name.as_str())
                .copied()
                .or_else(|| strip_generated_suffix(&b.name).and_then(|base| res_by_name.get(base).copied()));
            // the declaration in the emitted source
            let cands: Vec<&SrcDecl> = emitted
                .decls
                .iter()
                .filter(|d| d.name == b.name && !(d.in_struct.is_none() && d.inline_init.is_some()))
                .collect();
            if msl && pipe.is_none() {
                // no-pipeline mode on Metal emits no argument buffers: nothing to compare annotations with
                hist.add("msl-nopipeline-entry");
            } else if cands.is_empty() {
                if msl && source.is_some() {
                    fails.push(Fail {
                        class: "msl-name-renamed",
                        detail: format!("{}: metadata names `{}` but no argument buffer member has that name", name_class(&b.name), b.name),
                    });
                } else {
                    fails.push(Fail { class: "entry-without-declaration", detail: format!("metadata entry `{}` has no declaration in the emitted source", b.name) });
                }
                continue;
            } else if cands.len() > 1 {
                fails.push(Fail { class: "entry-name-ambiguous", detail: format!("{} declarations named `{}`", cands.len(), b.name) });
                continue;
            }
            if let Some(d) = cands.first() {
                match b.api_binding {
                    ApiLocation::Index(i) => {
                        if msl {
                            if d.id != Some(i) || d.in_struct.as_deref() != Some(&format!("ArgumentBuffer{}", g)) {
                                fails.push(Fail { class: "annotation-mismatch", detail: format!("`{}` reported at group {} index {} but emitted as {:?} in {:?}", b.name, g, i, d.annots, d.in_struct) });
                            }
                        } else if tgt == Tgt::Dx {
                            if d.is_static && d.reg.is_none() {
                                fails.push(Fail { class: "static-object-bound", detail: format!("`{}` is reported at group {} index {} but is a static, unannotated declaration", b.name, g, i) });
                            } else if d.reg != Some((register_class(&desc), i, g)) || d.vk.is_some() {
                                fails.push(Fail { class: "annotation-mismatch", detail: format!("`{}` reported as {} at group {} index {} but annotated {:?}", b.name, desc, g, i, d.annots) });
                            }
                        } else if d.is_static && d.vk.is_none() {
                            fails.push(Fail { class: "static-object-bound", detail: format!("`{}` is reported at group {} index {} but is a static, unannotated declaration", b.name, g, i) });
                        } else if d.vk != Some((i, g)) || d.reg.is_some() {
                            fails.push(Fail { class: "annotation-mismatch", detail: format!("`{}` reported at group {} index {} but annotated {:?}", b.name, g, i, d.annots) });
                        }
                    }
                    ApiLocation::InlineConstant(o) => {
                        if d.offset != Some(o) || d.in_struct.as_deref() != Some(&format!("InlineDescriptor{}", g)) {
                            fails.push(Fail { class: "annotation-mismatch", detail: format!("`{}` reported at group {} inline offset {} but emitted as {:?} in {:?}", b.name, g, o, d.annots, d.in_struct) });
                        }
                        // the global that reads it
                        let reads = emitted.decls.iter().any(|x| {
                            x.in_struct.is_none() && x.name == b.name && x.inline_init == Some((format!("g_inlineDescriptor{}", g), b.name.clone()))
                        });
                        if !reads {
                            fails.push(Fail { class: "annotation-mismatch", detail: format!("`{}`: no global initialised from g_inlineDescriptor{}.{}", b.name, g, b.name) });
                        }
                    }
                }
                if !allowed_desc(&d.ty, msl).contains(&desc.as_str()) {
                    fails.push(Fail { class: "type-mismatch", detail: format!("`{}` declared as {} but reported as {}", b.name, d.ty, desc) });
                }
                let want_count = match d.arr {
                    None | Some(ArrLen::No) => Some(Some(1)),
                    Some(ArrLen::Sized(n)) => Some(Some(n)),
                    Some(ArrLen::Unsized) => Some(None),
                    // no single length to compare with
                    Some(ArrLen::Nested(..)) => None,
                };
                if want_count.is_some_and(|w| b.descriptor_count != w) {
                    fails.push(Fail { class: "count-mismatch", detail: format!("`{}` declared with {:?} but descriptor_count {:?}", b.name, d.arr, b.descriptor_count) });
                }
            }
            // two input declarations of one (leaf) name: the entry can not be attributed to either
            if shared_names.contains(b.name.as_str()) {
                fails.push(Fail { class: "entry-name-ambiguous", detail: format!("2 declarations named `{}` in the request", b.name) });
                continue;
            }
            if source.is_some_and(|(_, r)| shared_names.contains(r.name.as_str())) {
                // a generated name whose base name two input declarations share: not attributable from outside
                hist.add("binding=not-attributable");
                continue;
            }
            // flags that only the input declaration carries
            if let Some((idx, r)) = source {
                if b.is_bindless != r.bl {
                    fails.push(Fail { class: "bindless-mismatch", detail: format!("`{}` bindless {} but reported {}", b.name, r.bl, b.is_bindless) });
                }
                let want_ss = r.ss && !msl;
                if b.static_sampler.is_some() != want_ss {
                    fails.push(Fail { class: "static-sampler-mismatch", detail: format!("`{}` static sampler {} but reported {}", b.name, want_ss, b.static_sampler.is_some()) });
                } else if let Some(ss) = &b.static_sampler {
                    let want = state::sampler_props(r.sprops).1;
                    if **ss != want {
                        fails.push(Fail { class: "static-sampler-mismatch", detail: format!("`{}` declared `{}` but reported {:?}", b.name, state::sampler_props(r.sprops).0, ss) });
                    }
                }
                let reachable = reach.contains(&idx);
                hist.add(if reachable { "binding=reachable" } else { "binding=unreachable" });
                if reachable && !b.is_used && !reach_kept.contains(&idx) {
                    // reachable only through a default value written on a forward declaration: the compiler drops those
                    fails.push(Fail { class: "prototype-default-unused", detail: format!("`{}` is read by a default argument given on a function prototype only (the call evaluates it) but is_used = false", b.name) });
                } else if reachable && !b.is_used {
                    fails.push(Fail { class: "reachable-reported-unused", detail: format!("`{}` is reachable from an entry point but is_used = false", b.name) });
                }
                if msl && b.is_used && !reachable {
                    fails.push(Fail { class: "unreachable-reported-used", detail: format!("`{}` is not reachable from any entry point but is_used = true", b.name) });
                }
                if msl && pipe.is_none() {
                    // compare with the input declaration instead
                    if !desc_of_input_kind(&r.kind).contains(&desc.as_str()) {
                        fails.push(Fail { class: "type-mismatch", detail: format!("`{}` declared as {} but reported as {}", b.name, r.kind, desc) });
                    }
                    let want = match r.eff_arr() {
                        ArrLen::No => Some(Some(1)),
                        ArrLen::Sized(n) => Some(Some(n)),
                        ArrLen::Unsized => Some(None),
                        ArrLen::Nested(..) => None,
                    };
                    if want.is_some_and(|w| b.descriptor_count != w) {
                        fails.push(Fail { class: "count-mismatch", detail: format!("`{}` declared with {:?} but descriptor_count {:?}", b.name, r.eff_arr(), b.descriptor_count) });
                    }
                }
            }
        }
        // ---- inline constant block of the group
        let members: Vec<&SrcDecl> = emitted.decls.iter().filter(|d| d.in_struct.as_deref() == Some(&format!("InlineDescriptor{}", g))).collect();
        let holder = emitted.decls.iter().find(|d| d.in_struct.is_none() && d.name == format!("g_inlineDescriptor{}", g));
        match (&group.inline_constants, holder) {
            (None, None) => {
                if !members.is_empty() {
                    fails.push(Fail { class: "inline-block-mismatch", detail: format!("group {} has inline members but no inline constant buffer", g) });
                }
            }
            (Some(c), Some(h)) => {
                if h.vk != Some((c.api_location, g)) || c.size_in_bytes as usize != 8 * members.len() {
                    fails.push(Fail { class: "inline-block-mismatch", detail: format!("group {} inline constants {}/{} but emitted {:?} with {} members", g, c.api_location, c.size_in_bytes, h.annots, members.len()) });
                }
            }
            (a, b) => fails.push(Fail { class: "inline-block-mismatch", detail: format!("group {} inline constants {:?} but emitted holder {:?}", g, a.is_some(), b.is_some()) }),
        }
    }
    hist.add(&format!("entries={}", nentries.min(8)));

    // ---- 2. every externally bound declaration of the emitted source has exactly one entry
    for d in &emitted.decls {
        let holds = !msl && d.in_struct.is_none() && !d.is_static && struct_holds_resource(&d.ty, &emitted, 0);
        let external = if msl {
            d.in_struct.as_deref().is_some_and(|s| s.starts_with("ArgumentBuffer"))
        } else if d.in_struct.is_some() {
            true // members of InlineDescriptor<n>
        } else if d.name.starts_with("g_inlineDescriptor") {
            false // described by BindGroup::inline_constants
        } else {
            d.ty == "cbuffer" || (!d.is_static && is_resource_type(&d.ty)) || holds
        };
        if !external {
            continue;
        }
        let n = entries_by_name.get(&d.name).copied().unwrap_or(0);
        if n != 1 {
            if msl && n == 0 {
                fails.push(Fail { class: "msl-name-renamed", detail: format!("argument buffer member `{}` has no metadata entry of that name", d.name) });
            } else if d.arr == Some(ArrLen::Unsized) && n == 0 {
                fails.push(Fail { class: "unsized-array-unbound", detail: format!("`{} {}[]` is declared in the emitted source without annotation and without metadata entry", d.ty, d.name) });
            } else if matches!(d.arr, Some(ArrLen::Nested(..))) && n == 0 {
                fails.push(Fail { class: "nested-array-unbound", detail: format!("`{} {}[..][..]` is declared in the emitted source without annotation and without metadata entry", d.ty, d.name) });
            } else if holds && n == 0 {
                fails.push(Fail { class: "struct-resource-unbound", detail: format!("`{} {}` (a struct holding resources) is declared in the emitted source without annotation and without metadata entry", d.ty, d.name) });
            } else {
                fails.push(Fail { class: "declaration-entries", detail: format!("externally bound `{}` has {} metadata entries", d.name, n) });
            }
        }
    }

    if msl && pipe.is_none() {
        // no argument buffers are emitted in this mode: count the entries against the input declarations
        for r in &case.res {
            let prefix = format!("{}_", r.name);
            if shared_names.contains(r.name.as_str()) || case.res.iter().any(|o| o.name.starts_with(&prefix)) {
                continue; // not attributable by name
            }
            let bindable = !r.ss && !r.stat && r.kind != "struct" && matches!(r.eff_arr(), ArrLen::No | ArrLen::Sized(_));
            let n = out
                .metadata
                .bind_groups
                .iter()
                .flat_map(|g| g.bindings.iter())
                .filter(|b| b.name == r.name || strip_generated_suffix(&b.name) == Some(r.name.as_str()))
                .count();
            if n != bindable as usize {
                fails.push(Fail { class: "declaration-entries", detail: format!("input declaration `{}` (externally bound: {}) has {} metadata entries", r.name, bindable, n) });
            }
        }
    }

    // ---- 3. stages
    let mut s_parts = Vec::new();
    let mut f_parts = Vec::new();
    // (stage kind as written in the property, the function the name denotes where the block stands)
    let pipe_index = pipe.and_then(|p| case.pipes.iter().position(|q| std::ptr::eq(q, p)));
    let want_stages: Vec<(Option<String>, &XFn)> = match (pipe, pipe_index) {
        (Some(p), Some(pi)) => p.stages.iter().map(|k| (case.entries[*k].stage.clone(), case.stage_xfn(case.stage_fn(pi, *k)))).collect(),
        (Some(p), None) => p.stages.iter().map(|k| (case.entries[*k].stage.clone(), &case.entries[*k])).collect(),
        _ => Vec::new(),
    };
    if out.stages.len() != want_stages.len() {
        fails.push(Fail { class: "stage-count", detail: format!("{} stages reported for {} stage properties", out.stages.len(), want_stages.len()) });
    }
    for (k, st) in out.stages.iter().enumerate() {
        let kind = format!("{:?}", st.stage);
        s_parts.push(format!("{}:{}:{}", kind, st.entry_point, threads_str(st.thread_group_size)));
        if let Some((wstage, w)) = want_stages.get(k) {
            if wstage.as_deref() != Some(kind.as_str()) || w.threads != st.thread_group_size {
                fails.push(Fail { class: "stage-record", detail: format!("stage {} reported as {} {:?}, declared {:?} {:?}", k, kind, st.thread_group_size, wstage, w.threads) });
            }
        }
        let found: Vec<&SrcFunc> = emitted.funcs.iter().filter(|f| f.name == st.entry_point && f.has_body).collect();
        if found.len() != 1 {
            f_parts.push(format!("!missing({})", st.entry_point));
            let src_name = want_stages.get(k).map(|w| w.1.name.as_str()).unwrap_or("");
            fails.push(Fail {
                class: if found.is_empty() && !msl && src_name == st.entry_point { "entry-renamed" } else { "entry-not-defined" },
                detail: format!("stage {} reports entry point `{}` but the emitted source defines {} function(s) of that name (functions: {})",
                    kind, st.entry_point, found.len(),
                    emitted.funcs.iter().map(|f| f.name.as_str()).collect::<Vec<_>>().join(" ")),
            });
            continue;
        }
        let f = found[0];
        f_parts.push(format!("{}:{}", f.name, show_threads_vals(&f.threads, msl)));
        let reported = st.thread_group_size.map(|(x, y, z)| (x as u128, y as u128, z as u128));
        let reported = if msl { reported.map(|(x, y, z)| (x * y * z, 0, 0)) } else { reported };
        let distinct: BTreeSet<Option<(u128, u128, u128)>> = f.threads.iter().copied().collect();
        if distinct.len() > 1 {
            fails.push(Fail {
                class: "numthreads-ambiguous",
                detail: format!("`{}` is emitted with {} different thread group size attributes ({}), reported {:?}", f.name, distinct.len(), show_threads_vals(&f.threads, msl), st.thread_group_size),
            });
        } else if distinct.iter().next().copied().unwrap_or(None) != reported || (f.threads.is_empty() != reported.is_none()) {
            // the function of that name is another function when the entry point itself was renamed
            let prefix = format!("{}_", st.entry_point);
            let renamed = !msl && emitted.funcs.iter().any(|x| x.name.starts_with(&prefix) && x.threads.last().copied().unwrap_or(None) == reported);
            fails.push(Fail {
                class: if renamed { "entry-renamed" } else { "thread-group-size" },
                detail: format!("stage {} reports entry point `{}` {:?} but the emitted function of that name has thread group size {} (functions: {})",
                    kind, f.name, st.thread_group_size, show_threads_vals(&f.threads, msl),
                    emitted.funcs.iter().map(|f| f.name.as_str()).collect::<Vec<_>>().join(" ")),
            });
        }
        if msl {
            let want_attr = match kind.as_str() {
                "Compute" => "kernel",
                "Vertex" => "vertex",
                "Pixel" => "fragment",
                "Task" => "object",
                _ => "mesh",
            };
            if f.stage_attr.as_deref() != Some(want_attr) {
                fails.push(Fail { class: "entry-stage-kind", detail: format!("`{}` reported as {} but emitted with [[{:?}]]", f.name, kind, f.stage_attr) });
            }
            // every argument buffer is bound at [[buffer(group)]]
            for (g, _) in out.metadata.bind_groups.iter().enumerate() {
                let want = (format!("ArgumentBuffer{}", g), format!("set{}", g), g as u32);
                if !f.buffers.contains(&want) {
                    fails.push(Fail { class: "argument-buffer-param", detail: format!("`{}` has no `{}& {} [[buffer({})]]` parameter: {:?}", f.name, want.0, want.1, g, f.buffers) });
                }
            }
            if f.buffers.len() != out.metadata.bind_groups.len() {
                fails.push(Fail { class: "argument-buffer-param", detail: format!("`{}` has {} buffer parameters for {} groups", f.name, f.buffers.len(), out.metadata.bind_groups.len()) });
            }
        }
    }

    // ---- 4. supporting observable: the graphics pipeline state is the declared one (judged against the request)
    let want_state = pipe.and_then(|p| {
        let first_is_compute = p.stages.first().is_some_and(|k| case.entries[*k].stage.as_deref() == Some("Compute"));
        if first_is_compute { None } else { Some(state::graphics_props(p.gstate).1) }
    });
    if out.graphics_pipeline_state != want_state {
        fails.push(Fail { class: "pipeline-state", detail: format!("declared {:?} but reported {:?}", want_state, out.graphics_pipeline_state).chars().take(400).collect() });
    }
    if pipe.is_some_and(|p| p.gstate != 0) {
        hist.add("variant=graphics-state");
    }

    // ---- observation
    let mut a_parts: Vec<String> = Vec::new();
    for d in &emitted.decls {
        if d.in_struct.is_none() && d.inline_init.is_some() {
            continue; // listed through its InlineDescriptor member
        }
        for a in &d.annots {
            match &d.in_struct {
                Some(s) => a_parts.push(format!("{}=>{}/{}", d.name, s, a)),
                None => a_parts.push(format!("{}=>{}", d.name, a)),
            }
        }
    }
    if msl {
        // [[buffer(i)]] parameters, once per group when every entry function agrees
        let mut seen: BTreeSet<(String, u32)> = BTreeSet::new();
        for f in &emitted.funcs {
            for (_, pname, n) in &f.buffers {
                seen.insert((pname.clone(), *n));
            }
        }
        for (pname, n) in seen {
            a_parts.push(format!("{}=>[[buffer({})]]", pname, n));
        }
    }
    a_parts.sort();
    let obs = format!("M[{}] A[{}] S[{}] F[{}]", show_meta(&out.metadata), a_parts.join(";"), s_parts.join(","), f_parts.join(","));
    (obs, fails)
}

// ------------------------------------------------------------------------------------------------ C05.layers: what the typer builds

/// the layer chain of a type id as the real type registry holds it: `M` modifier, `A<n>` / `A?` array, `O:<Kind>` object,
/// `X` anything else (outermost first, joined by `.`)
fn layer_chain(m: &rssl::ir::Module, id: rssl::ir::TypeId) -> String {
    use rssl::ir::TypeLayer;
    let mut parts = Vec::new();
    let mut cur = id;
    for _ in 0..64 {
        match m.type_registry.get_type_layer(cur) {
            TypeLayer::Modifier(_, inner) => {
                parts.push("M".to_string());
                cur = inner;
            }
            TypeLayer::Array(inner, len) => {
                parts.push(match len {
                    Some(n) => format!("A{}", n),
                    None => "A?".to_string(),
                });
                cur = inner;
            }
            TypeLayer::Object(ot) => {
                let d = format!("{:?}", ot);
                parts.push(format!("O:{}", d.split(|c| c == '(' || c == '<').next().unwrap_or("")));
                break;
            }
            _ => {
                parts.push("X".to_string());
                break;
            }
        }
    }
    parts.join(".")
}

/// C05.layers: the resource declarations of the request alone, through the real preprocess + parse + type_check; the
/// observation lists the layer chain of every resource global.  Oracle (the hypothesis of `descriptor_kind_count_from_layers`):
/// no modifier layer directly around a modifier layer.
fn run_layers(case: &Case, out: &mut Out, hist: &mut Hist) {
    let reduced = Case { nstatics: 0, layout: 0, inits: vec![], res: case.res.clone(), helpers: vec![], entries: vec![], pipes: vec![] };
    let req = format!("C05.layers\t-\t-\t{}", reduced.encode());
    let src = reduced.render();
    hist.add("stream=layers");
    let r = guard(|| {
        let mut sm = rssl::text::SourceManager::new();
        let mut inc = MemFiles(vec![("main.rssl".to_string(), src.clone())]);
        let tokens = rssl::preprocess::preprocess("main.rssl", &mut sm, &mut inc, &[]).map_err(|_| "preprocess".to_string())?;
        let tokens = rssl::preprocess::prepare_tokens(&tokens);
        let ast = rssl::parser::parse(&tokens).map_err(|_| "parse".to_string())?;
        rssl::typer::type_check(&ast).map_err(|e| format!("{:?}", e.0).chars().take_while(|c| c.is_alphanumeric()).collect::<String>())
    });
    let module = match r {
        Ok(Ok(m)) => m,
        Ok(Err(e)) => {
            out.case(&req, &format!("rejected:{}", e), "SKIP:front end rejects the declarations");
            return;
        }
        Err(p) => {
            out.case(&req, &format!("panic:{}", p), "SKIP:panic (C08)");
            return;
        }
    };
    // the registry starts with the intrinsic constants and `lds_payload`; the declared resources are its tail
    let wanted: Vec<&XRes> = reduced.res.iter().filter(|r| r.kind != "cbuffer").collect();
    let all: Vec<&rssl::ir::GlobalVariable> = module.global_registry.iter().collect();
    let globals: Vec<&rssl::ir::GlobalVariable> = all[all.len().saturating_sub(wanted.len())..].to_vec();
    if globals.len() != wanted.len() || globals.iter().zip(wanted.iter()).any(|(g, r)| g.name.node != r.name) {
        let names: Vec<&str> = globals.iter().map(|g| g.name.node.as_str()).collect();
        out.case(&req, &format!("globals-not-attributable:{}", names.join(",")), "SKIP:registry order differs from declaration order");
        return;
    }
    let mut parts = Vec::new();
    let mut fail: Option<String> = None;
    for (g, r) in globals.iter().zip(wanted.iter()) {
        let chain = layer_chain(&module, g.type_id);
        hist.add(&format!("chain={}", chain.split(':').next().unwrap_or("")));
        if chain.contains("M.M") && fail.is_none() {
            fail = Some(format!("modifier-on-modifier `{}` has the chain {}", r.name, chain));
        }
        // (the implicit const of an extern global sits under the declarator's array layers: compared with the model, which
        // builds the chain the same way; the theorems do not need it)
        let under_arrays: Vec<&str> = chain.split('.').skip_while(|l| l.starts_with('A')).collect();
        if !r.stat && under_arrays.first() != Some(&"M") {
            hist.add("chain-extern-without-modifier");
        }
        parts.push(format!("{}={}", r.name, chain));
    }
    let oracle = match fail {
        Some(f) => format!("FAIL:{}", f),
        None => "ok".to_string(),
    };
    out.case(&req, &format!("L[{}]", parts.join(";")), &oracle);
}

fn parse_mode(s: &str) -> Option<Mode> {
    if s == "all" {
        Some(Mode::All)
    } else if s == "nopipeline" {
        Some(Mode::NoPipeline)
    } else {
        s.strip_prefix("name=").map(|n| Mode::Named(n.to_string()))
    }
}

/// front-end errors the model follows: message -> class
const FRONT_ERRORS: &[(&str, &str)] = &[
    ("pipeline with the same name is already defined", "PipelineAlreadyDefined"),
    ("pipeline must have at least one entry point", "PipelineNoEntryPoint"),
    ("pipeline has an invalid combination of stages", "PipelineInvalidStageCombination"),
    ("unknown function for entry point", "PipelineEntryPointFunctionUnknown"),
    ("property declared multiple times", "PipelinePropertyDuplicate"),
    ("graphics pipeline state may only be applied to a graphics pipeline", "PipelinePropertyRequiresGraphicsPipeline"),
    ("static sampler has unexpected binding index", "StaticSamplerUnexpectedBindingIndex"),
    // since fix 0f5be73: a second attribute of a kind the function already has (two `[numthreads]`)
    ("function attribute 'numthreads' is given more than once", "FunctionAttributeDuplicate"),
];

fn run_case(case: &Case, tgt: Tgt, mode: &Mode, out: &mut Out, hist: &mut Hist) {
    let req = format!("C05.meta\t{}\t{}\t{}", tgt.name(), mode.show(), case.encode());
    let src = case.render();
    hist.add(&format!("target={}", tgt.name()));
    hist.add(&format!("mode={}", match mode { Mode::All => "all", Mode::Named(_) => "named", Mode::NoPipeline => "nopipeline" }));
    hist.add(&format!("resources={}", case.res.len()));
    hist.add(&format!("pipes={}", case.pipes.len()));
    if case.layout == 1 { hist.add("variant=layout-interleaved"); }
    if !case.inits.is_empty() { hist.add("variant=global-initialisers"); }
    for r in &case.res {
        hist.add(&format!("kind={}", r.kind));
        match r.eff_arr() {
            ArrLen::Unsized => hist.add("variant=unsized-array"),
            ArrLen::Nested(..) => hist.add("variant=nested-array"),
            _ => {}
        }
        if !r.spell.is_plain() {
            hist.add("variant=type-spelling");
            if r.spell.ns { hist.add("spelling=typedef-in-namespace"); }
            if r.spell.param_td { hist.add("spelling=template-argument-typedef"); }
            if r.spell.const_kw { hist.add("spelling=const-keyword"); }
            if r.spell.extern_kw { hist.add("spelling=extern-keyword"); }
            if r.spell.steps.len() >= 2 { hist.add("spelling=typedef-of-typedef"); }
            if r.spell.steps.iter().any(|s| s.is_const) { hist.add("spelling=const-typedef"); }
            match (r.spell.typedef_dims().len(), r.arr) {
                (0, ArrLen::No) => hist.add("spelling=typedef-of-object"),
                (0, _) => hist.add("spelling=array-of-typedef"),
                (1, ArrLen::No) => hist.add("spelling=typedef-of-array"),
                (_, ArrLen::No) => hist.add("spelling=typedef-of-array-of-typedef-array"),
                _ => hist.add("spelling=array-of-typedef-array"),
            }
        }
        if r.stat { hist.add("variant=static-object"); }
        if r.bl { hist.add("variant=bindless"); }
        if r.ss { hist.add("variant=static-sampler"); }
        if r.empty { hist.add("variant=empty-cbuffer"); }
        if r.ns { hist.add("variant=namespaced"); }
        if r.gspell != GSpell::Attr && r.group.is_some() { hist.add(&format!("variant=group-spelling-{:?}", r.gspell)); }
        if r.reg_index.is_some() || r.vk_index.is_some() { hist.add("variant=explicit-index"); }
        if r.sprops != 0 { hist.add("variant=sampler-properties"); }
        if name_class(&r.name) != "plain" { hist.add("variant=special-resource-name"); }
    }
    for f in case.helpers.iter().chain(case.entries.iter()) {
        for (_, s) in &f.uses {
            if *s != ' ' { hist.add(&format!("use-shape={}", s)); }
        }
        if !f.dflt.is_empty() { hist.add("variant=default-argument-use"); }
        if f.nt != 0 { hist.add(&format!("variant=numthreads-spelling-{}", f.nt)); }
        if f.fd { hist.add("variant=forward-declaration"); }
        if f.tp { hist.add("variant=template-entry-point"); }
    }
    for p in &case.pipes {
        if p.stages.len() == 2 && case.entries[p.stages[0]].stage.as_deref() == Some("Pixel") { hist.add("variant=stages-reversed"); }
        if p.before { hist.add("variant=pipeline-before-entry-points"); }
    }
    match compile_raw(&src, tgt, mode) {
        Raw::Err(e) => {
            let known = FRONT_ERRORS.iter().find(|(m, _)| e.contains(m)).map(|(_, c)| *c);
            let obs = if e == "Shader does not contain a single pipeline" {
                "err:none".to_string()
            } else if e.starts_with("Shader does not contain the pipeline: ") {
                "err:unknown".to_string()
            } else if e.contains("metal generate: UnsupportedBindGroupIndex(") {
                // a bind group beyond the argument buffers Metal provides is refused cleanly (predicted by the model)
                "err:UnsupportedBindGroupIndex".to_string()
            } else if e.contains("generate: UnsupportedObjectType") {
                // a global of an object kind without a descriptor type (`RayDesc g;`): refused by `analyse_bindings` of
                // either exporter (predicted by the model; before fix 774c0b4 DirectX panicked in the allocator instead)
                "err:UnsupportedObjectType".to_string()
            } else if e.contains("metal generate: UnboundGlobal") {
                // since fix 2ba03a4: a stage entry point that reaches an extern global without a place in an argument
                // buffer (2-D resource array, struct holding resources) is refused cleanly (predicted by the model)
                "err:UnboundGlobal".to_string()
            } else if let Some(c) = known {
                format!("err:{}", c)
            } else {
                format!("err:{}", one_line(&e.chars().take(100).collect::<String>()))
            };
            hist.add("outcome=error");
            hist.add(&format!("error={}", obs.chars().take(60).collect::<String>()));
            let skip = !(obs == "err:none" || obs == "err:unknown" || obs == "err:UnsupportedBindGroupIndex" || obs == "err:UnboundGlobal" || obs == "err:UnsupportedObjectType" || known.is_some());
            out.case(&req, &obs, if skip { "SKIP:compile error" } else { "ok" });
        }
        Raw::Panic(p) => {
            hist.add("outcome=panic");
            // a panic is a C08 matter; it is reported here only as skipped input -- except a panic of the pipeline
            // driver itself (src/compile.rs): the model, which follows that file, predicts an answer for the request,
            // so the case is compared (and disagrees)
            // ... or of Metal's `generate_pipeline` (msl/src/generator/pipeline.rs), whose binding analysis and entry
            // arguments the model follows too (fix 2ba03a4 turned its `unwrap()` on an unbound global into `UnboundGlobal`)
            let driver = p.contains("src/compile.rs") || p.contains("msl/src/generator/pipeline.rs");
            out.case(&req, &format!("panic:{}", p), if driver { "ok" } else { "SKIP:panic (C08)" });
        }
        Raw::Ok(ps) => {
            hist.add("outcome=ok");
            let pipes: Vec<Option<&XPipe>> = match mode {
                // compile() returns the pipelines in the order the file declares them (a block marked `b` comes first)
                Mode::All => case.file_order().iter().filter_map(|r| if let Root::Pipe(i) = r { Some(Some(&case.pipes[*i])) } else { None }).collect(),
                Mode::Named(n) => vec![case.pipes.iter().find(|p| &p.name == n)],
                Mode::NoPipeline => vec![None],
            };
            let mut fails: Vec<Fail> = Vec::new();
            let mut obs = Vec::new();
            if pipes.len() != ps.len() {
                fails.push(Fail { class: "pipeline-count", detail: format!("{} outputs for {} pipelines", ps.len(), pipes.len()) });
            }
            for (p, o) in pipes.iter().zip(ps.iter()) {
                let (ob, mut fl) = judge(case, tgt, *p, o, hist);
                obs.push(ob);
                fails.append(&mut fl);
            }
            let pick = fails.iter().find(|f| !RECORDED.contains(&f.class)).or(fails.first());
            let oracle = match pick {
                None => "ok".to_string(),
                Some(f) => {
                    hist.add(&format!("fail={}", f.class));
                    format!("FAIL:{} {}", f.class, f.detail)
                }
            };
            out.case(&req, &obs.join(" ## "), &oracle);
        }
    }
}

// ------------------------------------------------------------------------------------------------ generation

/// variants on top of the shared program generator (each rare enough that most cases stay clean)
fn mutate(case: &mut Case, rng: &mut Rng, hist: &mut Hist) {
    // an entry point whose name is reserved in a target language
    if !case.entries.is_empty() && rng.chance(1, 24) {
        let k = rng.below(case.entries.len() as u64) as usize;
        let st = case.entries[k].stage.clone().unwrap_or_default();
        if st != "Mesh" && st != "Task" {
            case.entries[k].name = (*rng.pick(&["float16_t", "int64_t", "uint64_t"])).to_string();
            hist.add("variant=reserved-entry-name");
        }
    }
    // overloaded helpers `a`, `a` are emitted as `a_0`, `a_1`; an entry point called `a_0` then has to move
    if case.helpers.len() >= 2 && !case.entries.is_empty() && rng.chance(1, 24) {
        let k = rng.below(case.entries.len() as u64) as usize;
        if case.entries[k].stage.as_deref() == Some("Compute") {
            case.helpers[0].name = "a".to_string();
            case.helpers[1].name = "a".to_string();
            case.entries[k].name = "a_0".to_string();
            hist.add("variant=overload-clash-entry-name");
        }
    }
    // a resource whose name is reserved on Metal only
    if !case.res.is_empty() && rng.chance(1, 24) {
        let k = rng.below(case.res.len() as u64) as usize;
        case.res[k].name = (*rng.pick(&["main", "kernel", "vertex", "fragment"])).to_string();
    }
    // a global whose name is reserved in HLSL next to a cbuffer block called like the name generated for it
    // (cbuffer blocks keep their source name on HLSL)
    if rng.chance(1, 40) {
        let g = (0..case.res.len()).find(|k| case.res[*k].kind != "cbuffer");
        let c = (0..case.res.len()).find(|k| case.res[*k].kind == "cbuffer" && !case.res[*k].empty);
        if let (Some(g), Some(c)) = (g, c) {
            case.res[g].name = "float16_t".to_string();
            case.res[c].name = "float16_t_0".to_string();
            hist.add("variant=cbuffer-named-like-generated-name");
        }
    }
    // two resources with one leaf name, one of them inside a namespace
    if case.res.len() >= 2 && rng.chance(1, 40) {
        let n = case.res[0].name.clone();
        case.res[1].name = n;
        case.res[1].ns = true;
        case.res[0].ns = false;
        hist.add("variant=same-leaf-name-in-namespace");
    }
    // an unsized array
    if !case.res.is_empty() && rng.chance(1, 24) {
        let k = rng.below(case.res.len() as u64) as usize;
        let r = &mut case.res[k];
        if r.kind != "cbuffer" && r.kind != "ConstantBuffer" && !r.ss && !r.kind.contains("Address") {
            r.arr = ArrLen::Unsized;
        }
    }
    // a static global of resource type
    if !case.res.is_empty() && rng.chance(1, 24) {
        let k = rng.below(case.res.len() as u64) as usize;
        let r = &mut case.res[k];
        if r.kind.starts_with("Texture") && !r.bl && r.group.is_none() {
            r.stat = true;
        }
    }
    // a bind group beyond the four argument buffers Metal provides (refused there, fine on HLSL)
    if !case.res.is_empty() && rng.chance(1, 24) {
        let k = rng.below(case.res.len() as u64) as usize;
        case.res[k].group = Some(4 + rng.below(3) as u32);
        hist.add("variant=bind-group-4-plus");
    }
    // kinds progen does not draw
    if !case.res.is_empty() && rng.chance(1, 8) {
        let k = rng.below(case.res.len() as u64) as usize;
        let r = &mut case.res[k];
        if r.kind.starts_with("Texture") {
            r.kind = rng.pick(&EXTRA_KINDS[..3]).0.to_string();
        }
    }
    // a two-dimensional resource array / a global of a struct type that holds resources (reached by an entry point in
    // half of the cases only: Metal refuses the pipeline with `UnboundGlobal` when it is)
    if !case.res.is_empty() && rng.chance(1, 10) {
        let k = rng.below(case.res.len() as u64) as usize;
        let r = &mut case.res[k];
        if r.kind.starts_with("Texture2D") && !r.bl && !r.stat && r.arr != ArrLen::Unsized {
            if rng.chance(1, 2) {
                r.arr = ArrLen::Nested(2, 1 + rng.below(3) as u32);
            } else {
                r.kind = "struct".to_string();
                r.arr = ArrLen::No;
            }
            if rng.chance(1, 2) {
                for f in case.helpers.iter_mut().chain(case.entries.iter_mut()) {
                    f.uses.retain(|u| u.0 != k);
                }
            }
        }
    }
    // a global of an object type that is no resource (never bound; every target refuses the module)
    if !case.res.is_empty() && rng.chance(1, 40) {
        let k = rng.below(case.res.len() as u64) as usize;
        let r = &mut case.res[k];
        if r.kind.starts_with("Texture") && !r.bl && !r.stat && r.group.is_none() && !matches!(r.arr, ArrLen::Unsized | ArrLen::Nested(..)) {
            r.kind = "RayDesc".to_string();
            hist.add("variant=non-resource-object-global");
        }
    }
    // how the type is spelled: typedef of the object type, of an array of it, of a typedef, const on the typedef or on
    // the global, typedefs inside a namespace, template argument through a typedef, `extern` written out
    for r in case.res.iter_mut() {
        if r.kind == "cbuffer" || !rng.chance(1, 3) {
            continue;
        }
        let mut sp = Spelling::default();
        let can_dim = !r.ss && r.kind != "struct" && r.kind != "RayDesc";
        // a second array dimension only where the generator makes 2-D arrays anyway (recorded finding; Metal refuses
        // the pipeline when an entry point reaches it)
        let mut dims_left = if !can_dim {
            0
        } else if r.arr == ArrLen::No {
            if r.kind.starts_with("Texture2D") && !r.bl && !r.stat && rng.chance(1, 8) { 2 } else { 1 }
        } else if r.arr != ArrLen::Unsized && !matches!(r.arr, ArrLen::Nested(..)) && r.kind.starts_with("Texture2D") && !r.bl && !r.stat && rng.chance(1, 8) {
            1
        } else {
            0
        };
        for _ in 0..rng.below(4) {
            let is_const = rng.chance(1, 3);
            let dim = if dims_left > 0 && rng.chance(1, 2) {
                dims_left -= 1;
                Some(1 + rng.below(3) as u32)
            } else {
                None
            };
            sp.steps.push(TdStep { is_const, dim });
        }
        sp.param_td = type_of_kind(&r.kind).is_some_and(|t| t.ends_with('>')) && rng.chance(1, 4);
        sp.ns = sp.has_typedef() && rng.chance(1, 4);
        sp.const_kw = rng.chance(1, 5);
        sp.extern_kw = !r.stat && rng.chance(1, 6);
        // a bindless table needs an array somewhere: keep the flag only when one is left
        if !sp.is_plain() {
            r.spell = sp;
        }
    }
    // how the bind group is written, explicit language-level indices, namespaces, sampler property sets
    for r in case.res.iter_mut() {
        let annotatable = r.kind != "struct" && r.kind != "RayDesc" && !matches!(r.arr, ArrLen::Nested(..)) && r.spell.typedef_dims().is_empty();
        if r.group.is_some() && rng.chance(1, 2) {
            r.gspell = *rng.pick(&[GSpell::Reg, GSpell::Vk, GSpell::Over]);
            // vk::binding carries an index, which a static sampler must not have
            if (!annotatable && r.gspell != GSpell::Vk) || (r.ss && r.gspell == GSpell::Vk) {
                r.gspell = GSpell::Attr;
            }
        }
        if annotatable && !r.ss && rng.chance(1, 6) {
            r.reg_index = Some(rng.below(12) as u32);
        }
        if !r.ss && rng.chance(1, 8) {
            r.vk_index = Some(rng.below(12) as u32);
        }
        if rng.chance(1, 8) {
            r.ns = true;
        }
        if r.ss && rng.chance(1, 2) {
            r.sprops = 1 + rng.below(200) as u32;
        }
    }
    // a declaration with several declarators: `T a.., b..;` — a clone of a resource joins its declaration; dimensions,
    // register annotation (index, and with the register spelling the space: an earlier declarator may carry a space the
    // later one does not) and static sampler are per declarator, everything else is shared
    let mut i = 0;
    while i < case.res.len() {
        let h = case.res[i].clone();
        if h.kind != "cbuffer" && !h.ns && !h.joined && case.res.len() < 10 && rng.chance(1, 8) {
            let mut j = h.clone();
            j.name = format!("{}j", h.name);
            j.joined = true;
            j.ss = false;
            j.sprops = 0;
            let annotatable = h.kind != "struct" && h.kind != "RayDesc" && h.spell.typedef_dims().is_empty();
            j.reg_index = if annotatable && !h.ss && rng.chance(1, 3) { Some(rng.below(12) as u32) } else { None };
            if h.gspell == GSpell::Reg && rng.chance(1, 2) {
                j.group = None;
            }
            if !h.ss && h.kind != "struct" && h.kind != "RayDesc" && !matches!(h.eff_arr(), ArrLen::Unsized | ArrLen::Nested(..)) && h.spell.typedef_dims().is_empty() {
                j.arr = if h.bl || rng.chance(1, 2) { ArrLen::Sized(1 + rng.below(3) as u32) } else { ArrLen::No };
            }
            if j.joins(&h) {
                case.res.insert(i + 1, j);
                for f in case.helpers.iter_mut().chain(case.entries.iter_mut()) {
                    let mut extra = Vec::new();
                    for u in f.uses.iter_mut() {
                        if u.0 > i {
                            u.0 += 1;
                        } else if u.0 == i && rng.chance(1, 2) {
                            extra.push((i + 1, ' '));
                        }
                    }
                    f.uses.extend(extra);
                }
                hist.add("variant=several-declarators");
                i += 1;
            }
        }
        i += 1;
    }
    // statement shapes around resource mentions
    for f in case.helpers.iter_mut().chain(case.entries.iter_mut()) {
        for u in f.uses.iter_mut() {
            if rng.chance(1, 3) {
                u.1 = *rng.pick(SHAPES);
            }
        }
    }
    // helpers that return a value, default parameter values that read resources
    let eligible: Vec<usize> = (0..case.res.len()).filter(|r| case.value_expr(*r).is_some()).collect();
    let names: Vec<String> = case.helpers.iter().map(|h| h.name.clone()).collect();
    for h in case.helpers.iter_mut() {
        if rng.chance(1, 3) {
            h.ret = true;
        }
        let unique = names.iter().filter(|n| **n == h.name).count() == 1;
        if unique && !eligible.is_empty() && rng.chance(1, 4) {
            for _ in 0..1 + rng.below(2) {
                h.dflt.push(*rng.pick(&eligible));
            }
        }
    }
    // forward declarations; a helper with default values repeats them on the definition or -- `po` -- writes them on
    // the prototype only (the call still evaluates them: the binding is reachable)
    for f in case.helpers.iter_mut().chain(case.entries.iter_mut()) {
        if f.dflt.is_empty() {
            if rng.chance(1, 8) {
                f.fd = true;
            }
        } else if rng.chance(1, 3) {
            f.fd = true;
            f.po = rng.chance(1, 2);
            hist.add(if f.po { "variant=defaults-on-prototype-only" } else { "variant=defaults-on-prototype-and-definition" });
        }
    }
    // globals whose initialiser reads resources, calls helpers, reads other globals
    if rng.chance(1, 3) {
        let ret_helpers: Vec<usize> = (0..case.helpers.len()).filter(|h| case.helpers[*h].ret).collect();
        for k in 0..1 + rng.below(3) as usize {
            let mut i = XInit::default();
            if !eligible.is_empty() && rng.chance(2, 3) {
                i.uses.push(*rng.pick(&eligible));
            }
            if !ret_helpers.is_empty() && rng.chance(1, 2) {
                i.calls.push(*rng.pick(&ret_helpers));
            }
            if k > 0 && rng.chance(1, 2) {
                i.prev.push(rng.below(k as u64) as usize);
            }
            if case.nstatics > 0 && rng.chance(1, 3) {
                i.statics.push(rng.below(case.nstatics as u64) as usize);
            }
            case.inits.push(i);
        }
        let n = case.inits.len();
        for e in case.entries.iter_mut() {
            if rng.chance(1, 2) {
                e.inits.push(rng.below(n as u64) as usize);
            }
        }
    }
    // thread group sizes: other sizes for mesh / task, named constants and arithmetic, missing / unexpected attributes
    for e in case.entries.iter_mut() {
        let st = e.stage.clone().unwrap_or_default();
        if (st == "Mesh" || st == "Task") && rng.chance(1, 2) {
            e.threads = Some((1 << rng.below(6) as u32, 1 + rng.below(2) as u32, 1));
        }
        if st == "Compute" && rng.chance(1, 30) {
            e.threads = None;
        }
        // sizes beyond 16 bits, and a zero
        if st == "Compute" && rng.chance(1, 20) {
            e.threads = Some((65536 + rng.below(1000) as u32, rng.below(3) as u32, 1 + rng.below(70000) as u32));
        }
        if (st == "Vertex" || st == "Pixel") && rng.chance(1, 30) {
            e.threads = Some((4, 2, 1));
        }
        if e.threads.is_some() && rng.chance(1, 5) {
            e.nt = 1 + rng.below(2) as u32;
        }
        if e.threads.is_some() && rng.chance(1, 40) {
            e.nt = 3;
        }
    }
    // graphics state, DefaultBindGroup written as an expression
    for p in case.pipes.iter_mut() {
        let compute = p.stages.first().is_some_and(|k| case.entries[*k].stage.as_deref() == Some("Compute"));
        if !compute && rng.chance(1, 2) {
            p.gstate = 1 + rng.below(500) as u32;
        }
        if p.dflt.is_some() && rng.chance(1, 3) {
            p.dexpr = true;
        }
    }
    // a pipeline whose name is a prefix of another pipeline's name (selection by name must be exact)
    if case.pipes.len() >= 2 && rng.chance(1, 6) {
        let n = format!("{}0", case.pipes[0].name);
        case.pipes[1].name = n;
        hist.add("variant=pipeline-name-prefix");
    }
    // the front end looks at a function's attributes only where it is defined: a forward declaration may carry a second
    // numthreads attribute (accepted file; the report must follow the definition)
    for e in case.entries.iter_mut() {
        if e.fd && e.threads.is_some() && e.nt == 0 && rng.chance(1, 4) {
            e.nt = 4;
            hist.add("variant=second-numthreads-on-declaration-only");
        }
    }
    // an overload of an entry point defined after every Pipeline block (the entry lookup sees the registry of its moment)
    if !case.entries.is_empty() && rng.chance(1, 16) {
        let k = rng.below(case.entries.len() as u64) as usize;
        case.entries[k].lo = true;
        hist.add("variant=late-overload-of-entry");
    }
    // files the front end refuses (the model predicts the error class; nothing to judge): one error, or -- where the
    // order in which the front end meets them decides the answer -- two or three independent ones, at random places of
    // the file, in both layouts, with and without forward declarations
    if !case.pipes.is_empty() && rng.chance(1, 6) {
        let n_err = if rng.chance(1, 3) { 1 } else { 2 + rng.below(2) as usize };
        hist.add("variant=front-end-error");
        hist.add(&format!("front-end-errors={}", n_err));
        if n_err > 1 && rng.chance(1, 2) {
            case.layout = 1 - case.layout.min(1);
        }
        let mut kinds: Vec<String> = Vec::new();
        for _ in 0..n_err {
            let k = rng.below(case.pipes.len() as u64) as usize;
            let kind = inject_front_error(case, rng, k);
            if !kind.is_empty() {
                hist.add(&format!("front-end-error-kind={}", kind));
                kinds.push(kind.to_string());
            }
        }
        if kinds.len() >= 2 {
            hist.add("variant=several-front-end-errors");
        }
    }
}

/// make the file fail in the front end at pipeline `k` (or at a function / resource it picks); returns what was done
fn inject_front_error(case: &mut Case, rng: &mut Rng, k: usize) -> &'static str {
    match rng.below(12) {
        10 if !case.pipes[k].stages.is_empty() => {
            // the entry point is a function template
            let e = case.pipes[k].stages[0];
            if case.entries[e].fd || case.entries[e].lo {
                return "";
            }
            case.entries[e].tp = true;
            "entry-point-is-a-template"
        }
        11 if !case.pipes[k].stages.is_empty() => {
            case.pipes[k].qual = true;
            "entry-point-name-qualified"
        }
        0 if case.pipes.len() >= 2 => {
            // two blocks of one name: the later one is refused
            let j = if k == 0 { 1 } else { rng.below(k as u64) as usize };
            let n = case.pipes[j.min(k)].name.clone();
            case.pipes[j.max(k)].name = n;
            "pipeline-name-twice"
        }
        1 if !case.helpers.is_empty() && !case.pipes[k].stages.is_empty() => {
            // the entry point shares its name with a helper
            let e = case.pipes[k].stages[0];
            case.entries[e].name = case.helpers[0].name.clone();
            "entry-name-of-a-helper"
        }
        2 if !case.pipes[k].stages.is_empty() => {
            // a compute stage next to another stage
            let first = case.pipes[k].stages[0];
            if let Some(c) = (0..case.entries.len()).find(|e| case.entries[*e].stage.as_deref() == Some("Compute")) {
                if case.entries[first].stage.as_deref() != Some("Compute") || case.pipes[k].stages.len() > 1 {
                    case.pipes[k].stages.push(c);
                    return "compute-next-to-graphics";
                } else if let Some(o) = (0..case.entries.len()).find(|e| matches!(case.entries[*e].stage.as_deref(), Some("Pixel") | Some("Vertex"))) {
                    case.pipes[k].stages.push(o);
                    return "compute-next-to-graphics";
                }
            }
            ""
        }
        3 if !case.pipes[k].stages.is_empty() => {
            let first = case.pipes[k].stages[0];
            case.pipes[k].stages.push(first);
            "stage-property-twice"
        }
        4 => {
            // graphics state: an error on a compute pipeline only (a random set, or exactly one property of one group)
            case.pipes[k].gstate = if rng.chance(1, 2) { 1 + rng.below(500) as u32 } else { 9001 + rng.below(4) as u32 };
            "graphics-state"
        }
        5 => {
            case.pipes[k].stages.clear();
            "no-entry-point"
        }
        6 => {
            if let Some(r) = case.res.iter_mut().find(|r| r.ss) {
                r.vk_index = Some(3);
                "static-sampler-index"
            } else {
                ""
            }
        }
        7 | 8 => {
            // a second numthreads attribute on a definition (and on the forward declaration, where it does not count):
            // an entry point of this pipeline, or any
            let cands: Vec<usize> = if !case.pipes[k].stages.is_empty() && rng.chance(2, 3) {
                case.pipes[k].stages.clone()
            } else {
                (0..case.entries.len()).collect()
            };
            let cands: Vec<usize> = cands.into_iter().filter(|e| case.entries[*e].threads.is_some()).collect();
            if cands.is_empty() {
                return "";
            }
            let e = *rng.pick(&cands);
            case.entries[e].nt = 3;
            if rng.chance(1, 2) {
                case.entries[e].fd = true;
            }
            "second-numthreads"
        }
        _ => {
            // the block comes before the definitions of its entry points (unknown, or declared only)
            case.pipes[k].before = true;
            if let Some(e) = case.pipes[k].stages.first().copied() {
                if rng.chance(1, 2) {
                    case.entries[e].fd = true;
                }
            }
            "block-before-entry-points"
        }
    }
}

pub fn run(args: &Args, out: &mut Out) {
    let mut hist = Hist::default();
    if args.extra.first().map(|s| s.as_str()) == Some("dump") {
        // harness c05 dump <file> <target> [mode]: print what compile() returns (debugging aid)
        let src = std::fs::read_to_string(&args.extra[1]).unwrap_or_default();
        let tgt = Tgt::parse(&args.extra[2]).unwrap_or(Tgt::Dx);
        let mode = args.extra.get(3).and_then(|m| parse_mode(m)).unwrap_or(Mode::All);
        match compile_raw(&src, tgt, &mode) {
            Raw::Ok(ps) => {
                for p in ps {
                    println!("=== metadata {:?}\n=== stages {:?}\n{}", p.metadata,
                        p.stages.iter().map(|s| format!("{:?}:{}:{:?}", s.stage, s.entry_point, s.thread_group_size)).collect::<Vec<_>>(),
                        String::from_utf8_lossy(&p.data));
                }
            }
            Raw::Err(e) => println!("ERR {}", e),
            Raw::Panic(p) => println!("PANIC {}", p),
        }
        return;
    }
    if let Some(lines) = args.request_lines() {
        for line in lines {
            let f: Vec<&str> = line.split('\t').collect();
            if f.len() == 8 && f[0] == "C05.layers" {
                match Case::decode(&f[3..]) {
                    Some(case) => run_layers(&case, out, &mut hist),
                    None => out.case(&line, "bad-request", "SKIP:bad request"),
                }
                continue;
            }
            if f.len() != 8 || f[0] != "C05.meta" {
                continue;
            }
            let (Some(t), Some(m), Some(case)) = (Tgt::parse(f[1]), parse_mode(f[2]), Case::decode(&f[3..])) else {
                out.case(&line, "bad-request", "SKIP:bad request");
                continue;
            };
            if args.extra.first().map(|s| s.as_str()) == Some("show") {
                eprintln!("{}", case.render());
            }
            run_case(&case, t, &m, out, &mut hist);
        }
        out.stat(&format!("{{\"mode\":\"replay\",\"hist\":{}}}", hist.json()));
        return;
    }
    let n = args.n.unwrap_or(if args.thorough() { 4000 } else { 250 });
    let mut rng = Rng::new(args.seed);
    for _ in 0..n {
        let seed = rng.next() >> 16;
        let mut prng = Rng::new(seed);
        // mesh entry points make every non-mesh pipeline of the file fail on Metal (InvalidPipelineForMeshIntrinsic):
        // keep them to a third of the programs
        let allow_mesh = prng.chance(1, 3);
        let prog = progen::gen_program(&mut prng, &progen::GenOpts { max_resources: 8, allow_mesh, ..Default::default() });
        let mut case = from_program(&prog);
        mutate(&mut case, &mut prng, &mut hist);
        // the codec is the single source of truth: what is run is what the request line says
        let enc = case.encode();
        let Some(case) = Case::decode(&enc.split('\t').collect::<Vec<_>>()) else {
            hist.add("generator=undecodable");
            continue;
        };
        let absent = prng.chance(1, 8);
        if absent {
            hist.add("variant=named-pipeline-absent");
        }
        for tgt in ALL_TARGETS {
            run_case(&case, tgt, &Mode::All, out, &mut hist);
            if !case.pipes.is_empty() {
                let k = rng.below(case.pipes.len() as u64) as usize;
                run_case(&case, tgt, &Mode::Named(case.pipes[k].name.clone()), out, &mut hist);
            }
            run_case(&case, tgt, &Mode::NoPipeline, out, &mut hist);
            // a pipeline name the file does not have
            if absent {
                run_case(&case, tgt, &Mode::Named("P_absent".into()), out, &mut hist);
            }
        }
        // what the typer builds for the declared types (target independent)
        run_layers(&case, out, &mut hist);
    }
    // name sweep: every name the target languages reserve, as an entry point and as a resource name
    // (most are rejected by the front end: those cases are skipped; the accepted ones must keep metadata and source in step)
    let repo = std::env::var("VERIF_REPO").unwrap_or_else(|_| "/repo".into());
    let mut swept = 0;
    for (file, tgts) in [("hlsl/src/names.rs", vec![Tgt::Dx, Tgt::VkBa]), ("msl/src/names.rs", vec![Tgt::Msl])] {
        let names = reserved_names(&format!("{}/{}", repo, file));
        let step = if args.thorough() { 1 } else { 4 };
        let start = (args.seed % step as u64) as usize;
        for name in names.iter().skip(start).step_by(step) {
            if !name.chars().all(|c| c.is_ascii_alphanumeric() || c == '_') {
                continue;
            }
            for tgt in &tgts {
                for role in 0..2 {
                    let mut case = Case {
                        nstatics: 0,
                        layout: 0,
                        inits: vec![],
                        res: vec![XRes::plain("g_t", "Texture2D")],
                        helpers: vec![],
                        entries: vec![XFn { name: "cs_0".into(), stage: Some("Compute".into()), uses: vec![(0, ' ')], threads: Some((8, 4, 1)), ..Default::default() }],
                        pipes: vec![XPipe { name: "P0".into(), dflt: None, stages: vec![0], gstate: 0, dexpr: false, before: false, qual: false }],
                    };
                    if role == 0 {
                        case.entries[0].name = name.clone();
                    } else {
                        case.res[0].name = name.clone();
                    }
                    hist.add("source=name-sweep");
                    swept += 1;
                    run_case(&case, *tgt, &Mode::Named("P0".into()), out, &mut hist);
                }
            }
        }
    }
    out.stat(&format!("{{\"programs\":{},\"name_sweep_cases\":{},\"hist\":{}}}", n, swept, hist.json()));
}

/// the string literals of `RESERVED_NAMES` in a names.rs
fn reserved_names(path: &str) -> Vec<String> {
    let text = std::fs::read_to_string(path).unwrap_or_default();
    let Some(start) = text.find("RESERVED_NAMES") else { return Vec::new() };
    let Some(open) = text[start..].find("&[\n").or_else(|| text[start..].find("= &[")) else { return Vec::new() };
    let body = &text[start + open..];
    let end = body.find("];").unwrap_or(body.len());
    let mut out = Vec::new();
    let mut rest = &body[..end];
    while let Some(q) = rest.find('"') {
        let after = &rest[q + 1..];
        let Some(q2) = after.find('"') else { break };
        out.push(after[..q2].to_string());
        rest = &after[q2 + 1..];
    }
    out
}

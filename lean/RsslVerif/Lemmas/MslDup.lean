import RsslVerif.Spec.MslDup
/-!
# C02 — an operand accepted by a sound side-effect test can be written any number of times
-/
namespace RsslVerif.Lemmas.MslDup
open RsslVerif.Gen.MslDupSites RsslVerif.Model.MslDup RsslVerif.Spec.MslDup

variable {Val Store : Type}

/-- what soundness gives for the row the test picks for a constructor -/
theorem sound_row {rows : List GuardRow} (hs : Sound rows = true) {c : String} {r : GuardRow}
    (hf : findRow rows c = some r) :
    strictPure.contains c = true ∧ ∃ k, ctorOf c = some k ∧ k.arity = r.arity ∧
      ∀ j, k.exprFields.contains j = true → r.recursed.contains j = true := by
  unfold findRow at hf
  have hmem := List.mem_of_find?_eq_some hf
  have hp := List.find?_some hf
  have hc : r.ctor = c := by simpa using hp
  unfold Sound at hs
  rw [List.all_eq_true] at hs
  have h := hs r hmem
  rw [hc] at h
  rw [Bool.and_eq_true] at h
  refine ⟨h.1, ?_⟩
  cases hk : ctorOf c with
  | none => rw [hk] at h; exact absurd h.2 (by simp)
  | some k =>
    rw [hk] at h
    have h2 := h.2
    simp only [Bool.and_eq_true, List.all_eq_true] at h2
    refine ⟨k, rfl, by simpa using h2.1, ?_⟩
    intro j hj
    exact h2.2 j (by simpa using hj)

mutual
/-- evaluating an accepted operand does not change the store -/
theorem guard_keeps_store (I : Interp Val Store) {rows : List GuardRow} (hs : Sound rows = true) :
    ∀ (e : DExpr), wf e = true → testExpr rows e = true →
      ∀ σ v σ', eval I e σ = some (v, σ') → σ' = σ
  | .node c fs, hw, hg, σ, v, σ', he => by
    unfold testExpr at hg
    cases hf : findRow rows c with
    | none => rw [hf] at hg; exact absurd hg (by simp)
    | some r =>
      rw [hf] at hg
      obtain ⟨hp, k, hk, _, hrec⟩ := sound_row hs hf
      unfold wf at hw
      rw [hk] at hw
      simp only [Bool.and_eq_true] at hw hg
      unfold eval at he
      rw [if_pos hp] at he
      cases hfs : evalFields I fs σ with
      | none => rw [hfs] at he; exact absurd he (by simp)
      | some p =>
        obtain ⟨vs, σ1⟩ := p
        simp only [hfs] at he
        have h1 : σ1 = σ := guardFields_keeps_store I hs k.exprFields r.recursed hrec fs 0 hw.2 hg.2 σ vs σ1 hfs
        cases hst : I.step c fs.payloads vs σ1 with
        | none => rw [hst] at he; exact absurd he (by simp)
        | some w =>
          simp only [hst, Option.some.injEq, Prod.mk.injEq] at he
          rw [← he.2, h1]
theorem guardFields_keeps_store (I : Interp Val Store) {rows : List GuardRow} (hs : Sound rows = true)
    (exprFields recursed : List Nat) (hrec : ∀ j, exprFields.contains j = true → recursed.contains j = true) :
    ∀ (fs : DFields) (i : Nat), wfFields exprFields i fs = true → testFields rows recursed i fs = true →
      ∀ σ vs σ', evalFields I fs σ = some (vs, σ') → σ' = σ
  | .nil, _, _, _, σ, vs, σ', he => by
    unfold evalFields at he
    simp only [Option.some.injEq, Prod.mk.injEq] at he
    exact he.2.symm
  | .payload _ r, i, hw, hg, σ, vs, σ', he => by
    unfold wfFields at hw
    unfold testFields at hg
    unfold evalFields at he
    simp only [Bool.and_eq_true] at hw
    exact guardFields_keeps_store I hs exprFields recursed hrec r (i + 1) hw.2 hg σ vs σ' he
  | .one e r, i, hw, hg, σ, vs, σ', he => by
    unfold wfFields at hw
    unfold testFields at hg
    unfold evalFields at he
    simp only [Bool.and_eq_true] at hw hg
    have hri := hrec i hw.1.1
    rw [if_pos hri] at hg
    cases h1 : eval I e σ with
    | none => rw [h1] at he; exact absurd he (by simp)
    | some p =>
      obtain ⟨v, σ1⟩ := p
      simp only [h1] at he
      have e1 : σ1 = σ := guard_keeps_store I hs e hw.1.2 hg.1 σ v σ1 h1
      cases h2 : evalFields I r σ1 with
      | none => rw [h2] at he; exact absurd he (by simp)
      | some q =>
        obtain ⟨ws, σ2⟩ := q
        simp only [h2] at he
        have e2 : σ2 = σ1 := guardFields_keeps_store I hs exprFields recursed hrec r (i + 1) hw.2 hg.2 σ1 ws σ2 h2
        simp only [Option.some.injEq, Prod.mk.injEq] at he
        rw [← he.2, e2, e1]
  | .many es r, i, hw, hg, σ, vs, σ', he => by
    unfold wfFields at hw
    unfold testFields at hg
    simp only [Bool.and_eq_true] at hw hg
    have hri := hrec i hw.1.1
    rw [hri] at hg
    exact absurd hg.1 (by simp)
end

/-- … so writing it `n` times gives `n` copies of the one value and the store of one evaluation -/
theorem repeat_of_keeps_store (I : Interp Val Store) (e : DExpr)
    (hpure : ∀ σ v σ', eval I e σ = some (v, σ') → σ' = σ) :
    ∀ (n : Nat) σ v σ', eval I e σ = some (v, σ') → evalRepeat I e n σ = some (List.replicate n v, σ')
  | 0, σ, v, σ', he => by
    have := hpure σ v σ' he
    subst this
    rfl
  | n + 1, σ, v, σ', he => by
    have h := hpure σ v σ' he
    subst h
    unfold evalRepeat
    have ih := repeat_of_keeps_store I e hpure n σ' v σ' he
    simp only [he, ih, List.replicate_succ]

end RsslVerif.Lemmas.MslDup

"""Common machinery of ./check (DESIGN.md sections 3 and 5).

A property module (checks/cXX.py) provides a `SPEC` dict:

  id            "C06"
  gens          [Gen names regenerated from /repo on every run]
  lean_modules  [lake targets holding the property theorems]
  theorems      [fully qualified theorem names = proof obligations]
  harness       harness sub-command ("c06"), or None
  harness_args  fn(tier, seed) -> [extra argv]                      (optional)
  nontrivial    fn(request, observation) -> bool                    (optional)
  finding_key   fn(request, observation, detail) -> str             (optional)
  shrink        fn(request) -> iterable of smaller requests         (optional)
  search        fn(ctx) -> [request lines to try on the implementation]   (optional)
  custom        fn(ctx) -> None, extra property-specific steps that may call ctx.add_* (optional)
  trusted_base  [...], assumptions [...], rule "..."
"""
import fcntl
import hashlib
import json
import os
import re
import subprocess
import sys
import time

ROOT = os.path.dirname(os.path.dirname(os.path.abspath(__file__)))
LEAN = os.path.join(ROOT, "lean")
HARNESS = os.path.join(ROOT, "harness")
BUILD = os.path.join(ROOT, "build")
REPO = os.environ.get("VERIF_REPO", "/repo")
MODEL_DIR = os.path.join(LEAN, ".lake", "build", "bin")
# compatibility for property modules with their own run loop: path of the current property's model executable
MODEL_EXE = None
HARNESS_EXE = os.path.join(BUILD, "target", "debug", "harness")


def harness_dir():
    """The harness crate to build. With VERIF_REPO pointing at a scratch copy of the repository (used when
    trying mutations without touching /repo) a shadow crate with rewritten path dependencies is used."""
    global HARNESS_EXE
    if os.path.realpath(REPO) == "/repo":
        return HARNESS
    tag = hashlib.sha256(REPO.encode()).hexdigest()[:8]
    alt = os.path.join(BUILD, "harness-" + tag)
    os.makedirs(os.path.join(alt, ".cargo"), exist_ok=True)
    with open(os.path.join(HARNESS, "Cargo.toml")) as f:
        toml = f.read().replace('"/repo', '"' + REPO.rstrip("/"))
    toml = toml.replace('path = "src/main.rs"', 'path = "%s"' % os.path.join(HARNESS, "src", "main.rs"))
    with open(os.path.join(alt, "Cargo.toml"), "w") as f:
        f.write(toml)
    with open(os.path.join(alt, ".cargo", "config.toml"), "w") as f:
        f.write('[net]\noffline = true\n[build]\ntarget-dir = "%s"\nrustflags = ["--cfg", "trark_rssl_verif"]\n'
                % os.path.join(BUILD, "target-" + tag))
    HARNESS_EXE = os.path.join(BUILD, "target-" + tag, "debug", "harness")
    return alt
ALLOWED_AXIOMS = {"propext", "Classical.choice", "Quot.sound"}
FORBIDDEN = re.compile(r"\bsorry\b|\badmit\b|^\s*axiom\s|native_decide|bv_decide|implemented_by|\bunsafe\s|maxHeartbeats\s+0")

ENV = dict(os.environ)
ENV["CARGO_NET_OFFLINE"] = "true"
ENV["RUST_BACKTRACE"] = "0"
ENV.pop("RUSTFLAGS", None)


def sh(cmd, cwd=None, timeout=None, input_=None, env=None):
    p = subprocess.run(cmd, cwd=cwd, timeout=timeout, input=input_, env=env or ENV,
                       stdout=subprocess.PIPE, stderr=subprocess.STDOUT, text=True, errors="replace")
    out = "\n".join(l for l in p.stdout.splitlines() if "conda.cli.condarc" not in l)
    return p.returncode, out


class Lock:
    """file lock so concurrent checks do not corrupt shared build output"""

    def __init__(self, name):
        os.makedirs(BUILD, exist_ok=True)
        self.path = os.path.join(BUILD, name + ".lock")

    def __enter__(self):
        self.f = open(self.path, "w")
        fcntl.flock(self.f, fcntl.LOCK_EX)
        return self

    def __exit__(self, *a):
        fcntl.flock(self.f, fcntl.LOCK_UN)
        self.f.close()


def load_known():
    path = os.path.join(ROOT, "known_findings.jsonl")
    out = []
    if os.path.exists(path):
        for line in open(path):
            line = line.strip()
            if line and not line.startswith("#"):
                out.append(json.loads(line))
    return out


def default_key(request, observation, detail):
    m = re.match(r"FAIL:panic ([^:]+):\d+: (.*)$", detail or "")
    if m:
        msg = re.sub(r"\d+", "N", m.group(2))
        return f"panic {m.group(1)}: {msg}"
    return request


class Ctx:
    def __init__(self, spec, tier, seed):
        self.spec = spec
        self.id = spec["id"]
        self.tier = tier
        self.seed = seed
        self.t0 = time.time()
        self.log = []
        self.gen_status = {}
        self.theorem_status = {}      # name -> "ok" | reason
        self.axioms = {}
        self.cases = 0
        self.distinct = set()
        self.nontrivial = set()
        self.samples = []
        self.disagreements = []       # (request, impl, model)
        self.oracle_failures = []     # (request, observation, detail)
        self.skipped = 0
        self.unsupported = 0
        self.stats = []
        self.broken = []              # descriptions of broken obligations / correspondence
        self.violations = []          # (replay_path, suffix)
        self.known_hit = []
        self.extra = {}
        self.harness_ok = None
        global MODEL_EXE
        MODEL_EXE = os.path.join(MODEL_DIR, self.model_target())

    def model_target(self):
        return "rsslmodel_" + self.id.lower()

    def say(self, msg):
        self.log.append(msg)
        print(msg, flush=True)

    # ---------------------------------------------------------------- proof side
    def regenerate(self):
        gens = self.spec.get("gens", [])
        if not gens:
            return
        with Lock("lean"):
            # every generator runs (theorem modules may import tables of other properties); only this property's
            # generators count as its obligations
            rc, out = sh([sys.executable, os.path.join(ROOT, "tools", "translate.py")], cwd=ROOT)
        try:
            allst = json.loads(out.strip().splitlines()[-1])
            self.gen_status = {g: allst.get(g, {"ok": False, "error": "unknown generator"}) for g in gens}
        except Exception:
            self.gen_status = {g: {"ok": False, "error": "translator crashed: " + out[-300:]} for g in gens}
        for g, st in self.gen_status.items():
            if not st.get("ok"):
                self.broken.append(f"translator:{g}: {st.get('error')}")
                self.say(f"[{self.id}] translator could not read the source for Gen.{g}: {st.get('error')}")

    def lean_build(self):
        mods = self.spec.get("lean_modules", [])
        thms = self.spec.get("theorems", [])
        with Lock("lean"):
            rc, out = sh(["lake", "build"] + mods + [self.model_target()], cwd=LEAN, timeout=3000)
            self.extra["lake_rc"] = rc
            if rc != 0:
                self._attribute_errors(out, thms)
            else:
                for t in thms:
                    self.theorem_status[t] = "ok"
                self._audit(thms, mods)
                if self.tier == "thorough" and mods:
                    self._leanchecker(mods)
        self._grep_forbidden()
        for t, st in self.theorem_status.items():
            if st != "ok":
                self.broken.append(f"theorem:{t}: {st}")

    def _attribute_errors(self, out, thms):
        errs = re.findall(r"error: ([^\s:]+\.lean):(\d+):(\d+): (.*)", out)
        hit = set()
        generic = []
        for path, line, col, msg in errs:
            full = os.path.join(LEAN, path)
            name = None
            try:
                src = open(full).read().splitlines()
                ns = ""
                for i, l in enumerate(src[: int(line)]):
                    m = re.match(r"namespace\s+(\S+)", l)
                    if m:
                        ns = m.group(1)
                    m = re.match(r"\s*(?:private\s+|protected\s+)?(?:theorem|lemma|def|example|instance)\s+([^\s:({\[]+)", l)
                    if m:
                        name = (ns + "." if ns else "") + m.group(1)
            except OSError:
                pass
            if name in thms:
                hit.add(name)
                self.theorem_status[name] = f"does not check: {path}:{line}: {msg[:160]}"
            else:
                generic.append(f"{path}:{line}: {msg[:160]}")
        if not errs:
            generic.append("lake build failed: " + out[-400:].replace("\n", " | "))
        for t in thms:
            if t in hit:
                continue
            if generic:
                # an error outside the theorem statements (Gen stub, model, lemma): nothing downstream is checked
                self.theorem_status[t] = "not checked: " + generic[0]
            else:
                self.theorem_status[t] = "not checked: another theorem of the module fails (module .olean not produced)"
        self.say(f"[{self.id}] lake build FAILED: " + "; ".join((list(hit) + generic)[:4]))

    def _audit(self, thms, mods):
        if not thms:
            return
        os.makedirs(os.path.join(BUILD, "audit"), exist_ok=True)
        path = os.path.join(BUILD, "audit", f"{self.id}.lean")
        with open(path, "w") as f:
            for m in mods:
                f.write(f"import {m}\n")
            for t in thms:
                f.write(f"#print axioms {t}\n")
        rc, out = sh(["lake", "env", "lean", path], cwd=LEAN, timeout=900)
        seen = {}
        for m in re.finditer(r"'([^']+)' depends on axioms: \[([^\]]*)\]", out.replace("\n", " ")):
            seen[m.group(1)] = [a.strip() for a in m.group(2).split(",") if a.strip()]
        for m in re.finditer(r"'([^']+)' does not depend on any axioms", out):
            seen[m.group(1)] = []
        for t in thms:
            if t not in seen:
                self.theorem_status[t] = "missing: theorem not found by #print axioms (" + out[-200:].replace("\n", " ") + ")"
                continue
            self.axioms[t] = seen[t]
            bad = [a for a in seen[t] if a not in ALLOWED_AXIOMS]
            if bad:
                self.theorem_status[t] = f"uses disallowed axioms {bad}"

    def _leanchecker(self, mods):
        """thorough tier: the toolchain's independent re-checker replays the compiled declarations of the property's
        theorem modules (and everything they import from this project) through the kernel"""
        t0 = time.time()
        rc, out = sh(["lake", "env", "leanchecker"] + list(mods), cwd=LEAN, timeout=3000)
        self.extra["leanchecker"] = {"modules": list(mods), "rc": rc, "seconds": round(time.time() - t0, 1),
                                     "output_tail": out[-300:]}
        if rc != 0:
            self.broken.append("leanchecker rejects the compiled theorem modules: " + out[-300:].replace("\n", " | "))

    def _grep_forbidden(self):
        hits = []
        for dirpath, _, files in os.walk(os.path.join(LEAN, "RsslVerif")):
            for fn in files:
                if not fn.endswith(".lean"):
                    continue
                p = os.path.join(dirpath, fn)
                text = open(p).read()
                text = re.sub(r"/-.*?-/", lambda m: "\n" * m.group(0).count("\n"), text, flags=re.S)
                for i, l in enumerate(text.splitlines(), 1):
                    l = l.split("--")[0]
                    if FORBIDDEN.search(l):
                        hits.append(f"{os.path.relpath(p, LEAN)}:{i}")
        self.extra["forbidden_token_hits"] = hits
        if hits:
            self.broken.append("forbidden proof escape (sorry/axiom/native_decide/...) at " + ", ".join(hits[:5]))

    # ---------------------------------------------------------------- correspondence side
    def harness_build(self):
        with Lock("cargo"):
            rc, out = sh(["cargo", "build", "--offline"], cwd=harness_dir(), timeout=3000)
            # a failure that is not a compile error of the harness against the tree (rustc could not be started, the
            # machine was out of processes or memory for a moment) says nothing about /repo: try again before judging
            tries = 0
            while rc != 0 and "error[E" not in out and "could not compile" not in out and tries < 3:
                tries += 1
                time.sleep(10 * tries)
                rc, out = sh(["cargo", "build", "--offline"], cwd=harness_dir(), timeout=3000)
        self.harness_ok = rc == 0
        if rc != 0:
            errs = [l for l in out.splitlines() if l.startswith("error")]
            self.broken.append("harness does not build against /repo's working tree: " + "; ".join(errs[:3]))
            self.say(f"[{self.id}] cargo build FAILED: " + "; ".join(errs[:3]))
        return self.harness_ok

    def run_harness(self, argv, timeout=3000):
        """run the harness; returns list of (request, impl_obs, oracle) and STAT objects"""
        rc, out = sh([HARNESS_EXE] + argv, cwd=ROOT, timeout=timeout)
        cases, stats = [], []
        for line in out.split("\n"):
            if line.startswith("CASE\t"):
                f = line.split("\t")
                try:
                    k = f.index("=>")
                except ValueError:
                    continue
                req = "\t".join(f[1:k])
                obs = f[k + 1] if len(f) > k + 1 else ""
                orc = f[k + 2] if len(f) > k + 2 else "ok"
                cases.append((req, obs, orc))
            elif line.startswith("STAT\t"):
                try:
                    stats.append(json.loads(line[5:]))
                except Exception:
                    pass
        if rc != 0:
            tail = out[-300:].replace("\n", " | ")
            self.broken.append(f"harness {' '.join(argv)} exited with {rc}: {tail}")
        return cases, stats

    def run_model(self, requests):
        if not requests:
            return []
        exe = os.path.join(MODEL_DIR, self.model_target())
        if not os.path.exists(exe):
            # the model did not build (e.g. a Gen table could not be extracted): a broken obligation, not a crash
            msg = f"model executable {self.model_target()} is not built (see the lake errors above)"
            if msg not in self.broken:
                self.broken.append(msg)
            return ["model-unavailable"] * len(requests)
        rc, out = sh([os.path.join(MODEL_DIR, self.model_target())], input_="\n".join(requests) + "\n", timeout=3000)
        lines = out.split("\n")
        if lines and lines[-1] == "":
            lines.pop()
        if rc != 0 or len(lines) != len(requests):
            self.broken.append(f"rsslmodel failed (rc={rc}, {len(lines)} answers for {len(requests)} requests)")
            lines = (lines + ["model-crash"] * len(requests))[: len(requests)]
        return lines

    def correspond(self, cases, compare_model=True):
        """account for a batch of harness cases; compares with the model and records oracle failures"""
        nontrivial = self.spec.get("nontrivial", lambda r, o: True)
        model = self.run_model([c[0] for c in cases]) if compare_model else [None] * len(cases)
        for (req, obs, orc), mobs in zip(cases, model):
            self.cases += 1
            if req not in self.distinct:
                self.distinct.add(req)
                if nontrivial(req, obs):
                    self.nontrivial.add(req)
            if len(self.samples) < 5 and (self.cases % 997 == 1 or len(self.samples) < 2):
                self.samples.append({"request": req, "implementation": obs, "model": mobs, "oracle": orc})
            if orc.startswith("SKIP"):
                self.skipped += 1
                continue
            if orc.startswith("FAIL"):
                self.oracle_failures.append((req, obs, orc))
            if compare_model:
                if mobs == "model-unavailable":
                    pass
                elif mobs is not None and mobs.startswith("unsupported"):
                    self.unsupported += 1
                elif mobs != obs:
                    self.disagreements.append((req, obs, mobs))

    def standard_run(self):
        spec = self.spec
        if not spec.get("harness"):
            return
        if not self.harness_build():
            return
        extra = spec.get("harness_args", lambda tier, seed: [])(self.tier, self.seed)
        base = [spec["harness"], "--tier", self.tier, "--seed", str(self.seed)] + extra
        # corpus first
        corpus = os.path.join(ROOT, "corpus", f"{self.id}.txt")
        if os.path.exists(corpus) and os.path.getsize(corpus) > 0:
            cases, _ = self.run_harness([spec["harness"], "--requests", corpus])
            self.extra["corpus_cases"] = len(cases)
            self.correspond(cases)
        cases, stats = self.run_harness(base)
        self.stats.extend(stats)
        self.correspond(cases)

    # ---------------------------------------------------------------- verdict
    def replay_request(self, request):
        """run one request on the implementation; returns (obs, oracle) or None"""
        os.makedirs(os.path.join(BUILD, "tmp"), exist_ok=True)
        p = os.path.join(BUILD, "tmp", f"req-{self.id}-{os.getpid()}.txt")
        with open(p, "w") as f:
            f.write(request + "\n")
        cases, _ = self.run_harness([self.spec["harness"], "--requests", p], timeout=600)
        os.unlink(p)
        return (cases[0][1], cases[0][2]) if cases else None

    def shrink(self, request, key):
        """greedy shrinking: keep a smaller request while the oracle still fails with the same key"""
        shr = self.spec.get("shrink")
        if not shr:
            return request
        keyf = self.spec.get("finding_key", default_key)
        budget = 60
        improved = True
        while improved and budget > 0:
            improved = False
            for cand in shr(request):
                budget -= 1
                if budget <= 0:
                    break
                r = self.replay_request(cand)
                if not (r and r[1].startswith("FAIL")):
                    continue
                ck = keyf(cand, r[0], r[1])
                # same finding key; or, when the key is the request itself (no classification), any failing candidate
                # that is not one of the listed known findings (a shrink must not drift into a known class)
                if ck == key or (keyf(request, "", "") == request and ck not in getattr(self, "_known_keys", {})):
                    request = cand
                    improved = True
                    break
        return request

    def write_replay(self, kind, payload):
        os.makedirs(os.path.join(ROOT, "replays"), exist_ok=True)
        h = hashlib.sha256(json.dumps(payload, sort_keys=True).encode()).hexdigest()[:12]
        path = os.path.join("replays", f"{self.id}-{kind}-{h}.json")
        payload = dict(payload)
        payload.update({"property": self.id, "kind": kind,
                        "replay_cmd": f"./check {self.id} replay {path}"})
        with open(os.path.join(ROOT, path), "w") as f:
            json.dump(payload, f, indent=1)
        return path

    def decide(self):
        keyf = self.spec.get("finding_key", default_key)
        known = [k for k in load_known() if k.get("property") == self.id and k.get("kind") == "known"]
        known_keys = {k["key"]: k for k in known}
        self._known_keys = known_keys
        unlisted = {}
        for req, obs, orc in self.oracle_failures:
            key = keyf(req, obs, orc)
            if key in known_keys:
                if key not in [k for k, _ in self.known_hit]:
                    self.known_hit.append((key, known_keys[key].get("what", key)))
            elif key not in unlisted:
                unlisted[key] = (req, obs, orc)
        # 1. direct violations of the property on the real code
        for key, (req, obs, orc) in list(unlisted.items())[:1]:
            small = self.shrink(req, key) if self.harness_ok else req
            if small != req:
                r = self.replay_request(small)
                if r:
                    obs, orc = r
            path = self.write_replay("input", {"request": small, "observed": obs, "oracle": orc,
                                               "original_request": req, "finding_key": key})
            self.violations.append((path, ""))
        # 2. broken proof obligations / correspondence with no direct failing input yet: search
        need_search = (self.broken or self.disagreements) and not self.violations
        if need_search:
            found = self.search_witness(known_keys)
            if not found:
                what = list(self.broken)
                if self.disagreements:
                    what.append(f"correspondence: {len(self.disagreements)} model/implementation disagreements")
                payload = {"no_longer_checks": what,
                           "disagreements": [{"request": r, "implementation": o, "model": m}
                                             for r, o, m in self.disagreements[:10]]}
                path = self.write_replay("obligation", payload)
                self.violations.append((path, " no-failing-input-found"))

    def search_witness(self, known_keys):
        """look for a concrete input on which the real code violates the property"""
        if not self.spec.get("harness") or not self.harness_ok:
            return False
        keyf = self.spec.get("finding_key", default_key)
        candidates = [d[0] for d in self.disagreements[:200]]
        searchf = self.spec.get("search")
        if searchf:
            try:
                candidates += list(searchf(self))
            except Exception as e:  # the search is best effort
                self.say(f"[{self.id}] model-side search failed: {e}")
        tried = 0
        if candidates:
            os.makedirs(os.path.join(BUILD, "tmp"), exist_ok=True)
            p = os.path.join(BUILD, "tmp", f"search-{self.id}-{os.getpid()}.txt")
            with open(p, "w") as f:
                f.write("\n".join(candidates) + "\n")
            cases, _ = self.run_harness([self.spec["harness"], "--requests", p])
            os.unlink(p)
            tried += len(cases)
            for req, obs, orc in cases:
                if orc.startswith("FAIL") and keyf(req, obs, orc) not in known_keys:
                    key = keyf(req, obs, orc)
                    small = self.shrink(req, key)
                    r = self.replay_request(small) or (obs, orc)
                    path = self.write_replay("input", {"request": small, "observed": r[0], "oracle": r[1],
                                                       "found_by": "witness search after a broken obligation",
                                                       "no_longer_checks": self.broken[:5]})
                    self.violations.append((path, ""))
                    self.extra["search_tried"] = tried
                    return True
        # wider random search on the implementation with other seeds
        for k in range(1, 4):
            extra = self.spec.get("harness_args", lambda t, s: [])("thorough" if k > 1 else self.tier, self.seed + k)
            cases, _ = self.run_harness([self.spec["harness"], "--tier", self.tier, "--seed", str(self.seed + 1000 * k)] + extra)
            tried += len(cases)
            for req, obs, orc in cases:
                if orc.startswith("FAIL") and keyf(req, obs, orc) not in known_keys:
                    key = keyf(req, obs, orc)
                    small = self.shrink(req, key)
                    r = self.replay_request(small) or (obs, orc)
                    path = self.write_replay("input", {"request": small, "observed": r[0], "oracle": r[1],
                                                       "found_by": "random witness search after a broken obligation",
                                                       "no_longer_checks": self.broken[:5]})
                    self.violations.append((path, ""))
                    self.extra["search_tried"] = tried
                    return True
        self.extra["search_tried"] = tried
        return False

    # ---------------------------------------------------------------- evidence
    def write_evidence(self):
        thms = self.spec.get("theorems", [])
        gens = self.spec.get("gens", [])
        obligations = len(thms) + len(gens)
        discharged = sum(1 for t in thms if self.theorem_status.get(t) == "ok") + \
            sum(1 for g in gens if self.gen_status.get(g, {}).get("ok"))
        mods = " ".join(self.spec.get("lean_modules", []))
        ev = {
            "property_id": self.id,
            "tier": self.tier,
            "seed": self.seed,
            "level": "proof",
            "coverage": {
                "obligations": max(obligations, 1),
                "discharged": discharged,
                "checker_cmd": f"cd lean && lake build {mods} && lake env lean ../build/audit/{self.id}.lean  (#print axioms)",
                "trusted_base": self.spec.get("trusted_base", []),
                "theorems": {t: {"status": self.theorem_status.get(t, "not run"), "axioms": self.axioms.get(t)} for t in thms},
                "generated_tables": self.gen_status,
                "evaluations": self.cases,
                "distinct_nontrivial": len(self.nontrivial),
                "distinct_requests": len(self.distinct),
                "rule": self.spec.get("rule", ""),
                "samples": self.samples,
                "model_disagreements": len(self.disagreements),
                "oracle_failures": len(self.oracle_failures),
                "skipped_by_generator": self.skipped,
                "unsupported_by_model": self.unsupported,
                "known_findings_reproduced": [k for k, _ in self.known_hit],
                "broken_obligations": self.broken,
                "input_distribution": self.stats,
                "explanation": "obligations = property theorems checked by Lean's kernel + source tables re-extracted this run; "
                               "evaluations = correspondence cases (tests of the model/code tie, not obligations)",
            },
            "assumptions": self.spec.get("assumptions", []),
            "wall_s": round(time.time() - self.t0, 2),
            "violations": len(self.violations),
        }
        ev["coverage"].update(self.extra)
        os.makedirs(os.path.join(ROOT, "evidence"), exist_ok=True)
        with open(os.path.join(ROOT, "evidence", f"{self.id}.json"), "w") as f:
            json.dump(ev, f, indent=1)

    def finish(self):
        self.decide()
        self.write_evidence()
        for key, what in self.known_hit:
            print(f"KNOWN-FINDING: property={self.id} {what}")
        for path, suffix in self.violations:
            print(f"VIOLATION property={self.id} replay={path}{suffix}")
        thms = self.spec.get("theorems", [])
        ok = sum(1 for t in thms if self.theorem_status.get(t) == "ok")
        print(f"[{self.id}] {self.tier}: theorems {ok}/{len(thms)} checked, {self.cases} correspondence cases, "
              f"{len(self.disagreements)} disagreements, {len(self.oracle_failures)} oracle failures, "
              f"{len(self.known_hit)} known findings, {len(self.violations)} violations, "
              f"{round(time.time() - self.t0, 1)} s", flush=True)
        return 1 if self.violations else 0


def run_check(spec, tier, seed):
    ctx = Ctx(spec, tier, seed)
    ctx.regenerate()
    ctx.lean_build()
    if spec.get("custom"):
        spec["custom"](ctx)
    else:
        ctx.standard_run()
    return ctx.finish()


def run_replay(spec, path):
    """re-run a replay file on the current tree; exit 1 if it still shows the violation"""
    ctx = Ctx(spec, "quick", 0)
    full = path if os.path.isabs(path) else os.path.join(ROOT, path)
    payload = json.load(open(full))
    if payload.get("kind") == "input" and payload.get("request") is not None:
        if spec.get("replay"):
            return spec["replay"](ctx, payload)
        if not ctx.harness_build():
            print(f"VIOLATION property={ctx.id} replay={path} no-failing-input-found")
            return 1
        r = ctx.replay_request(payload["request"])
        print(f"request : {payload['request']}")
        print(f"observed: {r[0] if r else None}")
        print(f"oracle  : {r[1] if r else None}")
        if r and r[1].startswith("FAIL"):
            print(f"VIOLATION property={ctx.id} replay={path}")
            return 1
        return 0
    # an obligation replay: re-run the proof side and the correspondence
    print("no longer checked at the time of the report:")
    for w in payload.get("no_longer_checks", []):
        print("  -", w)
    ctx.regenerate()
    ctx.lean_build()
    if ctx.broken:
        print(f"VIOLATION property={ctx.id} replay={path} no-failing-input-found")
        return 1
    return 0

import RsslVerif.Model.StmtX
/-!
# What "well typed" means for typed statements and initialisers (C03, extended language)

Reference predicates the soundness theorems of `Thm/C03X.lean` are stated with; they only use the typing judgment
`Model.IrTypingX.HasType` and the declarations of the environment, never the elaboration functions.

* `InitTyped Γ t init` — `init` initialises a value of type `t`: a single expression has **exactly** the unmodified `t`;
  an aggregate has exactly one item per component (vector: `n` scalars of the vector's kind, array: `len` elements,
  struct: one item per data member in order), each typed for its component;
* `StmtTyped Γ s` — every expression of the statement has a type; a returned expression has exactly the function's
  return type (`return;` only in `void` functions); a definition registers a variable of the stated type and its
  initialiser is `InitTyped`; nested blocks likewise.
* `Extends Γ Γ'` — `Γ'` is `Γ` with more local variables registered (and possibly other name-scope information).
-/
namespace RsslVerif.Spec.ElabX
open RsslVerif.Gen.RankTable RsslVerif.Model.Conv RsslVerif.Model.IrTypingX RsslVerif.Model.StmtX

/-- `Γ'` has the functions, type definitions and return type of `Γ` and registers the variables of `Γ` at the same ids -/
def Extends (Γ Γ' : Env) : Prop :=
  Γ'.funcs = Γ.funcs ∧ Γ'.others = Γ.others ∧ Γ'.ret = Γ.ret ∧ ∃ ext, Γ'.vars = Γ.vars ++ ext

mutual
def InitTyped (Γ : Env) : Ty → IInit → Prop
  | t, .expr e => ∃ τ, HasType Γ e τ ∧ τ.ty = t.unmod
  | t, .agg items =>
    match t.layer with
    | .vector s n => InitsSame Γ ⟨{}, .scalar s⟩ n items
    | .other id =>
      match Γ.others[id]? with
      | some (.array elem len) => InitsSame Γ elem len items
      | some (.struct ms) => InitsZip Γ (ms.map (·.2)) items
      | _ => False
    | _ => False
/-- exactly `n` items, each initialising a `t` -/
def InitsSame (Γ : Env) : Ty → Nat → IInits → Prop
  | _, 0, .nil => True
  | t, n + 1, .cons i r => InitTyped Γ t i ∧ InitsSame Γ t n r
  | _, _, _ => False
/-- one item per listed type, in order -/
def InitsZip (Γ : Env) : List Ty → IInits → Prop
  | [], .nil => True
  | t :: ts, .cons i r => InitTyped Γ t i ∧ InitsZip Γ ts r
  | _, _ => False
end

/-- the returned value has exactly the type the function returns (`void`: the value of a `void` call) -/
def RetExact (Γ : Env) (τ : ETy) : Prop :=
  match Γ.ret with
  | some rt => τ.ty = rt
  | none => ∃ id, τ.ty = ⟨{}, .other id⟩ ∧ Γ.others[id]? = some .void

def OptTyped (Γ : Env) : Option IExpr → Prop
  | none => True
  | some e => ∃ τ, HasType Γ e τ

def DeclTyped (Γ : Env) (t : Ty) (id : Nat) (init : Option IInit) : Prop :=
  Γ.vars[id]? = some t ∧ (match init with | none => True | some i => InitTyped Γ t i)

def ForInitTyped (Γ : Env) : IForInit → Prop
  | .none => True
  | .expr e => ∃ τ, HasType Γ e τ
  | .decl t id init => DeclTyped Γ t id init

mutual
def StmtTyped (Γ : Env) : IStmt → Prop
  | .expr e => ∃ τ, HasType Γ e τ
  | .ret none => Γ.ret = none
  | .ret (some e) => ∃ τ, HasType Γ e τ ∧ RetExact Γ τ
  | .decl t id init => DeclTyped Γ t id init
  | .block ss => StmtsTyped Γ ss
  | .ifS c b => (∃ τ, HasType Γ c τ) ∧ StmtsTyped Γ b
  | .ifElse c a b => (∃ τ, HasType Γ c τ) ∧ StmtsTyped Γ a ∧ StmtsTyped Γ b
  | .forS init c n b => ForInitTyped Γ init ∧ OptTyped Γ c ∧ OptTyped Γ n ∧ StmtsTyped Γ b
  | .whileS c b => (∃ τ, HasType Γ c τ) ∧ StmtsTyped Γ b
  | .doS b c => StmtsTyped Γ b ∧ (∃ τ, HasType Γ c τ)
  | .switchS c b => (∃ τ, HasType Γ c τ) ∧ StmtsTyped Γ b
  | .caseLabel => True
  | .defaultLabel => True
  | .breakS => True
  | .continueS => True
  | .discardS => True
def StmtsTyped (Γ : Env) : IStmts → Prop
  | .nil => True
  | .cons s r => StmtTyped Γ s ∧ StmtsTyped Γ r
end

/-! ## projection chains (source level) -/
open RsslVerif.Model.ElabX in
/-- one projection step: `.name` (struct member or swizzle) or `[i]` -/
inductive Proj where
  | member (name : String)
  | index (i : RsslVerif.Model.ElabX.SExpr)
  deriving Repr

open RsslVerif.Model.ElabX in
def applyProj (e : SExpr) : Proj → SExpr
  | .member n => .member e n
  | .index i => .index e i

open RsslVerif.Model.ElabX in
/-- `base` followed by the projections, innermost first: `applyChain v [.member "a", .index i]` is `v.a[i]` -/
def applyChain (base : SExpr) : List Proj → SExpr
  | [] => base
  | p :: ps => applyChain (applyProj base p) ps

/-- a const value of scalar / vector / matrix type -/
def ConstNum (τ : ETy) : Prop := τ.ty.mod.isConst = true ∧ τ.ty.layer.isNumeric = true

/-- an array whose element type is a const scalar / vector / matrix type (`const float a[3]`) -/
def ConstArr (Γ : Env) (τ : ETy) : Prop :=
  ∃ id elem len, τ.ty.layer = .other id ∧ Γ.others[id]? = some (.array elem len) ∧
    elem.mod.isConst = true ∧ elem.layer.isNumeric = true

/-- a read-only resource (`Buffer<T>`, `StructuredBuffer<T>`, `Texture2D<T>`, ...: the kinds of
    `Gen.ElabTables.subscriptReadOnly`) whose elements are scalars / vectors / matrices -/
def ReadOnlyRes (Γ : Env) (τ : ETy) : Prop :=
  ∃ id kind elem, τ.ty.layer = .other id ∧ Γ.others[id]? = some (.resource kind elem) ∧
    RsslVerif.Gen.ElabTables.subscriptReadOnly.contains kind = true ∧ elem.layer.isNumeric = true

/-! ## written places (IR level; independent of `check_mutable_place`) -/

/-- the type is const for the purpose of writes: a `const` modifier outermost, or an array (of arrays ...) of const elements
    (`const float a[3]` is an array type without a modifier of its own) -/
inductive ConstTy (Γ : Env) : Ty → Prop where
  | mod {t : Ty} : t.mod.isConst = true → ConstTy Γ t
  | array {t elem : Ty} {id len : Nat} :
      t.mod = {} → t.layer = .other id → Γ.others[id]? = some (.array elem len) → ConstTy Γ elem → ConstTy Γ t

/-- a buffer / texture / other object: its elements are not part of the value of the variable that holds the handle -/
def IsObject (Γ : Env) (l : Layer) : Prop :=
  ∃ id, l = .other id ∧ (Γ.others[id]? = some .object ∨ ∃ kind elem, Γ.others[id]? = some (.resource kind elem))

/-- the node selects a part of another value -/
def isProjection : IExpr → Bool
  | .member _ _ _ => true
  | .swizzle _ _ => true
  | .mswizzle _ _ => true
  | .index _ _ => true
  | _ => false

/-- **A mutable place** — what the target of an assignment, the operand of `++` / `--` and an `out` / `inout` argument must
    be: the expression and **every object on the way from the written part to the variable** is, under the IR's typing
    judgment, an lvalue of non-const type.  The walk goes through struct members, swizzles, matrix swizzles and subscripts of
    arrays / vectors / matrices; an element of a buffer / texture is a place whatever the handle expression is. -/
inductive MutablePlace (Γ : Env) : IExpr → Prop where
  | member {o : IExpr} {sid idx : Nat} {τ : ETy} :
      HasType Γ (.member o sid idx) τ → τ.vt = .lvalue → ¬ ConstTy Γ τ.ty → MutablePlace Γ o →
      MutablePlace Γ (.member o sid idx)
  | swizzle {o : IExpr} {slots : List Nat} {τ : ETy} :
      HasType Γ (.swizzle o slots) τ → τ.vt = .lvalue → ¬ ConstTy Γ τ.ty → MutablePlace Γ o →
      MutablePlace Γ (.swizzle o slots)
  | mswizzle {o : IExpr} {slots : List (Nat × Nat)} {τ : ETy} :
      HasType Γ (.mswizzle o slots) τ → τ.vt = .lvalue → ¬ ConstTy Γ τ.ty → MutablePlace Γ o →
      MutablePlace Γ (.mswizzle o slots)
  | element {o i : IExpr} {τ τo : ETy} :
      HasType Γ (.index o i) τ → τ.vt = .lvalue → ¬ ConstTy Γ τ.ty → HasType Γ o τo → ¬ IsObject Γ τo.ty.layer →
      MutablePlace Γ o → MutablePlace Γ (.index o i)
  | resourceElement {o i : IExpr} {τ τo : ETy} :
      HasType Γ (.index o i) τ → τ.vt = .lvalue → ¬ ConstTy Γ τ.ty → HasType Γ o τo → IsObject Γ τo.ty.layer →
      MutablePlace Γ (.index o i)
  | root {e : IExpr} {τ : ETy} :
      HasType Γ e τ → τ.vt = .lvalue → ¬ ConstTy Γ τ.ty → isProjection e = false → MutablePlace Γ e

/-- `e` is `b` followed by projection steps (struct members, swizzles, subscripts), none of which subscripts a buffer /
    texture -/
inductive ProjOf (Γ : Env) : IExpr → IExpr → Prop where
  | refl (b : IExpr) : ProjOf Γ b b
  | member {o b : IExpr} {sid idx : Nat} : ProjOf Γ o b → ProjOf Γ (.member o sid idx) b
  | swizzle {o b : IExpr} {slots : List Nat} : ProjOf Γ o b → ProjOf Γ (.swizzle o slots) b
  | mswizzle {o b : IExpr} {slots : List (Nat × Nat)} : ProjOf Γ o b → ProjOf Γ (.mswizzle o slots) b
  | index {o b i : IExpr} : ProjOf Γ o b → (∀ τo, HasType Γ o τo → ¬ IsObject Γ τo.ty.layer) → ProjOf Γ (.index o i) b

/-- what `out` / `inout` arguments must be -/
def OutArgsPlaces (Γ : Env) : List RsslVerif.Model.Overload.Param → IArgs → Prop
  | p :: ps, .cons e r => (p.io.needsLvalue = true → MutablePlace Γ e) ∧ OutArgsPlaces Γ ps r
  | _, _ => True

end RsslVerif.Spec.ElabX

#!/usr/bin/env python3
"""Maintenance helper for lean/RsslVerif/Lemmas/PanicClasses.lean (not a translator plugin: the leading `_`
keeps tools/translate.py from loading it).

usage: python3 tools/gens/_c08_review.py [update1.tsv ...]
The entries of the committed Lemmas/PanicClasses.lean are the base; TSV lines override / add to them.
Each TSV line: <file>:<line> \t <fn> \t <kind> \t <text> \t <class> \t <reason>   (the review of one site).
The script joins the reviews with the *current* inventory (Gen.PanicSites as produced by tools/gens/c08.py on
/repo), keeps the inventory's order, and writes the Lean list.  Sites without a review are reported and make
the script fail: nothing enters the committed list unreviewed."""
import os
import re
import sys

HERE = os.path.dirname(os.path.abspath(__file__))
sys.path.insert(0, os.path.dirname(HERE))
sys.path.insert(0, HERE)
import translate  # noqa: E402
import c08  # noqa: E402
from rustsrc import lean_str  # noqa: E402

CLASSES = ["unreachable-by-invariant", "reachable-known-finding", "internal-assert"]

LIST_USES_REASON = {
    "parse_attribute": "element starts with a mandatory `[` (parse_attribute_base)",
    "parse_attribute_double_only": "element starts with a mandatory `[` (parse_attribute_base)",
    "parse_location_annotation": "element starts with a mandatory `:`",
    "parse_constant_variable": "element starts with parse_type (at least one token) and ends with a mandatory `;`",
    "parse_pipeline_property": "element starts with parse_variable_name (one identifier token) and a mandatory `=`",
    "parse_root_definition_with_semicolon": "every alternative of parse_root_definition starts with a mandatory token",
    "parse_token(Token::Semicolon)": "element is exactly one token",
    "parse_struct_entry": "both alternatives (member, method) start with a type (at least one token)",
}


def main(argv):
    translate.load_plugins()
    translate.GENS["PanicSites"]()
    sites = sorted(c08.LINES)  # (file, fn, kind, text)
    reviews = {}
    # base: the committed list itself (so an update only needs the lines that change)
    dest0 = os.path.join(os.path.dirname(os.path.dirname(HERE)), "lean", "RsslVerif", "Lemmas", "PanicClasses.lean")
    if os.path.exists(dest0):
        def un(x):
            return x[1:-1].replace('\\"', '"').replace('\\\\', '\\')
        for a, b, c, d, e, f in re.findall(r'\(\((".*?"), (".*?"), (".*?"), (".*?")\), (".*?"),\n     (".*?")\)', open(dest0).read()):
            reviews[(un(a), un(b), un(c), un(d))] = (un(e), un(f))
    for path in argv:
        for line in open(path, encoding="utf-8"):
            f = line.rstrip("\n").split("\t")
            if len(f) < 6:
                continue
            file = f[0].rsplit(":", 1)[0]
            cls = f[4].strip()
            if cls not in CLASSES:
                print(f"bad class {cls!r} in {path}: {line[:80]}")
                return 1
            reviews[(file, f[1], f[2], f[3])] = (cls, f[5].strip())
    missing = [s for s in sites if s not in reviews]
    if missing:
        print(f"{len(missing)} sites without a review:")
        for s in missing[:40]:
            print("  ", c08.LINES[s], s)
        return 1
    out = ["/-!\n# Reviewed classification of every explicit panic site (C08)\n\n"
           "One entry per site of `Gen.PanicSites.sites` (same order: sorted by file, function, kind, text):\n"
           "`((file, fn, kind, text), class, reason)`.  Classes:\n"
           "* `unreachable-by-invariant` — the reason names the invariant and who establishes it;\n"
           "* `reachable-known-finding`  — a source text reaches it; it is listed in known_findings.jsonl and the\n"
           "  reproducer is in corpus/C08.txt;\n"
           "* `internal-assert`          — consistency check between structures the compiler built itself.\n"
           "This is a reading of the code, recorded so that *new* sites are noticed (`Thm.C08.panic_sites_classified`);\n"
           "it is not a proof about the Rust code.  Maintained with tools/gens/_c08_review.py.\n-/\n"
           "namespace RsslVerif.Lemmas.PanicClasses\n\n"
           "def classNames : List String := " + "[" + ", ".join(lean_str(c) for c in CLASSES) + "]\n\n"
           "def reviewed : List ((String × String × String × String) × String × String) := [\n"]
    rows = []
    for s in sites:
        cls, reason = reviews[s]
        rows.append("  ((" + ", ".join(lean_str(x) for x in s) + "), " + lean_str(cls) + ",\n     " + lean_str(reason) + ")")
    out.append(",\n".join(rows))
    out.append("\n]\n\n")
    # reasons that lean on a regenerated fact: the marker `[fact: <qualified name of a Bool in Gen>]` inside a reason
    citing = []
    for s in sites:
        cls, reason = reviews[s]
        for fact in re.findall(r'\[fact: ([A-Za-z0-9_.]+)\]', reason):
            if (fact, reason) not in citing:
                citing.append((fact, reason))
    out.append("/-- reasons that lean on a fact re-extracted from the source on every run (marker `[fact: <name>]` in the reason):\n"
               "    (qualified name of the fact, reason text).  A site whose reason is one of these texts is unreachable only while\n"
               "    the fact holds: `Thm.C08.panic_class_reasons_hold` fails when the fact is false. -/\n"
               "def citingReasons : List (String × String) := [\n")
    out.append(",\n".join("  (" + lean_str(f) + ",\n     " + lean_str(r) + ")" for f, r in citing))
    out.append("\n]\n\n")
    # list-combinator uses
    text = open(os.path.join(os.path.dirname(os.path.dirname(HERE)), "lean", "RsslVerif", "Gen", "PanicSites.lean")).read()
    m = re.search(r"def listUses[^\[]*\[\n(.*?)\n\]", text, re.S)
    uses = re.findall(r'\("([^"]*)", "([^"]*)", "([^"]*)", "([^"]*)", "([^"]*)"\)', m.group(1))
    out.append("/-- every use of the parser's list combinators with the side that consumes a token on success -/\n"
               "def reviewedListUses : List ((String × String × String × String × String) × String) := [\n")
    rows = []
    for u in uses:
        if u[2] == "parse_multiple":
            why = LIST_USES_REASON.get(u[4])
            if why is None:
                print("no reason recorded for parse_multiple element", u[4])
                return 1
            why = "element consumes: " + why
        else:
            if not u[3].startswith("parse_token("):
                print("separator is not a single token:", u)
                return 1
            why = "separator consumes: exactly one token; the element parser returns a suffix of its input"
        rows.append("  ((" + ", ".join(lean_str(x) for x in u) + "), " + lean_str(why) + ")")
    out.append(",\n".join(rows))
    out.append("\n]\n\nend RsslVerif.Lemmas.PanicClasses\n")
    dest = os.path.join(os.path.dirname(os.path.dirname(HERE)), "lean", "RsslVerif", "Lemmas", "PanicClasses.lean")
    open(dest, "w").write("".join(out))
    from collections import Counter
    print(Counter(r[0] for r in reviews.values() if True))
    print("wrote", dest, len(sites), "sites")
    return 0


if __name__ == "__main__":
    sys.exit(main(sys.argv[1:]))

//! C13, the positions that demand a constant: every syntactic place of the language where the type checker
//! evaluates an expression at compile time (inventory: `Gen.EvalSites`, theorem `positions_use_eval`), as
//! a table of *sites*. A site is a small program with a hole for the expression, a way to read what the real
//! compiler recorded for the hole (IR field and, where the value is printed, the emitted HLSL text) and the
//! rule the property implies for that place, stated on the reference value of the expression.
//!
//! request : C13.pos \t <site> \t <source expression>
//! observe : len:<n>[,<n>] | val:<C>[,<C>] | dim:.. | count:/group:/threads:/mask:/aniso:/flags:<n> |
//!           lod:<f32 bits> | notconst | accept | reject:<first words of the diagnostic> | panic:<message>
use super::*;

#[derive(Clone, Copy)]
pub enum Look {
    /// array lengths (outermost first) of the global / local / struct member / parameter / cbuffer member
    GlobalArray(&'static str),
    LocalArray(&'static str),
    MemberArray(&'static str, &'static str),
    ParamArray(&'static str),
    CbufferArray(&'static str),
    /// value of the enumerator with this name
    EnumValue(&'static str),
    /// all case labels of function `t`, in order (nested blocks included)
    Cases,
    /// first template argument of the (only) function template instantiation
    FnTemplateArg,
    /// the literal returned by the function with this name (a template parameter used in a body is a literal)
    ReturnLiteral(&'static str),
    GlobalConst(&'static str),
    LocalConst(&'static str),
    Unroll,
    BindGroup(&'static str),
    BindIndex(&'static str),
    DefaultBindGroup,
    Threads(usize),
    WriteMask,
    Aniso(&'static str),
    Lod(&'static str, bool),
    /// vector / matrix dimensions of a global's type
    Dims(&'static str),
    /// flags of a local `RayQuery<flags>`
    RayFlags(&'static str),
    /// only whether the program is accepted
    Accept,
}

#[derive(Clone, Copy)]
pub enum Rule {
    /// an integer that must lie in [min, max]; `enum_ok`: an enum-typed value is taken through its underlying value
    /// (otherwise whether it is admissible is a typing question). `fixed` = other dimensions printed around the value
    Size { min: i128, max: i128, enum_ok: bool, prefix: &'static str, before: &'static str, after: &'static str },
    /// `T pa[@] = { 1, 2 }`: accepted exactly when the value is 2
    ArrayInit,
    /// the constant recorded is the reference value converted to this type (`None`: recorded unchanged; kinds may
    /// differ, integer values may not)
    Stored(Option<T>),
    /// every recorded label has the reference's integer value
    Labels(usize),
    /// enumerator `= @`
    EnumVal,
    /// enumerator following `= @`
    EnumNext,
    /// the recorded constant has the reference's integer value (its kind may differ)
    SameInt,
    /// float-valued property
    F32,
    /// never a compile-time constant (the declaration is not `const`)
    NeverConst,
    /// the program must be rejected whatever the value
    MustReject,
    /// vector / matrix dimension: 1..=4
    Dim { before: &'static str, after: &'static str },
    /// the observation does not depend on the value of the hole (the hole only has to be an admissible element)
    Fixed(&'static str),
}

pub struct Site {
    pub name: &'static str,
    /// program after PRELUDE; `@` is replaced by the expression
    pub tmpl: &'static str,
    pub look: Look,
    /// what flows from the hole to the observed place, as a source expression in terms of the hole (`@`); its reference
    /// value (through the type checker and the reference evaluator, like the hole itself) is what the rule speaks about
    pub pre: Option<&'static str>,
    /// the hole is a template value argument for a parameter declared with this type
    pub via: Option<T>,
    pub rule: Rule,
    /// where the emitted HLSL prints the value: text before it, terminating character
    pub emit: Option<(&'static str, char)>,
}

const U64MAX: i128 = u64::MAX as i128;
const U32MAX: i128 = u32::MAX as i128;

const fn size(prefix: &'static str, min: i128, max: i128, enum_ok: bool) -> Rule {
    Rule::Size { min, max, enum_ok, prefix, before: "", after: "" }
}
const ARR: Rule = size("len:", 1, U64MAX, true);

macro_rules! site {
    ($name:expr, $tmpl:expr, $look:expr, $rule:expr) => {
        Site { name: $name, tmpl: $tmpl, look: $look, pre: None, via: None, rule: $rule, emit: None }
    };
    ($name:expr, $tmpl:expr, $look:expr, $rule:expr, pre $pre:expr) => {
        Site { name: $name, tmpl: $tmpl, look: $look, pre: Some($pre), via: None, rule: $rule, emit: None }
    };
    ($name:expr, $tmpl:expr, $look:expr, $rule:expr, via $t:expr, $pre:expr) => {
        Site { name: $name, tmpl: $tmpl, look: $look, pre: Some($pre), via: Some($t), rule: $rule, emit: None }
    };
    ($name:expr, $tmpl:expr, $look:expr, $rule:expr, emit $a:expr, $b:expr) => {
        Site { name: $name, tmpl: $tmpl, look: $look, pre: None, via: None, rule: $rule, emit: Some(($a, $b)) }
    };
}

pub const SITES: &[Site] = &[
    // ---- array sizes: declarations.rs parse_declarator, reached from every kind of declaration
    site!("array", "float pa[@];\n", Look::GlobalArray("pa"), ARR, emit "pa[", ']'),
    site!("array_local", "void t() { float pa[@]; }\n", Look::LocalArray("pa"), ARR, emit "pa[", ']'),
    site!("array_member", "struct PS { float pa[@]; };\n", Look::MemberArray("PS", "pa"), ARR, emit "pa[", ']'),
    site!("array_param", "void t(float pa[@]) {}\n", Look::ParamArray("t"), ARR, emit "pa[", ']'),
    site!("array_typedef", "typedef float PT[@];\nPT pa;\n", Look::GlobalArray("pa"), ARR, emit "pa[", ']'),
    site!("array_multi", "void t() { float pb[2], pa[@]; }\n", Look::LocalArray("pa"), ARR),
    site!("array_cbuffer", "cbuffer PCB { float4 pa[@]; }\n", Look::CbufferArray("pa"), ARR),
    site!("array_shared", "groupshared float pa[@];\n", Look::GlobalArray("pa"), ARR),
    site!("array_outer", "float pa[@][3];\n", Look::GlobalArray("pa"),
          Rule::Size { min: 1, max: U64MAX, enum_ok: true, prefix: "len:", before: "", after: ",3" }, emit "pa[", ']'),
    site!("array_inner", "float pa[2][@];\n", Look::GlobalArray("pa"),
          Rule::Size { min: 1, max: U64MAX, enum_ok: true, prefix: "len:", before: "2,", after: "" }, emit "pa[2][", ']'),
    site!("array_fromlist", "static const int pa[] = { 1, 2, @ };\n", Look::GlobalArray("pa"), Rule::Fixed("len:3")),
    site!("array_init", "static const int pa[@] = { 1, 2 };\n", Look::GlobalArray("pa"), Rule::ArrayInit),
    // ---- enum values: enums.rs + scopes.rs end_enum
    site!("enum", "enum PE { PV = @ };\n", Look::EnumValue("PV"), Rule::EnumVal, emit "PV = ", ','),
    site!("enumnext", "enum PE { PW = @, PV };\n", Look::EnumValue("PV"), Rule::EnumNext, emit "PV = ", ','),
    site!("enum_after0", "enum PE { PU, PV = @ };\n", Look::EnumValue("PV"), Rule::EnumVal),
    site!("enum_ns", "namespace PN { enum PE { PV = @ }; }\n", Look::EnumValue("PV"), Rule::EnumVal),
    // ---- case labels: statements.rs parse_statement
    site!("case", "void t() { switch (0) { case @: break; } }\n", Look::Cases, Rule::Labels(1), emit "case ", ':'),
    site!("case_enum", "void t() { switch (E0A) { case @: break; } }\n", Look::Cases, Rule::Labels(1)),
    site!("case_uint", "void t(uint x) { switch (x) { case @: break; default: break; } }\n", Look::Cases, Rule::Labels(1)),
    site!("case_nested", "void t() { switch (0) { default: break; case @: { if (true) { break; } } } }\n", Look::Cases, Rule::Labels(1)),
    site!("case_twice", "void t() { switch (0) { case @: break; case @: break; } }\n", Look::Cases, Rule::Labels(2)),
    // ---- template value arguments: types.rs parse_and_evaluate_constant_expression, scopes.rs
    site!("template", "template<uint N> uint tf() { return N; }\nvoid t() { tf<(@)>(); }\n", Look::FnTemplateArg, Rule::SameInt, via T::UInt, "@"),
    site!("template_int", "template<int N> int tf() { return N; }\nvoid t() { tf<(@)>(); }\n", Look::FnTemplateArg, Rule::SameInt, via T::Int, "@"),
    site!("template_bool", "template<bool N> bool tf() { return N; }\nvoid t() { tf<(@)>(); }\n", Look::FnTemplateArg, Rule::SameInt, via T::Bool, "@"),
    site!("template_body", "template<uint N> uint tf() { return N; }\nvoid t() { tf<(@)>(); }\n", Look::ReturnLiteral("tf"), Rule::SameInt, via T::UInt, "@"),
    site!("tstruct", "template<uint N> struct TS { uint f() { return N; } };\nvoid t() { TS<(@)> ts; ts.f(); }\n", Look::ReturnLiteral("f"), Rule::SameInt, via T::UInt, "@"),
    site!("tstruct_default", "template<uint N = (@)> struct TS { uint f() { return N; } };\nvoid t() { TS<> ts; ts.f(); }\n", Look::ReturnLiteral("f"), Rule::SameInt, via T::UInt, "@"),
    site!("tstruct_int", "template<int N> struct TS { int f() { return N; } };\nvoid t() { TS<(@)> ts; ts.f(); }\n", Look::ReturnLiteral("f"), Rule::SameInt, via T::Int, "@"),
    site!("tbody_array", "template<uint N> void tf() { float pa[N]; }\nvoid t() { tf<(@)>(); }\n", Look::LocalArray("pa"), ARR, via T::UInt, "@"),
    site!("tbody_arith", "template<uint N> void tf() { float pa[(N - 4) / 1073741824 + 1]; }\nvoid t() { tf<(@)>(); }\n", Look::LocalArray("pa"), ARR, via T::UInt, "(@ - 4) / 1073741824 + 1"),
    site!("tstruct_array", "template<uint N> struct TS { float pa[N]; };\nvoid t() { TS<(@)> ts; }\n", Look::MemberArray("TS", "pa"), ARR, via T::UInt, "@"),
    site!("template_two", "template<uint N> uint tf() { return N; }\nvoid t() { tf<7>(); tf<(@)>(); }\n", Look::FnTemplateArg, Rule::SameInt, via T::UInt, "@"),
    site!("tstruct_two", "template<uint N> struct TS { float pa[N]; };\nvoid t() { TS<7> ta; TS<(@)> tb; }\n", Look::MemberArray("TS", "pa"), ARR, via T::UInt, "@"),
    site!("template_mixed", "template<typename TT, uint N> TT tf() { return (TT)N; }\nvoid t() { tf<float, (@)>(); }\n", Look::FnTemplateArg, Rule::SameInt, via T::UInt, "@"),
    site!("vector_dim", "vector<float, (@)> pv;\n", Look::Dims("pv"), Rule::Dim { before: "", after: "" }),
    site!("matrix_rows", "matrix<float, (@), 2> pv;\n", Look::Dims("pv"), Rule::Dim { before: "", after: ",2" }),
    site!("matrix_cols", "matrix<float, 3, (@)> pv;\n", Look::Dims("pv"), Rule::Dim { before: "3,", after: "" }),
    site!("rayquery", "void t() { RayQuery<(@)> pq; }\n", Look::RayFlags("pq"), size("flags:", 0, U32MAX, false)),
    // ---- const initialisers: globals.rs, statements.rs parse_vardef
    site!("constint", "static const int pc = @;\n", Look::GlobalConst("pc"), Rule::Stored(Some(T::Int))),
    site!("constuint", "static const uint pc = @;\n", Look::GlobalConst("pc"), Rule::Stored(Some(T::UInt))),
    site!("constbool", "static const bool pc = @;\n", Look::GlobalConst("pc"), Rule::Stored(Some(T::Bool))),
    site!("constfloat", "static const float pc = @;\n", Look::GlobalConst("pc"), Rule::Stored(Some(T::Float))),
    site!("constdouble", "static const double pc = @;\n", Look::GlobalConst("pc"), Rule::Stored(Some(T::Double))),
    site!("consthalf", "static const half pc = @;\n", Look::GlobalConst("pc"), Rule::Stored(Some(T::Half))),
    site!("constenum", "static const E0 pc = @;\n", Look::GlobalConst("pc"), Rule::Stored(Some(T::Enum(0, false)))),
    site!("constplain", "const int pc = @;\n", Look::GlobalConst("pc"), Rule::Stored(Some(T::Int))),
    site!("nsconst", "namespace PN { static const int pc = @; }\n", Look::GlobalConst("pc"), Rule::Stored(Some(T::Int))),
    site!("constbrace", "static const uint pc = { @ };\n", Look::GlobalConst("pc"), Rule::Stored(Some(T::UInt))),
    site!("localconst", "void t() { const int pc = @; }\n", Look::LocalConst("pc"), Rule::Stored(Some(T::Int))),
    site!("localstatic", "void t() { static const uint pc = @; }\n", Look::LocalConst("pc"), Rule::Stored(Some(T::UInt))),
    site!("forconst", "void t() { for (const int pc = @; false; ) {} }\n", Look::LocalConst("pc"), Rule::Stored(Some(T::Int))),
    site!("blockconst", "void t() { if (true) { { const bool pc = @; } } }\n", Look::LocalConst("pc"), Rule::Stored(Some(T::Bool))),
    site!("elseconst", "void t() { if (false) {} else { const int pc = @; } }\n", Look::LocalConst("pc"), Rule::Stored(Some(T::Int))),
    site!("whileconst", "void t() { while (false) { const uint pc = @; continue; } do { discard; } while (false); }\n", Look::LocalConst("pc"), Rule::Stored(Some(T::UInt))),
    site!("consttypedef", "typedef const int PCI;\nstatic PCI pc = @;\n", Look::GlobalConst("pc"), Rule::Stored(Some(T::Int))),
    site!("constmulti", "static const int pc0 = 1, pc = @;\n", Look::GlobalConst("pc"), Rule::Stored(Some(T::Int))),
    site!("nonconst", "static int pc = @;\n", Look::GlobalConst("pc"), Rule::NeverConst),
    site!("localnonconst", "void t() { int pc = @; }\n", Look::LocalConst("pc"), Rule::NeverConst),
    site!("nonconst_use", "static int pn = @;\nfloat pa[pn];\n", Look::Accept, Rule::MustReject),
    site!("localnonconst_use", "void t() { int pn = @; float pa[pn]; }\n", Look::Accept, Rule::MustReject),
    // ---- constants used by later constants
    site!("flow_global", "static const int pc0 = @;\nstatic const uint pc = pc0 + 1;\n", Look::GlobalConst("pc"), Rule::Stored(None), pre "(uint)((int)(@) + 1)"),
    site!("flow_array", "static const int pc0 = @;\nfloat pa[pc0];\n", Look::GlobalArray("pa"), ARR, pre "(int)(@)"),
    site!("flow_local", "void t() { const uint pc0 = @; float pa[pc0 + 1u]; }\n", Look::LocalArray("pa"), ARR, pre "(uint)(@) + 1u"),
    site!("flow_ns", "namespace PN { static const int pc0 = @; }\nfloat pa[PN::pc0];\n", Look::GlobalArray("pa"), ARR, pre "(int)(@)"),
    site!("flow_case", "static const int pc0 = @;\nvoid t() { switch (0) { case pc0: break; } }\n", Look::Cases, Rule::Labels(1), pre "(int)(@)"),
    site!("flow_template", "static const uint pc0 = @;\ntemplate<uint N> uint tf() { return N; }\nvoid t() { tf<pc0>(); }\n", Look::FnTemplateArg, Rule::SameInt, via T::UInt, "(uint)(@)"),
    // ---- attribute arguments and pipeline / sampler properties
    site!("numthreads", "[numthreads(@, 1, 1)] void main() {}\nPipeline PP { ComputeShader = main; }\n", Look::Threads(0), size("threads:", 0, U32MAX, false)),
    site!("numthreads_y", "[numthreads(1, @, 1)] void main() {}\nPipeline PP { ComputeShader = main; }\n", Look::Threads(1), size("threads:", 0, U32MAX, false)),
    site!("numthreads_z", "[numthreads(1, 2, @)] void main() {}\nPipeline PP { ComputeShader = main; }\n", Look::Threads(2), size("threads:", 0, U32MAX, false)),
    site!("unroll", "void t() { [unroll(@)] for (int i = 0; i < 2; ++i) {} }\n", Look::Unroll, size("count:", 0, U64MAX, false)),
    site!("unroll_while", "void t() { [unroll(@)] while (false) {} }\n", Look::Unroll, size("count:", 0, U64MAX, false)),
    site!("bindgroup", "[[rssl::bind_group(@)]] Texture2D<float4> ptx;\n", Look::BindGroup("ptx"), size("group:", 0, U32MAX, false)),
    site!("vkbinding", "[[vk::binding(@)]] Texture2D<float4> ptx;\n", Look::BindIndex("ptx"), size("index:", 0, U32MAX, false)),
    site!("vkbinding_set", "[[vk::binding(3, @)]] Texture2D<float4> ptx;\n", Look::BindGroup("ptx"), size("group:", 0, U32MAX, false)),
    site!("pipelineprop", "[numthreads(1, 1, 1)] void main() {}\nPipeline PP { ComputeShader = main; DefaultBindGroup = @; }\n", Look::DefaultBindGroup, size("group:", 0, U32MAX, false)),
    site!("writemask", "float4 vs() : SV_Position { return float4(0, 0, 0, 0); }\nPipeline PP { VertexShader = vs; BlendState0 = { WriteMask = @; } }\n", Look::WriteMask, size("mask:", 0, 255, false)),
    site!("maxanisotropy", "SamplerState ps = StaticSampler { MaxAnisotropy = @; };\n", Look::Aniso("ps"), size("aniso:", 0, U32MAX, false)),
    site!("minlod", "SamplerState ps = StaticSampler { MinLOD = @; };\n", Look::Lod("ps", false), Rule::F32),
    site!("maxlod", "SamplerState ps = StaticSampler { MaxLOD = @; };\n", Look::Lod("ps", true), Rule::F32),
];

/// what the Lean model of a position (`Model.ConstPos`) is given besides the site name
pub enum ModelInput {
    /// the IR of the expression in the hole: the position evaluates exactly this expression
    Hole,
    /// the static type class of the hole and its IR (enumerator initialisers)
    EnumMember,
    /// the IR of the initialiser as the type checker built it (implicit conversion to the declared type included)
    Initialiser,
    /// the position is outside the model (value flows through further declarations, RayQuery flags, ...)
    None,
}

pub fn model_input(s: &Site) -> ModelInput {
    if s.pre.is_some() && s.via.is_none() {
        return ModelInput::None; // flow sites
    }
    match s.name {
        "tbody_arith" | "rayquery" | "array_init" | "array_fromlist" | "nonconst_use" | "localnonconst_use" | "flow_template" => ModelInput::None,
        "enum" | "enumnext" | "enum_after0" | "enum_ns" => ModelInput::EnumMember,
        _ => match s.look {
            // `return N` is converted to the return type; literals are folded by the type checker on the way
            Look::ReturnLiteral(_) => ModelInput::None,
            Look::GlobalConst(_) | Look::LocalConst(_) => ModelInput::Initialiser,
            _ => ModelInput::Hole,
        },
    }
}

/// the initialiser expression of the observed variable, as IR
pub fn initialiser_tree(m: &ir::Module, l: &Look) -> Option<X> {
    match l {
        Look::GlobalConst(name) => {
            let g = m.global_registry.iter().find(|g| g.name.node == *name)?;
            match g.init.as_ref()? {
                ir::Initializer::Expression(e) => Some(x_of_expr(m, e)),
                _ => None,
            }
        }
        Look::LocalConst(name) => {
            let mut found = None;
            for id in m.function_registry.iter() {
                if let Some(imp) = m.function_registry.get_function_implementation(id) {
                    let mut visit = |vd: &ir::VarDef| {
                        if m.variable_registry.get_local_variable(vd.id).name.node == *name {
                            if let Some(ir::Initializer::Expression(e)) = &vd.init {
                                found = Some(x_of_expr(m, e));
                            }
                        }
                    };
                    walk_statements(&imp.scope_block.0, &mut |st| match &st.kind {
                        ir::StatementKind::Var(vd) => visit(vd),
                        ir::StatementKind::For(ir::ForInit::Definitions(vds), _, _, _) => vds.iter().for_each(&mut visit),
                        _ => {}
                    });
                }
            }
            found
        }
        _ => None,
    }
}

pub fn site(name: &str) -> Option<&'static Site> {
    SITES.iter().find(|s| s.name == name)
}

pub fn program(s: &Site, src: &str) -> String {
    format!("{}{}", PRELUDE, s.tmpl.replace('@', src))
}

pub fn array_dims(m: &ir::Module, ty: ir::TypeId) -> Option<String> {
    let mut dims = Vec::new();
    let mut cur = m.type_registry.remove_modifier(ty);
    loop {
        match m.type_registry.get_type_layer(cur) {
            ir::TypeLayer::Array(inner, Some(n)) => {
                dims.push(n.to_string());
                cur = m.type_registry.remove_modifier(inner);
            }
            ir::TypeLayer::Array(_, None) => return Some("len:unbounded".into()),
            _ => break,
        }
    }
    if dims.is_empty() { None } else { Some(format!("len:{}", dims.join(","))) }
}

pub fn walk_statements<'a>(block: &'a [ir::Statement], f: &mut dyn FnMut(&'a ir::Statement)) {
    for st in block {
        f(st);
        match &st.kind {
            ir::StatementKind::Block(b)
            | ir::StatementKind::If(_, b)
            | ir::StatementKind::While(_, b)
            | ir::StatementKind::DoWhile(b, _)
            | ir::StatementKind::Switch(_, b)
            | ir::StatementKind::For(_, _, _, b) => walk_statements(&b.0, f),
            ir::StatementKind::IfElse(_, a, b) => {
                walk_statements(&a.0, f);
                walk_statements(&b.0, f);
            }
            _ => {}
        }
    }
}

fn functions_named<'a>(m: &'a ir::Module, name: &str) -> Vec<&'a ir::FunctionImplementation> {
    let mut v = Vec::new();
    for id in m.function_registry.iter() {
        if m.function_registry.get_function_name(id) == name {
            if let Some(imp) = m.function_registry.get_function_implementation(id) {
                v.push(imp);
            }
        }
    }
    v
}

pub fn innermost_literal(e: &ir::Expression) -> Option<&ir::Constant> {
    match e {
        ir::Expression::Literal(c) => Some(c),
        ir::Expression::Cast(_, inner) => innermost_literal(inner),
        _ => None,
    }
}

/// what the compiler recorded at the site (the program was accepted)
pub fn look(m: &ir::Module, l: &Look) -> String {
    let shape = |s: &str| format!("shape:{}", s);
    match l {
        Look::GlobalArray(name) => match m.global_registry.iter().find(|g| g.name.node == *name) {
            Some(g) => array_dims(m, g.type_id).unwrap_or_else(|| shape("global is not an array")),
            None => shape("no global"),
        },
        Look::LocalArray(name) => {
            let mut r = shape("no local");
            for id in m.variable_registry.iter() {
                let v = m.variable_registry.get_local_variable(id);
                if v.name.node == *name {
                    r = array_dims(m, v.type_id).unwrap_or_else(|| shape("local is not an array"));
                }
            }
            r
        }
        Look::MemberArray(sname, mname) => {
            let mut r = shape("no struct member");
            for sd in &m.struct_registry {
                if sd.name.node == *sname {
                    for mem in &sd.members {
                        if mem.name == *mname {
                            r = array_dims(m, mem.type_id).unwrap_or_else(|| shape("member is not an array"));
                        }
                    }
                }
            }
            r
        }
        Look::ParamArray(fname) => {
            let mut r = shape("no function");
            for id in m.function_registry.iter() {
                if m.function_registry.get_function_name(id) == *fname {
                    let sig = m.function_registry.get_function_signature(id);
                    r = match sig.param_types.first() {
                        Some(p) => array_dims(m, p.type_id).unwrap_or_else(|| shape("parameter is not an array")),
                        None => shape("no parameter"),
                    };
                }
            }
            r
        }
        Look::CbufferArray(name) => {
            let mut r = shape("no cbuffer member");
            for cb in &m.cbuffer_registry {
                for mem in &cb.members {
                    if mem.name.node == *name {
                        r = array_dims(m, mem.type_id).unwrap_or_else(|| shape("member is not an array"));
                    }
                }
            }
            r
        }
        Look::EnumValue(name) => {
            let mut r = shape("no enum value");
            for i in 0..m.enum_registry.get_enum_count() {
                for vid in m.enum_registry.get_values(ir::EnumId(i)) {
                    let v = m.enum_registry.get_enum_value(*vid);
                    if v.name.node == *name {
                        r = format!("val:{}", show_k(&k_of_const(&v.value)));
                    }
                }
            }
            r
        }
        Look::Cases => {
            let mut labels = Vec::new();
            for imp in functions_named(m, "t") {
                walk_statements(&imp.scope_block.0, &mut |st| {
                    if let ir::StatementKind::CaseLabel(c) = &st.kind {
                        labels.push(show_k(&k_of_const(c)));
                    }
                });
            }
            if labels.is_empty() { shape("no case label") } else { format!("val:{}", labels.join(",")) }
        }
        Look::FnTemplateArg => {
            let mut r = shape("no instantiation");
            for id in m.function_registry.iter() {
                if let Some(data) = m.function_registry.get_template_instantiation_data(id) {
                    for a in &data.template_args {
                        if let ir::TypeOrConstant::Constant(c) = a {
                            r = format!("val:{}", show_k(&k_of_const(&c.clone().unrestrict())));
                        }
                    }
                }
            }
            r
        }
        Look::ReturnLiteral(fname) => {
            let mut r = shape("no function body with a returned literal");
            for imp in functions_named(m, fname) {
                walk_statements(&imp.scope_block.0, &mut |st| {
                    if let ir::StatementKind::Return(Some(e)) = &st.kind {
                        if let Some(c) = innermost_literal(e) {
                            r = format!("val:{}", show_k(&k_of_const(c)));
                        }
                    }
                });
            }
            r
        }
        Look::GlobalConst(name) => match m.global_registry.iter().find(|g| g.name.node == *name) {
            Some(g) => match &g.constexpr_value {
                Some(c) => format!("val:{}", show_k(&k_of_const(c))),
                None => "notconst".to_string(),
            },
            None => shape("no global"),
        },
        Look::LocalConst(name) => {
            let mut r = shape("no local");
            for id in m.variable_registry.iter() {
                let v = m.variable_registry.get_local_variable(id);
                if v.name.node == *name {
                    r = match &v.constexpr_value {
                        Some(c) => format!("val:{}", show_k(&k_of_const(c))),
                        None => "notconst".to_string(),
                    };
                }
            }
            r
        }
        Look::Unroll => {
            let mut r = shape("no unroll attribute");
            for imp in functions_named(m, "t") {
                walk_statements(&imp.scope_block.0, &mut |st| {
                    for a in &st.attributes {
                        if let ir::StatementAttribute::Unroll(Some(n)) = a {
                            r = format!("count:{}", n);
                        }
                    }
                });
            }
            r
        }
        Look::BindGroup(name) => match m.global_registry.iter().find(|g| g.name.node == *name) {
            Some(g) => match g.lang_slot.set {
                Some(n) => format!("group:{}", n),
                None => shape("no group"),
            },
            None => shape("no global"),
        },
        Look::BindIndex(name) => match m.global_registry.iter().find(|g| g.name.node == *name) {
            Some(g) => match g.lang_slot.index {
                Some(n) => format!("index:{}", n),
                None => shape("no index"),
            },
            None => shape("no global"),
        },
        Look::DefaultBindGroup => match m.pipelines.first() {
            Some(p) => format!("group:{}", p.default_bind_group_index),
            None => shape("no pipeline"),
        },
        Look::Threads(i) => match m.pipelines.first().and_then(|p| p.stages.first()) {
            Some(st) => match st.thread_group_size {
                Some((x, y, z)) => format!("threads:{}", [x, y, z][*i]),
                None => shape("no thread group size"),
            },
            None => shape("no pipeline"),
        },
        Look::WriteMask => match m.pipelines.first().and_then(|p| p.graphics_pipeline_state.as_ref()) {
            Some(g) => format!("mask:{}", g.blend_state.attachments[0].write_mask.0),
            None => shape("no graphics pipeline state"),
        },
        Look::Aniso(name) => match m.global_registry.iter().find(|g| g.name.node == *name).and_then(|g| g.static_sampler.as_ref()) {
            Some(s) => format!("aniso:{}", s.max_anisotropy),
            None => shape("no static sampler"),
        },
        Look::Lod(name, max) => match m.global_registry.iter().find(|g| g.name.node == *name).and_then(|g| g.static_sampler.as_ref()) {
            Some(s) => format!("lod:{:08x}", if *max { s.lod_clamp_max } else { s.lod_clamp_min }.to_bits()),
            None => shape("no static sampler"),
        },
        Look::Dims(name) => match m.global_registry.iter().find(|g| g.name.node == *name) {
            Some(g) => match m.type_registry.get_type_layer(m.type_registry.remove_modifier(g.type_id)) {
                ir::TypeLayer::Vector(_, x) => format!("dim:{}", x),
                ir::TypeLayer::Matrix(_, x, y) => format!("dim:{},{}", x, y),
                _ => shape("global is not a vector or matrix"),
            },
            None => shape("no global"),
        },
        Look::RayFlags(name) => {
            let mut r = shape("no local");
            for id in m.variable_registry.iter() {
                let v = m.variable_registry.get_local_variable(id);
                if v.name.node == *name {
                    r = match m.type_registry.get_type_layer(m.type_registry.remove_modifier(v.type_id)) {
                        ir::TypeLayer::Object(ir::ObjectType::RayQuery(f)) => format!("flags:{}", f),
                        _ => shape("local is not a RayQuery"),
                    };
                }
            }
            r
        }
        Look::Accept => "accept".to_string(),
    }
}

/// run the program of a site; observation as documented at the top
pub fn observe(s: &Site, src: &str) -> (String, Option<ir::Module>) {
    let text = program(s, src);
    match guard(|| front_end_src(&text)) {
        Ok(Ok(m)) => (look(&m, &s.look), Some(m)),
        Ok(Err(e)) => (format!("reject:{}", err_kind(&format!("reject:{}:{}", e.stage(), e.text()))), None),
        Err(p) => (format!("panic:{}", norm_panic(&p)), None),
    }
}

/// the number the HLSL text shows at the site (after `marker`, up to `end`), as an integer
pub fn emitted_number(hlsl: &str, marker: &str, end: char) -> Option<i128> {
    let i = hlsl.find(marker)? + marker.len();
    let rest = &hlsl[i..];
    let j = rest.find(end)?;
    let mut t = rest[..j].trim().to_string();
    for cast in ["(int)", "(uint)"] {
        if let Some(r) = t.strip_prefix(cast) {
            t = r.trim().to_string();
        }
    }
    let t = t.trim_end_matches('u').trim_end_matches('U');
    t.parse::<i128>().ok()
}

/// verdict of the property at a site. `want` = reference value of the expression in the hole; `want_of` gives the
/// reference value of any other source expression (type checker + reference evaluator).
pub fn judge_site(s: &Site, src: &str, want: &Want, want_of: &dyn Fn(&str) -> Option<Want>, obs: &str) -> String {
    if obs.starts_with("panic:") {
        return format!("FAIL:panic {}", &obs[6..]);
    }
    let t = match s.via {
        None => {
            let w = match s.pre {
                None => want.clone(),
                Some(pre) => match want_of(&pre.replace('@', &format!("({})", src))) {
                    Some(w) => w,
                    None => return "SKIP:the flow expression of the site does not type check for this hole".into(),
                },
            };
            return judge_rule(s, &w, obs);
        }
        Some(t) => t,
    };
    // a template value argument: the parameter has its declared type, so the argument is converted to it (a conversion
    // that changes the value may be diagnosed instead); enum- and float-valued arguments are not supported at all
    let val = match want {
        Want::Val(k) | Want::ValOrNotConst(k) => k.clone(),
        _ => return judge_rule(s, want, obs),
    };
    let iv = match as_integer(&val) {
        Some(v) if !matches!(val, K::Enum(_, _)) => v,
        _ => return "ok".into(),
    };
    let narrowing = match cast_ref(&t, &val) {
        Want::Val(k) => as_integer(&k) != Some(iv),
        _ => return "ok".into(),
    };
    let pre = s.pre.unwrap_or("@");
    let tname = show_t(&t);
    let converted = match want_of(&pre.replace('@', &format!("(({})({}))", tname, src))) {
        Some(w) => w,
        None => return "SKIP:the flow expression of the site does not type check for this hole".into(),
    };
    let verdict = judge_rule(s, &converted, obs);
    if !verdict.starts_with("FAIL:") || (obs.starts_with("reject:") && narrowing) {
        return if verdict.starts_with("FAIL:") { "ok".into() } else { verdict };
    }
    // is the observation what an argument bound *without* the conversion gives?
    if let Some(raw) = want_of(&pre.replace('@', &format!("({})", src))) {
        if judge_rule(s, &raw, obs) == "ok" {
            return format!("FAIL:[template argument not converted to the parameter type {}] {}", tname, &verdict[5..]);
        }
    }
    verdict
}

fn judge_rule(s: &Site, want: &Want, obs: &str) -> String {
    if obs.starts_with("panic:") {
        return format!("FAIL:panic {}", &obs[6..]);
    }
    if obs.starts_with("shape:") {
        return format!("SKIP:harness could not observe the position ({})", obs);
    }
    let rejected = obs.starts_with("reject:");
    if let Rule::MustReject = s.rule {
        return if rejected {
            "ok".into()
        } else {
            format!("FAIL:{} accepted a size that is not a compile-time constant: {}", s.name, obs)
        };
    }
    if let Rule::Fixed(expected) = s.rule {
        return if obs == expected {
            "ok".into()
        } else {
            format!("FAIL:{} recorded {} where the declaration fixes {}", s.name, obs, expected)
        };
    }
    if let Rule::NeverConst = s.rule {
        return if obs == "notconst" || rejected {
            "ok".into()
        } else {
            format!("FAIL:{} records a compile-time value for a variable that is not const: {}", s.name, obs)
        };
    }
    let (val, soft) = match &want {
        Want::Val(k) => (k.clone(), false),
        Want::ValOrNotConst(k) => (k.clone(), true),
        Want::NotConst => {
            return if rejected || obs == "notconst" {
                "ok".into()
            } else {
                format!("FAIL:{} accepted an expression that has no constant value: {}", s.name, obs)
            };
        }
        Want::Unspecified(_) => return "ok".into(),
    };
    let iv = as_integer(&val);
    let is_enum = matches!(val, K::Enum(_, _));
    let fail = |expected: String| {
        format!("FAIL:{} recorded {} for an expression whose value is {} (expected {})", s.name, obs, show_k(&val), expected)
    };
    let obs_vals = |o: &str| -> Option<Vec<K>> { o.strip_prefix("val:")?.split(',').map(parse_k).collect() };
    match s.rule {
        Rule::Size { min, max, enum_ok, prefix, before, after } => {
            if is_enum && !enum_ok {
                // whether an enum-typed count is admissible is a typing question; a recorded number must still be right
                if rejected {
                    return "ok".into();
                }
            }
            if prefix == "flags:" && !matches!(val, K::Lit(_) | K::U32(_)) && rejected {
                // RayQuery<flags> takes an unsigned constant; which other integer types convert is a typing question
                return "ok".into();
            }
            match iv {
                None => "ok".into(), // non-integer sizes: typing question, not a value question
                Some(v) => {
                    let expected = format!("{}{}{}{}", prefix, before, v, after);
                    if v >= min && v <= max {
                        if rejected {
                            if soft { "ok".into() } else { fail(expected) }
                        } else if obs == expected {
                            "ok".into()
                        } else {
                            fail(expected)
                        }
                    } else if rejected {
                        "ok".into()
                    } else {
                        fail("a rejection: the value is not valid at this place".into())
                    }
                }
            }
        }
        Rule::Dim { before, after } => match iv {
            None => "ok".into(),
            Some(v) => {
                let expected = format!("dim:{}{}{}", before, v, after);
                if (1..=4).contains(&v) && !is_enum {
                    if (rejected && soft) || obs == expected { "ok".into() } else { fail(expected) }
                } else if rejected || obs == expected {
                    "ok".into()
                } else {
                    fail("a rejection: not a vector dimension".into())
                }
            }
        },
        Rule::ArrayInit => match iv {
            None => "ok".into(),
            Some(2) => {
                if obs == "len:2" || (rejected && soft) { "ok".into() } else { fail("len:2".into()) }
            }
            Some(_) => {
                if rejected { "ok".into() } else { fail("a rejection: two initialisers for another length".into()) }
            }
        },
        Rule::Stored(target) => {
            let expected = match target {
                Some(t) => match cast_ref(&t, &val) {
                    Want::Val(k) => k,
                    _ => return "ok".into(),
                },
                None => val.clone(),
            };
            if rejected || obs == "notconst" {
                // a const initialiser that is rejected / not folded loses nothing but the constant; only a definite
                // "not a constant" for an expression the evaluator must handle is a failure
                if soft || rejected { "ok".into() } else { fail(show_k(&expected)) }
            } else if obs == format!("val:{}", show_k(&expected)) {
                "ok".into()
            } else {
                fail(show_k(&expected))
            }
        }
        Rule::Labels(n) => match iv {
            None => "ok".into(),
            Some(v) => {
                if rejected {
                    // the same label twice may be diagnosed
                    if soft || n > 1 { "ok".into() } else { fail(format!("val {}", v)) }
                } else {
                    match obs_vals(obs) {
                        Some(ks) if ks.len() == n && ks.iter().all(|k| as_integer(k) == Some(v)) => "ok".into(),
                        _ => fail(format!("{} label(s) of value {}", n, v)),
                    }
                }
            }
        },
        Rule::EnumVal | Rule::EnumNext => match iv {
            None => "ok".into(),
            Some(v) => {
                let next = matches!(s.rule, Rule::EnumNext);
                // the enumerator after `= v` has the value v + 1; when v + 1 does not fit the type of the
                // previous enumerator a rejection is as good as the widened value
                let succ_overflows = next
                    && match &val {
                        K::I32(x) => *x == i32::MAX,
                        K::U32(x) => *x == u32::MAX,
                        K::Enum(_, inner) => matches!(**inner, K::I32(i32::MAX) | K::U32(u32::MAX)),
                        _ => false,
                    };
                if succ_overflows && rejected {
                    return "ok".into();
                }
                let v = if next { v + 1 } else { v };
                // every enumerator of the enum must fit one 32-bit type (0 is always a member of the range)
                let lo = v.min(if next { v - 1 } else { v }).min(0);
                let hi = v.max(0);
                let representable = (lo >= i32::MIN as i128 && hi <= i32::MAX as i128) || (lo >= 0 && hi <= U32MAX);
                if rejected {
                    if soft || !representable { "ok".into() } else { fail(format!("val {}", v)) }
                } else if !representable {
                    fail("a rejection: the enumerators fit neither int nor uint".into())
                } else {
                    // stored in the deduced underlying type: int when everything fits int, else uint
                    let expected = if lo >= i32::MIN as i128 && hi <= i32::MAX as i128 { K::I32(v as i32) } else { K::U32(v as u32) };
                    if obs == format!("val:{}", show_k(&expected)) { "ok".into() } else { fail(show_k(&expected)) }
                }
            }
        },
        Rule::SameInt => match iv {
            None => "ok".into(),
            Some(v) => {
                if rejected {
                    if soft { "ok".into() } else { fail(format!("val {}", v)) }
                } else {
                    match obs_vals(obs) {
                        Some(ks) if ks.len() == 1 && as_integer(&ks[0]) == Some(v) => "ok".into(),
                        _ => fail(format!("val {}", v)),
                    }
                }
            }
        },
        Rule::F32 => {
            if is_enum {
                return "ok".into();
            }
            let expected = match cast_ref(&T::Float, &val) {
                Want::Val(K::F32(b)) => b,
                _ => return "ok".into(),
            };
            if rejected {
                if soft { "ok".into() } else { fail(format!("lod:{:08x}", expected)) }
            } else if obs == format!("lod:{:08x}", expected) {
                "ok".into()
            } else {
                fail(format!("lod:{:08x}", expected))
            }
        }
        Rule::MustReject | Rule::NeverConst | Rule::Fixed(_) => unreachable!(),
    }
}

/// second observation where the value is printed: compile to HLSL and read the number back
pub fn judge_emission(s: &Site, src: &str, want: &Want, obs: &str) -> Option<String> {
    let (marker, end) = s.emit?;
    if s.pre.is_some() {
        return None;
    }
    if obs.starts_with("reject:") || obs.starts_with("panic:") || obs.starts_with("shape:") || obs == "notconst" {
        return None;
    }
    let v = match want {
        Want::Val(k) => as_integer(k)?,
        _ => return None,
    };
    let v = if matches!(s.rule, Rule::EnumNext) { v + 1 } else { v };
    let mut seen = false;
    for (target, tname) in [(rssl::Target::HlslForDirectX, "HLSL"), (rssl::Target::Msl, "MSL")] {
        let text = emit_target(&program(s, src), target);
        if text.starts_with("!panic") {
            return Some(format!("FAIL:panic {}", &text[7..]));
        }
        if text.starts_with("!error") {
            continue;
        }
        match emitted_number(&text, marker, end) {
            Some(n) if n == v => seen = true,
            Some(n) => return Some(format!("FAIL:{} emits `{}{}` in {} for an expression whose value is {}", s.name, marker, n, tname, v)),
            None => {} // printed symbolically (enumerator name, expression) or not at all: nothing to compare
        }
    }
    if seen { Some("emit-ok".into()) } else { None }
}

// ------------------------------------------------------------------------------------------
// whole enum definitions: explicit values, implicit increments, references to earlier enumerators,
// deduction of the underlying type (enums.rs parse_rootdefinition_enum + scopes.rs end_enum)
//
// request : C13.enum \t <member> ; <member> ; ...      member = `-` (no initialiser) | expression, `$k` = enumerator k
// observe : under:<int|uint> vals:<C>,<C>,... | reject:<diagnostic> | panic:<message>
// ------------------------------------------------------------------------------------------
pub fn enum_program(members: &[String]) -> String {
    let mut s = format!("{}enum PE {{ ", PRELUDE);
    for (i, m) in members.iter().enumerate() {
        if i > 0 {
            s.push_str(", ");
        }
        if m == "-" {
            s.push_str(&format!("PM{}", i));
        } else {
            let mut e = m.clone();
            for k in (0..members.len()).rev() {
                e = e.replace(&format!("${}", k), &format!("PM{}", k));
            }
            s.push_str(&format!("PM{} = {}", i, e));
        }
    }
    s.push_str(" };\n");
    s
}

pub fn observe_enum(members: &[String]) -> String {
    let text = enum_program(members);
    let m = match guard(|| front_end_src(&text)) {
        Ok(Ok(m)) => m,
        Ok(Err(e)) => return format!("reject:{}", err_kind(&format!("reject:{}:{}", e.stage(), e.text()))),
        Err(p) => return format!("panic:{}", norm_panic(&p)),
    };
    for i in 0..m.enum_registry.get_enum_count() {
        let id = ir::EnumId(i);
        if m.get_enum_name(id) == "PE" {
            let under = match m.enum_registry.get_underlying_scalar(id) {
                ir::ScalarType::Int32 => "int",
                ir::ScalarType::UInt32 => "uint",
                _ => "other",
            };
            let vals: Vec<String> = m
                .enum_registry
                .get_values(id)
                .iter()
                .map(|v| show_k(&k_of_const(&m.enum_registry.get_enum_value(*v).value)))
                .collect();
            return format!("under:{} vals:{}", under, vals.join(","));
        }
    }
    "shape:no enum".into()
}

/// source text of a reference to an earlier enumerator, as a standalone expression of the same type and value
/// (inside the braces an enumerator has the type of its value: the type of its initialiser without modifiers, and the
/// underlying type when the initialiser was enum-typed — enums.rs records the type of the evaluated constant)
fn render_enumerator(k: &K) -> Option<String> {
    Some(match k {
        K::Enum(_, inner) => return render_enumerator(inner),
        K::Bool(b) => b.to_string(),
        K::Lit(v) if *v == i128::MIN => return None,
        K::Lit(v) if *v < 0 => format!("(-{})", -*v),
        K::Lit(v) => format!("({})", v),
        K::I32(v) => format!("((int)({}))", v),
        K::U32(v) => format!("({}u)", v),
        _ => return None,
    })
}

/// the property's verdict on a whole enum: C semantics of the enumerator sequence
pub fn judge_enum(members: &[String], want_of: &dyn Fn(&str) -> Option<Want>, obs: &str, standalone: &mut Vec<String>) -> String {
    if obs.starts_with("panic:") {
        return format!("FAIL:panic {}", &obs[6..]);
    }
    if obs.starts_with("shape:") {
        return format!("SKIP:harness could not observe the enum ({})", obs);
    }
    let rejected = obs.starts_with("reject:");
    // value and type of every enumerator while the enum is being defined
    let mut during: Vec<K> = Vec::new();
    let mut soft = false; // a rejection is acceptable (successor does not fit the previous enumerator's type)
    for (i, m) in members.iter().enumerate() {
        let k = if m == "-" {
            standalone.push("-".into());
            match during.last() {
                None => K::I32(0),
                Some(K::Lit(v)) => match v.checked_add(1) {
                    Some(n) => K::Lit(n),
                    None => return if rejected { "ok".into() } else { "FAIL:enumerator after the largest literal accepted".into() },
                },
                Some(K::I32(v)) => match v.checked_add(1) {
                    Some(n) => K::I32(n),
                    None => {
                        soft = true;
                        K::Lit(*v as i128 + 1)
                    }
                },
                Some(K::U32(v)) => match v.checked_add(1) {
                    Some(n) => K::U32(n),
                    None => {
                        soft = true;
                        K::Lit(*v as i128 + 1)
                    }
                },
                Some(K::Bool(b)) => K::I32(*b as i32 + 1),
                Some(K::Enum(id, inner)) => match as_integer(inner) {
                    // the successor of an enum-typed enumerator continues in the underlying type
                    Some(v) if v + 1 <= (if matches!(**inner, K::U32(_)) { u32::MAX as i128 } else { i32::MAX as i128 }) => {
                        let _ = id;
                        if matches!(**inner, K::U32(_)) { K::U32((v + 1) as u32) } else { K::I32((v + 1) as i32) }
                    }
                    Some(v) => {
                        soft = true;
                        K::Lit(v + 1)
                    }
                    None => return "ok".into(),
                },
                Some(_) => return "ok".into(),
            }
        } else {
            let mut e = m.clone();
            for j in (0..members.len()).rev() {
                let name = format!("${}", j);
                if e.contains(&name) {
                    if j >= i {
                        // forward / self reference: not a constant yet
                        return if rejected { "ok".into() } else { format!("FAIL:enumerator {} refers to enumerator {} which is not yet defined, accepted: {}", i, j, obs) };
                    }
                    match render_enumerator(&during[j]) {
                        Some(r) => e = e.replace(&name, &r),
                        None => return "SKIP:enumerator value can not be written as a standalone expression".into(),
                    }
                }
            }
            standalone.push(e.clone());
            match want_of(&e) {
                None => return if rejected { "ok".into() } else { "SKIP:standalone form of the initialiser does not type check".into() },
                Some(Want::Val(k)) => k,
                Some(Want::ValOrNotConst(k)) => {
                    soft = true;
                    k
                }
                Some(Want::NotConst) => {
                    return if rejected { "ok".into() } else { format!("FAIL:enumerator {} has no constant value but the enum is accepted: {}", i, obs) };
                }
                Some(Want::Unspecified(_)) => return "ok".into(),
            }
        };
        // only integer-like values can be enumerators; anything else is a typing question
        let base = match &k {
            K::Enum(_, inner) => (**inner).clone(),
            o => o.clone(),
        };
        if !matches!(base, K::Bool(_) | K::Lit(_) | K::I32(_) | K::U32(_)) {
            return "ok".into();
        }
        during.push(k);
    }
    let ints: Vec<i128> = during.iter().map(|k| as_integer(k).unwrap()).collect();
    let lo = ints.iter().copied().min().unwrap_or(0).min(0);
    let hi = ints.iter().copied().max().unwrap_or(0).max(0);
    let fits_int = lo >= i32::MIN as i128 && hi <= i32::MAX as i128;
    let fits_uint = lo >= 0 && hi <= u32::MAX as i128;
    if !fits_int && !fits_uint {
        return if rejected { "ok".into() } else { format!("FAIL:enumerators {:?} fit neither int nor uint but the enum is accepted: {}", ints, obs) };
    }
    let expected = format!(
        "under:{} vals:{}",
        if fits_int { "int" } else { "uint" },
        ints.iter()
            .map(|v| if fits_int { show_k(&K::I32(*v as i32)) } else { show_k(&K::U32(*v as u32)) })
            .collect::<Vec<_>>()
            .join(",")
    );
    if rejected {
        if soft { "ok".into() } else { format!("FAIL:enum rejected ({}) although its enumerators have the values {:?} (expected {})", obs, ints, expected) }
    } else if obs == expected {
        "ok".into()
    } else {
        format!("FAIL:enum recorded {} where C semantics gives {}", obs, expected)
    }
}

//! C08: compilation is total — every input yields compiled pipelines or a rendered diagnostic.
//!
//! request : C08.compile \t <dx|vk|vkba|msl> \t <all|name=X|nopipeline> \t <layout 0|1> \t <defines> \t <input>
//!   defines : `-` or `NAME=<hex of value>;...` (command-line defines)
//!   input   : bytes:<seed> | toks:<seed> | rep:<seed> | gram:<seed> | gmut:<seed> | feat:<seed> | prog:<seed> | pmut:<seed>
//!             | repo:<root>|<entry> | rmut:<root>|<entry>|<seed>          (repository inputs, includes from disk)
//!             | hex:<bytes> | hexd:<root>|<entry>|<bytes>                  (literal entry file; minimised inputs)
//!             | pp:<seed> | ppmut:<seed>      (preprocessor grammar: entry file + in-memory headers + its own API defines)
//!             | syn:<seed> | synmut:<seed> | synone:<k>   (syntax-category generator, see c08_syn.rs)
//!             | props:<seed> | propone:<k>   (property blocks / attributes / redefinitions, see c08_props.rs)
//!             | cyc:<seed> | cycone:<k>      (valid programs whose call graph has cycles through different symbols, see c08_cyc.rs)
//!             | hexm:<entry>|<hex>|<name>|<hex>|...                        (literal multi-file input)
//! observe : ok:<pipelines>:<output bytes> | err:<first line of the diagnostic> | panic:<site> | died:<signal> | timeout
//! oracle  : (the property's own) the worker process survives, `compile` returns, an `Err` renders to a non-empty
//!           message, and the time stays inside `BUDGET_BASE_MS + n^2 * BUDGET_NS_PER_BYTE2` (n = bytes loaded).
//!
//! request : C08.lex \t <hex bytes> \t <raw token lengths, `e` suffix = Endline>   (model diff: TokenStream bookkeeping)
//! request : C08.defscan | C08.textscan \t <definition tokens> \t <condition / text tokens> \t <scenario hex>   (model diff: macro scan)
//! request : C08.pipeprops \t <g|c|s> \t <name@column,...>      (model diff: duplicate-property check + state loop of parse_pipeline / parse_static_sampler)
//! request : C08.cond \t <directive letters, `(`..`)` = an included file>           (model diff: ConditionChain)
//!
//! Process structure: the supervisor (this process) writes request batches to files and spawns worker
//! processes (`harness c08 --requests FILE worker`); a worker runs its batch on a thread with an 8 MB stack
//! and prints `B <i>` before and `E <i> ...` after every input, so the supervisor knows which input killed
//! it (signal, stack overflow, abort) or hung (wall-clock watchdog), restarts after it, and shrinks it.
use crate::compile_util::*;
use crate::util::*;
use std::io::{BufRead, Write};
use std::time::{Duration, Instant};

#[path = "c08_gen.rs"]
mod generators;
use generators::*;

pub const WATCHDOG_MS: u64 = 5000;
/// shorter watchdog while minimising a hang (any <= 4 KB input that needs this long is pathological)
pub const SHRINK_WATCHDOG_MS: u64 = 1500;
static CURRENT_WATCHDOG_MS: std::sync::atomic::AtomicU64 = std::sync::atomic::AtomicU64::new(WATCHDOG_MS);
fn watchdog_ms() -> u64 {
    CURRENT_WATCHDOG_MS.load(std::sync::atomic::Ordering::SeqCst)
}
pub const STACK_BYTES: usize = 8 << 20;
/// time budget: base + n^2 * c (n = bytes handed out by the include handler); measured constants are in the STAT line
pub const BUDGET_BASE_MS: f64 = 400.0;
pub const BUDGET_NS_PER_BYTE2: f64 = 150.0;

// ------------------------------------------------------------------------------------------ requests

#[derive(Clone, Debug)]
pub struct Req {
    pub tgt: Tgt,
    pub mode: Mode,
    pub layout: bool,
    pub defs: Vec<(String, String)>,
    pub input: String,
}

pub fn parse_mode(s: &str) -> Option<Mode> {
    if s == "all" {
        Some(Mode::All)
    } else if s == "nopipeline" {
        Some(Mode::NoPipeline)
    } else {
        s.strip_prefix("name=").map(|n| Mode::Named(n.to_string()))
    }
}

impl Req {
    pub fn parse(line: &str) -> Option<Req> {
        let f: Vec<&str> = line.split('\t').collect();
        if f.len() != 6 || f[0] != "C08.compile" {
            return None;
        }
        let mut defs = Vec::new();
        if f[4] != "-" {
            for d in f[4].split(';') {
                let (n, v) = d.split_once('=')?;
                defs.push((n.to_string(), String::from_utf8(unhex(v)?).ok()?));
            }
        }
        Some(Req {
            tgt: Tgt::parse(f[1])?,
            mode: parse_mode(f[2])?,
            layout: f[3] == "1",
            defs,
            input: f[5].to_string(),
        })
    }
    pub fn line(&self) -> String {
        let defs = if self.defs.is_empty() {
            "-".to_string()
        } else {
            self.defs.iter().map(|(n, v)| format!("{}={}", n, hex(v.as_bytes()))).collect::<Vec<_>>().join(";")
        };
        format!(
            "C08.compile\t{}\t{}\t{}\t{}\t{}",
            self.tgt.name(),
            self.mode.show(),
            if self.layout { 1 } else { 0 },
            defs,
            self.input
        )
    }
}

/// What an input spec denotes: the entry file's bytes and (for repository inputs) the include root
pub struct Material {
    pub entry: String,
    pub bytes: Vec<u8>,
    pub root: Option<String>,
    /// further in-memory files the include handler hands out (preprocessor-grammar inputs)
    pub files: Vec<(String, Vec<u8>)>,
    /// command-line defines that belong to the input itself (appended to the request's)
    pub defs: Vec<(String, String)>,
}

fn pp_material(p: PpProgram) -> Option<Material> {
    let mut it = p.files.into_iter();
    let (entry, main) = it.next()?;
    Some(Material { entry, bytes: main.into_bytes(), root: None, files: it.map(|(n, t)| (n, t.into_bytes())).collect(), defs: p.defines })
}

pub fn materialise(input: &str) -> Option<Material> {
    let (kind, rest) = input.split_once(':')?;
    let mem = |bytes: Vec<u8>| Some(Material { entry: "main.rssl".into(), bytes, root: None, files: Vec::new(), defs: Vec::new() });
    match kind {
        "hex" => mem(unhex(rest)?),
        "hexd" => {
            let mut p = rest.splitn(3, '|');
            let (root, entry, h) = (p.next()?, p.next()?, p.next()?);
            Some(Material { entry: entry.into(), bytes: unhex(h)?, root: Some(root.into()), files: Vec::new(), defs: Vec::new() })
        }
        "hexm" => {
            let parts: Vec<&str> = rest.split('|').collect();
            if parts.len() < 2 || parts.len() % 2 != 0 {
                return None;
            }
            let mut files = Vec::new();
            for c in parts[2..].chunks(2) {
                files.push((c[0].to_string(), unhex(c[1])?));
            }
            Some(Material { entry: parts[0].into(), bytes: unhex(parts[1])?, root: None, files, defs: Vec::new() })
        }
        "pp" => pp_material(gen_pp(&mut Rng::new(rest.parse::<u64>().ok()?))),
        "ppmut" => pp_material(gen_pp_mutated(&mut Rng::new(rest.parse::<u64>().ok()?))),
        "repo" => {
            let (root, entry) = rest.split_once('|')?;
            let bytes = std::fs::read(std::path::Path::new(root).join(entry)).ok()?;
            Some(Material { entry: entry.into(), bytes, root: Some(root.into()), files: Vec::new(), defs: Vec::new() })
        }
        "rmut" => {
            let mut p = rest.splitn(3, '|');
            let (root, entry, seed) = (p.next()?, p.next()?, p.next()?.parse::<u64>().ok()?);
            let bytes = std::fs::read(std::path::Path::new(root).join(entry)).ok()?;
            let bytes = mutate_bytes(&bytes, &mut Rng::new(seed));
            Some(Material { entry: entry.into(), bytes, root: Some(root.into()), files: Vec::new(), defs: Vec::new() })
        }
        _ => mem(generate(kind, rest.parse::<u64>().ok()?)?),
    }
}

/// the literal (`hex:` / `hexd:`) form of an input spec with other entry bytes
pub fn literal_spec_files(m: &Material, bytes: &[u8], files: &[(String, Vec<u8>)]) -> String {
    match &m.root {
        None if files.is_empty() && m.entry == "main.rssl" => format!("hex:{}", hex(bytes)),
        None => {
            let mut s = format!("hexm:{}|{}", m.entry, hex(bytes));
            for (n, b) in files {
                s.push_str(&format!("|{}|{}", n, hex(b)));
            }
            s
        }
        Some(root) => format!("hexd:{}|{}|{}", root, m.entry, hex(bytes)),
    }
}

/// Include handler: the entry file from memory (arbitrary bytes: non UTF-8 is reported as FileNotText, as a
/// file-system handler would), everything else from the include root on disk; counts the bytes handed out
struct Overlay<'a> {
    m: &'a Material,
    loaded: usize,
}

/// the include handler stops handing out files once this many bytes went out (a generated header included hundreds of
/// times: 4.9 MB took 4.5 s, inside the n^2 budget but at the edge of the fixed watchdog — a false alarm on a loaded
/// machine, seen with `ppmut:13401016671280`); the compiler then reports the include as not found
const MAX_LOADED: usize = 1 << 20;

impl rssl::text::IncludeHandler for Overlay<'_> {
    fn load(&mut self, file_name: &str, parent_name: &str) -> Result<rssl::text::FileData, rssl::text::IncludeError> {
        if self.loaded > MAX_LOADED {
            return Err(rssl::text::IncludeError::FileNotFound);
        }
        if file_name == self.m.entry {
            return match String::from_utf8(self.m.bytes.clone()) {
                Ok(contents) => {
                    self.loaded += contents.len();
                    Ok(rssl::text::FileData { real_name: file_name.to_string(), contents })
                }
                Err(_) => Err(rssl::text::IncludeError::FileNotText),
            };
        }
        if let Some((name, bytes)) = self.m.files.iter().find(|(n, _)| n == file_name) {
            return match String::from_utf8(bytes.clone()) {
                Ok(contents) => {
                    self.loaded += contents.len();
                    Ok(rssl::text::FileData { real_name: name.clone(), contents })
                }
                Err(_) => Err(rssl::text::IncludeError::FileNotText),
            };
        }
        let Some(root) = &self.m.root else { return Err(rssl::text::IncludeError::FileNotFound) };
        let mut disk = DiskFiles { root: std::path::PathBuf::from(root) };
        let r = disk.load(file_name, parent_name);
        if let Ok(fd) = &r {
            self.loaded += fd.contents.len();
        }
        r
    }
}

pub struct Res {
    pub obs: String,
    pub oracle: String,
    pub micros: u64,
    pub nbytes: usize,
}

fn budget_ms(n: usize) -> f64 {
    BUDGET_BASE_MS + (n as f64) * (n as f64) * BUDGET_NS_PER_BYTE2 / 1.0e6
}

/// Run one request in this process (worker side)
fn run_one(req: &Req) -> Res {
    let Some(m) = materialise(&req.input) else {
        return Res { obs: "bad-input".into(), oracle: "SKIP:input spec cannot be materialised".into(), micros: 0, nbytes: 0 };
    };
    let defs: Vec<(&str, &str)> = req.defs.iter().chain(m.defs.iter()).map(|(a, b)| (a.as_str(), b.as_str())).collect();
    let mut h = Overlay { m: &m, loaded: 0 };
    let t0 = Instant::now();
    let r = guard(|| {
        let mut args = rssl::CompileArgs::new(&m.entry, &mut h, req.tgt.target())
            .defines(&defs)
            .support_buffer_address(req.tgt.buffer_address())
            .validate_layout_consistency(req.layout);
        match &req.mode {
            Mode::All => {}
            Mode::Named(n) => args = args.pipeline_name(Some(n.as_str())),
            Mode::NoPipeline => args = args.no_pipeline_mode(),
        }
        match rssl::compile(args) {
            Ok(ps) => Ok((ps.len(), ps.iter().map(|p| p.data.len()).sum::<usize>())),
            // rendering the diagnostic is part of the property
            Err(e) => Err(format!("{}", e)),
        }
    });
    let micros = t0.elapsed().as_micros() as u64;
    let nbytes = h.loaded.max(m.bytes.len());
    let (obs, mut oracle) = match r {
        Ok(Ok((n, len))) => (format!("ok:{}:{}", n, len), "ok".to_string()),
        Ok(Err(msg)) => {
            let first: String = msg.lines().next().unwrap_or("").chars().take(100).collect();
            let oracle = if msg.trim().is_empty() { "FAIL:error renders to an empty message".to_string() } else { "ok".to_string() };
            (format!("err:{}", first), oracle)
        }
        Err(p) => (format!("panic:{}", p), format!("FAIL:panic {}", p)),
    };
    // the call-graph streams emit VALID programs: the unchanged compiler accepts mutual recursion, so a diagnostic is a
    // failure too whenever the request selects something that exists (module mode, all pipelines of a program that has
    // one, a pipeline by its name) and no command-line define interferes
    if oracle == "ok" && obs.starts_with("err:") && (req.input.starts_with("cyc:") || req.input.starts_with("cycone:")) && req.defs.is_empty() {
        let names = pipeline_names(&m.bytes);
        let selected = match &req.mode {
            Mode::NoPipeline => true,
            Mode::All => !names.is_empty(),
            Mode::Named(n) => names.iter().any(|x| x == n),
        };
        if selected {
            oracle = format!("FAIL:valid call-graph program rejected: {}", &obs[4..]);
        }
    }
    if oracle == "ok" && (micros as f64) / 1000.0 > budget_ms(nbytes) {
        oracle = format!("FAIL:slow {} ms for {} bytes (budget {:.0} ms)", micros / 1000, nbytes, budget_ms(nbytes));
    }
    Res { obs, oracle, micros, nbytes }
}

// ------------------------------------------------------------------------------------------ worker

/// Diagnosis of a crash / hang: run the front-end stages one by one through the public API, announcing each, so that
/// the supervisor learns in which stage the worker dies (`compile` itself is one opaque call)
fn run_staged(req: &Req) {
    let say = |s: &str| {
        let out = std::io::stdout();
        let mut o = out.lock();
        writeln!(o, "S\t{}", s).unwrap();
        o.flush().unwrap();
    };
    let Some(m) = materialise(&req.input) else { return };
    let mut defs: Vec<(&str, &str)> = vec![("__HLSL_VERSION", "2021"), ("RSSL_TARGET_HLSL", "1"), ("RSSL_TARGET_MSL", "0")];
    if req.tgt == Tgt::Msl {
        defs[1].1 = "0";
        defs[2].1 = "1";
    }
    defs.extend(req.defs.iter().chain(m.defs.iter()).map(|(a, b)| (a.as_str(), b.as_str())));
    let _ = guard(|| {
        let mut h = Overlay { m: &m, loaded: 0 };
        let mut sm = rssl::text::SourceManager::new();
        say("preprocess");
        let Ok(tokens) = rssl::preprocess::preprocess(&m.entry, &mut sm, &mut h, &defs) else { return };
        let tokens = rssl::preprocess::prepare_tokens(&tokens);
        say("parse");
        let Ok(ast) = rssl::parser::parse(&tokens) else { return };
        say("typecheck");
        let Ok(ir) = rssl::typer::type_check(&ast) else { return };
        say("layout-check");
        let _ = rssl::ir::layout_checker::check_layout(&ir);
        // like compile(): every pipeline the mode selects gets its own binding assignment (its DefaultBindGroup
        // applies there) and export; no-pipeline mode exports the module as a whole
        let selections: Vec<Option<String>> = match &req.mode {
            Mode::NoPipeline => vec![None],
            Mode::All => ir.pipelines.iter().map(|p| Some(p.name.node.clone())).collect(),
            Mode::Named(n) => ir.pipelines.iter().filter(|p| p.name.node == *n).map(|p| Some(p.name.node.clone())).collect(),
        };
        for sel in selections {
            let module = match &sel {
                None => ir.clone(),
                Some(name) => match ir.clone().select_pipeline(name) {
                    Some(m) => m,
                    None => continue,
                },
            };
            say("assign-bindings");
            let params = match req.tgt {
                Tgt::Dx => rssl::AssignBindingsParams::default(),
                Tgt::Vk | Tgt::VkBa => rssl::AssignBindingsParams {
                    require_slot_type: false,
                    support_buffer_address: req.tgt.buffer_address(),
                    metal_slot_layout: false,
                    static_samplers_have_slots: true,
                },
                Tgt::Msl => rssl::AssignBindingsParams {
                    require_slot_type: false,
                    support_buffer_address: false,
                    metal_slot_layout: true,
                    static_samplers_have_slots: false,
                },
            };
            let module = module.assign_api_bindings(&params);
            say("export");
            if req.tgt == Tgt::Msl {
                let _ = rssl::msl::export_to_msl(&module);
            } else {
                let _ = rssl::hlsl::export_to_hlsl(&module, req.tgt != Tgt::Dx);
            }
        }
    });
    // the whole call as the property observes it (pipeline selection included)
    say("compile");
    let _ = run_one(req);
    say("done");
}

fn worker(lines: Vec<String>, start: usize, staged: bool) {
    let t = std::thread::Builder::new()
        .stack_size(STACK_BYTES)
        .spawn(move || {
            let out = std::io::stdout();
            if staged {
                if let Some(req) = lines.first().and_then(|l| Req::parse(l)) {
                    run_staged(&req);
                }
                return;
            }
            for (i, line) in lines.iter().enumerate().skip(start) {
                {
                    let mut o = out.lock();
                    writeln!(o, "B\t{}", i).unwrap();
                    o.flush().unwrap();
                }
                let res = match Req::parse(line) {
                    Some(req) => run_one(&req),
                    None => Res { obs: "bad-request".into(), oracle: "SKIP:bad request".into(), micros: 0, nbytes: 0 },
                };
                let mut o = out.lock();
                writeln!(o, "E\t{}\t{}\t{}\t{}\t{}", i, one_line(&res.obs), one_line(&res.oracle), res.micros, res.nbytes).unwrap();
                o.flush().unwrap();
            }
        })
        .unwrap();
    let _ = t.join();
}

// ------------------------------------------------------------------------------------------ supervisor

fn signal_name(status: &std::process::ExitStatus) -> String {
    #[cfg(unix)]
    {
        use std::os::unix::process::ExitStatusExt;
        if let Some(s) = status.signal() {
            return match s {
                6 => "SIGABRT".into(),
                11 => "SIGSEGV".into(),
                7 => "SIGBUS".into(),
                9 => "SIGKILL".into(),
                4 => "SIGILL".into(),
                8 => "SIGFPE".into(),
                n => format!("signal{}", n),
            };
        }
    }
    format!("exit{}", status.code().unwrap_or(-1))
}

static BATCH_NO: std::sync::atomic::AtomicU64 = std::sync::atomic::AtomicU64::new(0);

/// Run request lines in worker processes; one result per line, whatever the workers do
fn supervise_seq(lines: &[String]) -> Vec<Res> {
    let mut results: Vec<Option<Res>> = (0..lines.len()).map(|_| None).collect();
    if lines.is_empty() {
        return Vec::new();
    }
    let no = BATCH_NO.fetch_add(1, std::sync::atomic::Ordering::SeqCst);
    let tmp = std::env::temp_dir().join(format!("c08-batch-{}-{}.txt", std::process::id(), no));
    std::fs::write(&tmp, lines.join("\n") + "\n").unwrap();
    let exe = std::env::current_exe().unwrap();
    let mut start = 0usize;
    let mut spawn_failures = 0;
    while start < lines.len() {
        let child = std::process::Command::new(&exe)
            .args(["c08", "--requests", tmp.to_str().unwrap(), "worker", &format!("start={}", start)])
            .env("RUST_BACKTRACE", "0")
            .stdout(std::process::Stdio::piped())
            .stderr(std::process::Stdio::piped())
            .spawn();
        let Ok(mut child) = child else {
            spawn_failures += 1;
            if spawn_failures > 3 {
                for r in results.iter_mut().skip(start) {
                    *r = Some(Res { obs: "no-worker".into(), oracle: "SKIP:could not start a worker process".into(), micros: 0, nbytes: 0 });
                }
                break;
            }
            continue;
        };
        let stdout = child.stdout.take().unwrap();
        let stderr = child.stderr.take().unwrap();
        let (tx, rx) = std::sync::mpsc::channel::<String>();
        let reader = std::thread::spawn(move || {
            for line in std::io::BufReader::new(stdout).lines() {
                let Ok(line) = line else { break };
                if tx.send(line).is_err() {
                    break;
                }
            }
        });
        let err_reader = std::thread::spawn(move || {
            let mut s = String::new();
            let _ = std::io::Read::read_to_string(&mut std::io::BufReader::new(stderr), &mut s);
            s
        });
        let mut current: Option<usize> = None;
        let mut timed_out = false;
        loop {
            match rx.recv_timeout(Duration::from_millis(watchdog_ms())) {
                Ok(line) => {
                    let f: Vec<&str> = line.split('\t').collect();
                    if f[0] == "B" && f.len() == 2 {
                        current = f[1].parse().ok();
                    } else if f[0] == "E" && f.len() == 6 {
                        if let Ok(i) = f[1].parse::<usize>() {
                            if i < results.len() {
                                results[i] = Some(Res {
                                    obs: f[2].to_string(),
                                    oracle: f[3].to_string(),
                                    micros: f[4].parse().unwrap_or(0),
                                    nbytes: f[5].parse().unwrap_or(0),
                                });
                                current = None;
                                start = i + 1;
                            }
                        }
                    }
                }
                Err(std::sync::mpsc::RecvTimeoutError::Timeout) => {
                    timed_out = true;
                    let _ = child.kill();
                    break;
                }
                Err(std::sync::mpsc::RecvTimeoutError::Disconnected) => break,
            }
        }
        let status = child.wait();
        let _ = reader.join();
        let stderr_text = err_reader.join().unwrap_or_default();
        if let Some(i) = current {
            // the worker died or hung inside input i
            let n = materialise(&Req::parse(&lines[i]).map(|r| r.input).unwrap_or_default()).map(|m| m.bytes.len()).unwrap_or(0);
            let res = if timed_out {
                Res { obs: "timeout".into(), oracle: format!("FAIL:timeout no result within {} ms", watchdog_ms()), micros: watchdog_ms() * 1000, nbytes: n }
            } else {
                let sig = status.as_ref().map(signal_name).unwrap_or_else(|_| "unknown".into());
                let hint = if stderr_text.contains("overflowed its stack") {
                    " stack-overflow"
                } else if stderr_text.contains("memory allocation") {
                    " allocation-failure"
                } else {
                    ""
                };
                Res { obs: format!("died:{}", sig), oracle: format!("FAIL:died {}{}", sig, hint), micros: 0, nbytes: n }
            };
            results[i] = Some(res);
            start = i + 1;
        } else if !timed_out && start < lines.len() {
            // the worker ended between inputs without finishing: count as a failed spawn
            spawn_failures += 1;
            if spawn_failures > 3 {
                for r in results.iter_mut().skip(start) {
                    if r.is_none() {
                        *r = Some(Res { obs: "no-worker".into(), oracle: "SKIP:worker exited early".into(), micros: 0, nbytes: 0 });
                    }
                }
                break;
            }
        }
    }
    let _ = std::fs::remove_file(&tmp);
    results
        .into_iter()
        .map(|r| r.unwrap_or(Res { obs: "missing".into(), oracle: "SKIP:no result".into(), micros: 0, nbytes: 0 }))
        .collect()
}

/// Stage in which the worker dies or hangs on this request (a fresh worker process in staged mode)
fn diagnose(line: &str) -> String {
    diagnose2(line).0
}

/// (stage that was running when the worker died / hung, stage that took the longest)
fn diagnose2(line: &str) -> (String, String) {
    let no = BATCH_NO.fetch_add(1, std::sync::atomic::Ordering::SeqCst);
    let tmp = std::env::temp_dir().join(format!("c08-diag-{}-{}.txt", std::process::id(), no));
    std::fs::write(&tmp, format!("{}\n", line)).unwrap();
    let exe = std::env::current_exe().unwrap();
    let child = std::process::Command::new(&exe)
        .args(["c08", "--requests", tmp.to_str().unwrap(), "worker", "staged"])
        .env("RUST_BACKTRACE", "0")
        .stdout(std::process::Stdio::piped())
        .stderr(std::process::Stdio::null())
        .spawn();
    let Ok(mut child) = child else { return ("unknown".into(), "unknown".into()) };
    let stdout = child.stdout.take().unwrap();
    let (tx, rx) = std::sync::mpsc::channel::<String>();
    let reader = std::thread::spawn(move || {
        for line in std::io::BufReader::new(stdout).lines() {
            let Ok(line) = line else { break };
            if tx.send(line).is_err() {
                break;
            }
        }
    });
    let mut stage = "start".to_string();
    let mut since = Instant::now();
    let mut longest = ("start".to_string(), Duration::ZERO);
    loop {
        match rx.recv_timeout(Duration::from_millis(SHRINK_WATCHDOG_MS)) {
            Ok(l) => {
                if let Some(s) = l.strip_prefix("S\t") {
                    if since.elapsed() > longest.1 && stage != "compile" {
                        longest = (stage.clone(), since.elapsed());
                    }
                    since = Instant::now();
                    stage = s.to_string();
                }
            }
            Err(std::sync::mpsc::RecvTimeoutError::Timeout) => {
                let _ = child.kill();
                break;
            }
            Err(_) => break,
        }
    }
    if since.elapsed() > longest.1 && (stage != "compile" || longest.1 < Duration::from_millis(20)) {
        longest = (stage.clone(), since.elapsed());
    }
    if stage == "done" {
        // borderline hang: the staged run got through; attribute it to the stage that took the longest
        stage = longest.0.clone();
    }
    let _ = child.wait();
    let _ = reader.join();
    let _ = std::fs::remove_file(&tmp);
    (stage, longest.0)
}

/// `jobs` supervisor threads, each feeding worker processes with chunks of the request list
fn supervise(lines: &[String], jobs: usize) -> Vec<Res> {
    let jobs = jobs.max(1).min(lines.len().max(1));
    if jobs == 1 {
        return supervise_seq(lines);
    }
    let mut parts: Vec<Vec<(usize, String)>> = (0..jobs).map(|_| Vec::new()).collect();
    for (i, l) in lines.iter().enumerate() {
        parts[i % jobs].push((i, l.clone()));
    }
    let handles: Vec<_> = parts
        .into_iter()
        .map(|part| {
            std::thread::spawn(move || {
                let ls: Vec<String> = part.iter().map(|(_, l)| l.clone()).collect();
                let rs = supervise_seq(&ls);
                part.into_iter().map(|(i, _)| i).zip(rs).collect::<Vec<_>>()
            })
        })
        .collect();
    let mut out: Vec<Option<Res>> = (0..lines.len()).map(|_| None).collect();
    for h in handles {
        for (i, r) in h.join().unwrap() {
            out[i] = Some(r);
        }
    }
    out.into_iter().map(|r| r.unwrap()).collect()
}

// ------------------------------------------------------------------------------------------ keys, classes, shrinking

/// finding keys already listed for C08 in known_findings.jsonl (their minimised reproducers are in corpus/C08.txt):
/// minimising them again on every run would only cost time
fn known_keys() -> std::collections::BTreeSet<String> {
    let root = std::env::var("VERIF_ROOT").unwrap_or_else(|_| ".".into());
    let text = std::fs::read_to_string(std::path::Path::new(&root).join("known_findings.jsonl")).unwrap_or_default();
    let mut out = std::collections::BTreeSet::new();
    for line in text.lines() {
        let line = line.replace("\": \"", "\":\"");
        if !line.contains("\"property\":\"C08\"") || !line.contains("\"kind\":\"known\"") {
            continue;
        }
        if let Some(p) = line.find("\"key\":\"") {
            let mut key = String::new();
            let mut cs = line[p + 7..].chars();
            while let Some(c) = cs.next() {
                match c {
                    '\\' => {
                        if let Some(n) = cs.next() {
                            key.push(n);
                        }
                    }
                    '"' => break,
                    c => key.push(c),
                }
            }
            out.insert(key);
        }
    }
    out
}

/// name of the function whose body contains `line` of a repository source file: the nearest preceding
/// `fn <name>` (the same rule as checks/c08.py); keys carry it instead of the line number, which moves with edits
fn enclosing_fn(file: &str, line: usize) -> String {
    thread_local! {
        static CACHE: std::cell::RefCell<std::collections::BTreeMap<String, Vec<String>>> = const { std::cell::RefCell::new(std::collections::BTreeMap::new()) };
    }
    let repo = std::env::var("VERIF_REPO").unwrap_or_else(|_| "/repo".into());
    CACHE.with(|c| {
        let mut c = c.borrow_mut();
        let lines = c.entry(file.to_string()).or_insert_with(|| {
            std::fs::read_to_string(std::path::Path::new(&repo).join(file)).unwrap_or_default().lines().map(|l| l.to_string()).collect()
        });
        for l in lines[..line.min(lines.len())].iter().rev() {
            let b = l.as_bytes();
            let mut i = 0;
            while i + 3 <= b.len() {
                if &b[i..i + 2] == b"fn" && (i == 0 || !(b[i - 1].is_ascii_alphanumeric() || b[i - 1] == b'_')) && b[i + 2].is_ascii_whitespace() {
                    let mut j = i + 2;
                    while j < b.len() && b[j].is_ascii_whitespace() {
                        j += 1;
                    }
                    let st = j;
                    while j < b.len() && (b[j].is_ascii_alphanumeric() || b[j] == b'_') {
                        j += 1;
                    }
                    if j > st {
                        return l[st..j].to_string();
                    }
                }
                i += 1;
            }
        }
        "?".to_string()
    })
}

/// the stable part of a panic message: first line, digit runs -> N, cut before the first `:` `(` `[` `{`
/// (what follows is usually a Debug rendering of input-dependent values); assertion messages keep their head
fn normalise_message(msg: &str) -> String {
    let first = msg.split("\\n").next().unwrap_or("").trim().trim_end_matches('\\').trim();
    let mut m = String::new();
    let mut in_digits = false;
    for c in first.chars() {
        if c.is_ascii_digit() {
            if !in_digits {
                m.push('N');
            }
            in_digits = true;
        } else {
            in_digits = false;
            m.push(c);
        }
    }
    let cut = if m.starts_with("assertion") {
        m.find(" failed").map(|i| i + 7).unwrap_or(m.len())
    } else if m.starts_with("called `") {
        m.find(" value").map(|i| i + 6).unwrap_or(m.len())
    } else {
        m.find([':', '(', '[', '{']).unwrap_or(m.len())
    };
    let head = m[..cut].trim();
    if head.chars().count() < 4 { "<dynamic message>".to_string() } else { head.chars().take(80).collect() }
}

/// what identifies a failure (mirrors checks/c08.py finding_key, without the stage of crashes)
fn base_key(oracle: &str) -> String {
    let d = oracle.strip_prefix("FAIL:").unwrap_or(oracle);
    if let Some(p) = d.strip_prefix("panic ") {
        // panic <file>:<line>: <msg>  ->  panic <file> fn <enclosing fn>: <normalised msg>
        let mut it = p.splitn(3, ':');
        let (file, line, msg) = (it.next().unwrap_or(""), it.next().unwrap_or(""), it.next().unwrap_or(""));
        let repo = std::env::var("VERIF_REPO").unwrap_or_else(|_| "/repo".into());
        let file = file.strip_prefix(&format!("{}/", repo.trim_end_matches('/'))).unwrap_or(file);
        let f = enclosing_fn(file, line.trim().parse().unwrap_or(0));
        return format!("panic {} fn {}: {}", file, f, normalise_message(msg));
    }
    if d.starts_with("slow") {
        return "slow".into();
    }
    if d.starts_with("timeout") {
        return "timeout".into();
    }
    d.split(" class=").next().unwrap_or(d).split(" stage=").next().unwrap_or(d).to_string()
}

/// readable class of a minimised input: digit runs -> N, runs of >= 3 equal characters -> `c+`, blanks squeezed
pub fn input_class(bytes: &[u8]) -> String {
    let text = String::from_utf8_lossy(bytes);
    let mut s = String::new();
    let cs: Vec<char> = text.chars().collect();
    let mut i = 0;
    while i < cs.len() {
        let c = cs[i];
        if c.is_ascii_digit() {
            while i < cs.len() && cs[i].is_ascii_digit() {
                i += 1;
            }
            s.push('N');
            continue;
        }
        if c.is_whitespace() {
            while i < cs.len() && cs[i].is_whitespace() {
                i += 1;
            }
            s.push(' ');
            continue;
        }
        let mut j = i;
        while j < cs.len() && cs[j] == c {
            j += 1;
        }
        if j - i >= 3 {
            s.push(c);
            s.push('+');
        } else {
            for _ in i..j {
                s.push(c);
            }
        }
        i = j;
    }
    // squeeze repeated two-character groups such as `(-(-(-` too
    let s = squeeze_pairs(&s);
    let t: String = s.trim().chars().filter(|c| *c != '\t').take(60).collect();
    if s.trim().chars().count() > 60 { format!("{}..#{:08x}", t, fnv64(s.as_bytes()) as u32) } else { t }
}

fn squeeze_pairs(s: &str) -> String {
    let cs: Vec<char> = s.chars().collect();
    for w in [2usize, 3, 4, 5, 6, 7, 8] {
        let mut out: Vec<char> = Vec::new();
        let mut i = 0;
        let mut changed = false;
        while i < cs.len() {
            if i + 3 * w <= cs.len() && cs[i..i + w] == cs[i + w..i + 2 * w] && cs[i..i + w] == cs[i + 2 * w..i + 3 * w] {
                let unit: Vec<char> = cs[i..i + w].to_vec();
                let mut j = i;
                while j + w <= cs.len() && cs[j..j + w] == unit[..] {
                    j += w;
                }
                out.push('{');
                out.extend(&unit);
                out.push('}');
                out.push('+');
                i = j;
                changed = true;
            } else {
                out.push(cs[i]);
                i += 1;
            }
        }
        if changed {
            return out.into_iter().collect();
        }
    }
    s.to_string()
}

/// A candidate while minimising: entry bytes, the other in-memory files, the command-line defines
#[derive(Clone)]
struct Cand {
    entry: Vec<u8>,
    files: Vec<(String, Vec<u8>)>,
    defs: Vec<(String, String)>,
}

impl Cand {
    fn comp(&self, k: usize) -> &Vec<u8> {
        if k == 0 { &self.entry } else { &self.files[k - 1].1 }
    }
    fn with_comp(&self, k: usize, bytes: Vec<u8>) -> Cand {
        let mut c = self.clone();
        if k == 0 {
            c.entry = bytes;
        } else {
            c.files[k - 1].1 = bytes;
        }
        c
    }
    fn size(&self) -> usize {
        self.entry.len() + self.files.iter().map(|f| f.1.len() + 8).sum::<usize>() + self.defs.iter().map(|d| d.0.len() + d.1.len() + 8).sum::<usize>()
    }
}

/// Greedy delta debugging: whole defines and files first, then per file over lines, then over byte chunks
/// (define values too); every candidate runs in a worker process
fn shrink(req: &Req, key: &str, budget_runs: usize, jobs: usize) -> (Req, Res, usize) {
    let m = materialise(&req.input).unwrap();
    let mut best = Cand { entry: m.bytes.clone(), files: m.files.clone(), defs: req.defs.iter().chain(m.defs.iter()).cloned().collect() };
    let budget_runs = if best.files.is_empty() && best.defs.is_empty() { budget_runs } else { budget_runs * 2 };
    let mut runs = 0usize;
    let mk = |c: &Cand| {
        let mut r = req.clone();
        r.input = literal_spec_files(&m, &c.entry, &c.files);
        r.defs = c.defs.clone();
        r
    };
    // the literal form itself must fail the same way
    let first = supervise_seq(&[mk(&best).line()]).into_iter().next().unwrap();
    let short = key == "timeout";
    if short {
        CURRENT_WATCHDOG_MS.store(SHRINK_WATCHDOG_MS, std::sync::atomic::Ordering::SeqCst);
    }
    runs += 1;
    if base_key(&first.oracle) != key {
        CURRENT_WATCHDOG_MS.store(WATCHDOG_MS, std::sync::atomic::Ordering::SeqCst);
        return (req.clone(), first, runs);
    }
    let first_copy = Res { obs: first.obs.clone(), oracle: first.oracle.clone(), micros: first.micros, nbytes: first.nbytes };
    let mut best_res = first;
    // one round of candidates: the first that still fails the same way becomes the new best
    let mut try_cands = |cands: Vec<Cand>, best: &mut Cand, best_res: &mut Res, runs: &mut usize| -> bool {
        for batch in cands.chunks(jobs.max(1) * 4) {
            if *runs >= budget_runs {
                return false;
            }
            let lines: Vec<String> = batch.iter().map(|c| mk(c).line()).collect();
            let rs = supervise(&lines, jobs);
            *runs += lines.len();
            if let Some((i, r)) = rs.into_iter().enumerate().find(|(_, r)| base_key(&r.oracle) == key) {
                *best = batch[i].clone();
                *best_res = r;
                return true;
            }
        }
        false
    };
    // ---- whole defines, whole files
    loop {
        let mut cands = Vec::new();
        for i in 0..best.defs.len() {
            let mut c = best.clone();
            c.defs.remove(i);
            cands.push(c);
        }
        for i in 0..best.files.len() {
            let mut c = best.clone();
            c.files.remove(i);
            cands.push(c);
        }
        if cands.is_empty() || !try_cands(cands, &mut best, &mut best_res, &mut runs) {
            break;
        }
    }
    // ---- per component: lines, then bytes
    for by_lines in [true, false] {
        for comp in 0..=best.files.len() {
            let mut chunk = usize::MAX;
            loop {
                let cur = best.comp(comp).clone();
                let units: Vec<(usize, usize)> = if by_lines {
                    let mut v = Vec::new();
                    let mut s = 0;
                    for (i, b) in cur.iter().enumerate() {
                        if *b == b'\n' {
                            v.push((s, i + 1));
                            s = i + 1;
                        }
                    }
                    if s < cur.len() {
                        v.push((s, cur.len()));
                    }
                    v
                } else {
                    (0..cur.len()).map(|i| (i, i + 1)).collect()
                };
                if units.is_empty() || (units.len() <= 1 && by_lines) {
                    break;
                }
                if chunk == usize::MAX {
                    chunk = (units.len() / 2).max(1);
                }
                chunk = chunk.min(units.len().max(1));
                // candidates: remove units[k*chunk .. (k+1)*chunk]
                let mut cands: Vec<Cand> = Vec::new();
                let mut k = 0;
                while k < units.len() {
                    let a = units[k].0;
                    let b = units[(k + chunk).min(units.len()) - 1].1;
                    let mut c = cur[..a].to_vec();
                    c.extend_from_slice(&cur[b..]);
                    if c.len() < cur.len() {
                        cands.push(best.with_comp(comp, c));
                    }
                    k += chunk;
                }
                let improved = try_cands(cands, &mut best, &mut best_res, &mut runs);
                if runs >= budget_runs {
                    break;
                }
                if !improved {
                    if chunk == 1 {
                        break;
                    }
                    chunk = (chunk / 2).max(1);
                }
            }
            if runs >= budget_runs {
                break;
            }
        }
        if runs >= budget_runs {
            break;
        }
    }
    // ---- define values: empty, then byte by byte
    for i in 0..best.defs.len() {
        loop {
            let v = best.defs[i].1.clone().into_bytes();
            let mut cands = Vec::new();
            for k in 0..v.len() {
                let mut w = v.clone();
                w.remove(k);
                if let Ok(t) = String::from_utf8(w) {
                    let mut c = best.clone();
                    c.defs[i].1 = t;
                    cands.push(c);
                }
            }
            if cands.is_empty() || !try_cands(cands, &mut best, &mut best_res, &mut runs) {
                break;
            }
        }
    }
    let _ = best.size();
    if short {
        CURRENT_WATCHDOG_MS.store(WATCHDOG_MS, std::sync::atomic::Ordering::SeqCst);
        let confirm = supervise_seq(&[mk(&best).line()]).into_iter().next().unwrap();
        runs += 1;
        if base_key(&confirm.oracle) == key {
            best_res = confirm;
        } else {
            return (req.clone(), first_copy, runs);
        }
    }
    (mk(&best), best_res, runs)
}

// ------------------------------------------------------------------------------------------ small model-diff ops

/// C08.lex: the real TokenStream on a byte string; the request carries the raw token lengths so that the
/// model replays only the stream bookkeeping (offsets, synthetic final endline, end_of_stream)
fn lex_case(bytes: &[u8], out: &mut Out, hist: &mut Hist) {
    let Ok(text) = String::from_utf8(bytes.to_vec()) else { return };
    let r = guard(|| rssl_preprocess::verif::lex(&text, rssl::text::SourceLocation::first(), true));
    let (script, obs, oracle) = match r {
        Err(p) => (String::new(), format!("panic:{}", p), format!("FAIL:panic {}", p)),
        Ok(Err(e)) => {
            hist.add("lex=error");
            (String::from("!"), format!("err:{:?}", e.reason), "ok".to_string())
        }
        Ok(Ok(tokens)) => {
            hist.add("lex=ok");
            let mut script = Vec::new();
            let mut spans = Vec::new();
            let mut fail = None;
            let mut pos = 0u32;
            let n = tokens.len();
            for (k, t) in tokens.iter().enumerate() {
                let (a, b) = {
                    use rssl::text::{Locate, LocateEnd};
                    (t.get_location().get_raw(), t.get_end_location().get_raw())
                };
                let endl = matches!(t.0, rssl::text::tokens::Token::Endline);
                spans.push(format!("{}-{}{}", a, b, if endl { "e" } else { "" }));
                if a != pos && fail.is_none() {
                    fail = Some(format!("token {} starts at {} but the previous one ended at {}", k, a, pos));
                }
                if b == a {
                    // only the final synthetic endline may be empty
                    if !(k + 1 == n && endl && a as usize == text.len()) && fail.is_none() {
                        fail = Some(format!("token {} consumed nothing at offset {}", k, a));
                    }
                } else {
                    script.push(format!("{}{}", b - a, if endl { "e" } else { "" }));
                }
                pos = b;
            }
            if pos as usize != text.len() && fail.is_none() {
                fail = Some(format!("tokens end at {} of {}", pos, text.len()));
            }
            if n > text.len() + 1 && fail.is_none() {
                fail = Some(format!("{} tokens for {} bytes", n, text.len()));
            }
            (script.join(","), spans.join(" "), fail.map(|f| format!("FAIL:{}", f)).unwrap_or_else(|| "ok".into()))
        }
    };
    out.case(&format!("C08.lex\t{}\t{}", hex(bytes), if script.is_empty() { "-".into() } else { script }), &obs, &oracle);
}

/// C08.cond: directive letters i/I (#if 1 / #if 0), d/D (#ifdef defined/undefined), l/L (#elif 1/0), e (#else), n (#endif),
/// x (`#3`: a directive line that does not start with a name), `(`..`)` (`#include` of an in-memory file that holds the
/// enclosed lines; the file of the `(` at index k is `h<k>.h`), anything else a text line `t<index>`.
/// The source of one file; `pos` indexes the whole letter string.  `None` = unbalanced parentheses.
fn cond_file_source(letters: &[char], pos: &mut usize, nested: bool, files: &mut Vec<(String, String)>) -> Option<String> {
    let mut src = String::new();
    loop {
        let Some(&c) = letters.get(*pos) else {
            return if nested { None } else { Some(src) };
        };
        let k = *pos;
        *pos += 1;
        match c {
            ')' => return if nested { Some(src) } else { None },
            '(' => {
                let name = format!("h{}.h", k);
                let inner = cond_file_source(letters, pos, true, files)?;
                files.push((name.clone(), inner));
                src.push_str(&format!("#include \"{}\"\n", name));
            }
            'i' => src.push_str("#if 1\n"),
            'I' => src.push_str("#if 0\n"),
            'd' => src.push_str("#ifdef DEF\n"),
            'D' => src.push_str("#ifdef UNDEF\n"),
            'l' => src.push_str("#elif 1\n"),
            'L' => src.push_str("#elif 0\n"),
            'e' => src.push_str("#else\n"),
            'n' => src.push_str("#endif\n"),
            'x' => src.push_str("#3\n"),
            _ => src.push_str(&format!("t{}\n", k)),
        }
    }
}

fn cond_case(letters: &str, out: &mut Out, hist: &mut Hist) {
    let chars: Vec<char> = letters.chars().collect();
    let mut files = Vec::new();
    let mut pos = 0;
    let Some(body) = cond_file_source(&chars, &mut pos, false, &mut files) else {
        out.case(&format!("C08.cond\t{}", letters), "bad-request", "SKIP:unbalanced include parentheses");
        return;
    };
    let src = format!("#define DEF 1\n{}", body);
    files.push(("main.rssl".to_string(), src));
    let r = guard(|| {
        let mut sm = rssl::text::SourceManager::new();
        let mut inc = MemFiles(files.clone());
        match rssl::preprocess::preprocess("main.rssl", &mut sm, &mut inc, &[]) {
            Ok(tokens) => {
                let ids: Vec<String> = tokens
                    .iter()
                    .filter_map(|t| match &t.0 {
                        rssl::text::tokens::Token::Id(id) => id.0.strip_prefix('t').map(|s| s.to_string()),
                        _ => None,
                    })
                    .collect();
                format!("ok:{}", ids.join(","))
            }
            Err(e) => {
                use rssl::text::CompileErrorExt;
                let msg = format!("{}", e.display(&sm));
                let kind = if msg.is_empty() {
                    "empty-diagnostic"
                } else if msg.contains("not enough #endif") {
                    "not-finished"
                } else if msg.contains("#else but with no matching") {
                    "else-not-matched"
                } else if msg.contains("#endif but with no matching") {
                    "endif-not-matched"
                } else if msg.contains("#else after #else") {
                    "else-after-else"
                } else if msg.contains("#elif after #else") {
                    "elif-after-else"
                } else if msg.contains("unknown preprocessing directive") {
                    "unknown-command"
                } else {
                    "other"
                };
                format!("err:{}", kind)
            }
        }
    });
    let (obs, oracle) = match r {
        // the property's own words: the run ends in text or in a rendered (non-empty) diagnostic
        Ok(o) if o == "err:empty-diagnostic" => (o, "FAIL:the preprocessor error renders to an empty string".to_string()),
        Ok(o) => (o, "ok".to_string()),
        Err(p) => (format!("panic:{}", p), format!("FAIL:panic {}", p)),
    };
    hist.add(&format!("cond={}", obs.split(':').next().unwrap_or("")));
    if obs.starts_with("err:") {
        hist.add(&format!("cond-{}", obs));
    }
    if letters.contains('(') {
        hist.add("cond-with-include");
    }
    out.case(&format!("C08.cond\t{}", letters), &obs, &oracle);
}

/// C08.pipeprops: a Pipeline (`g` graphics, `c` compute) or StaticSampler (`s`) block whose properties all carry valid
/// values; the real `compile` is classified as `dup:<column>` (PipelinePropertyDuplicate), `other:<column>` (another
/// diagnostic located on the block's line), `done` (compiled) or `panic:<property>` and compared with the model of the
/// duplicate check + state loop (`Model/PipelineProps.lean`).
fn pipeprops_case(kind: &str, names: &[String], out: &mut Out, hist: &mut Hist) {
    let (text, cols) = pipeprops_text(kind, names);
    let props = if names.is_empty() { "-".to_string() } else { names.iter().zip(&cols).map(|(n, c)| format!("{}@{}", n, c)).collect::<Vec<_>>().join(",") };
    let req = format!("C08.pipeprops\t{}\t{}", kind, props);
    if names.iter().any(|n| n.is_empty() || n.contains(|c: char| !c.is_ascii_alphanumeric() && c != '_')) {
        out.case(&req, "bad-request", "SKIP:a property name is not an identifier");
        return;
    }
    let r = guard(|| {
        let mut inc = MemFiles(vec![("main.rssl".to_string(), text.clone())]);
        let args = rssl::CompileArgs::new("main.rssl", &mut inc, rssl::Target::HlslForVulkan);
        match rssl::compile(args) {
            Ok(_) => "done".to_string(),
            Err(e) => {
                let msg = format!("{}", e);
                let first = msg.lines().next().unwrap_or("").to_string();
                if first.trim().is_empty() {
                    return "err:empty-diagnostic".to_string();
                }
                // main.rssl:<line>:<column>: error: <message>
                let mut it = first.splitn(4, ':');
                let (_f, line, col, rest) = (it.next(), it.next().and_then(|x| x.trim().parse::<usize>().ok()), it.next().and_then(|x| x.trim().parse::<usize>().ok()), it.next().unwrap_or(""));
                match (line, col) {
                    (Some(2), Some(c)) if rest.contains("property declared multiple times") => format!("dup:{}", c),
                    (Some(2), Some(c)) => format!("other:{}", c),
                    _ => format!("err:{}", first.chars().take(100).collect::<String>()),
                }
            }
        }
    });
    let (obs, oracle) = match r {
        // the property's own words: compile returns pipelines or a rendered (non-empty) diagnostic
        Ok(o) if o == "err:empty-diagnostic" => (o, "FAIL:the error renders to an empty string".to_string()),
        Ok(o) => (o, "ok".to_string()),
        Err(p) => {
            let which = if p.contains("!cull_mode_set") { "CullMode" } else if p.contains("!winding_order_set") { "WindingOrder" } else if p.contains("depth_target_format.is_none()") { "DepthTargetFormat" }
                else if p.contains("render_target_formats[index].is_none()") { "RenderTargetFormat" } else { "?" };
            (format!("panic:{}", which), format!("FAIL:panic {}", p))
        }
    };
    hist.add(&format!("pipeprops={}/{}", kind, obs.split(':').next().unwrap_or("")));
    let mut sorted: Vec<&String> = names.iter().collect();
    sorted.sort();
    if sorted.windows(2).any(|w| w[0] == w[1]) {
        hist.add("pipeprops-with-repeat");
    }
    hist.add(&format!("pipeprops-len={}", names.len().min(12)));
    out.case(&req, &obs, &oracle);
}

fn pipeprops_request(rest: &str) -> Option<(String, Vec<String>)> {
    let mut f = rest.split('\t');
    let kind = f.next()?.to_string();
    let props = f.next()?;
    let names = if props == "-" || props.is_empty() { Vec::new() } else { props.split(',').map(|p| p.split('@').next().unwrap_or("").to_string()).collect() };
    Some((kind, names))
}

/// C08.defscan: definitions (in a header, in the entry file or as API defines) + one `#if` line; the real
/// `preprocess` is compared with the model of `Macro::parse` + `apply_macros(.., true)` with locations
/// (`Model/DefinedLoc.lean`).  The request carries the *real lexer's* tokens of every definition and of the
/// condition with their raw locations.  Scenario spec: `<placement h|m|a>;<def>;<def>;..;<cond>` in hex.
fn defscan_case(spec_hex: &str, out: &mut Out, hist: &mut Hist) {
    use rssl::text::tokens::Token;
    use rssl::text::{Locate, LocateEnd};
    let Some(spec) = unhex(spec_hex).and_then(|b| String::from_utf8(b).ok()) else { return };
    let parts: Vec<&str> = spec.split(';').collect();
    if parts.len() < 2 {
        return;
    }
    let placement = parts[0];
    let defs: Vec<&str> = parts[1..parts.len() - 1].to_vec();
    let cond = parts[parts.len() - 1];
    // ---- the files and where their parts are
    let mut main = String::new();
    let mut header = String::new();
    let mut api: Vec<(String, String)> = Vec::new();
    // (file index: 0 main, 1.. api defines, last header; byte offset of the fragment; fragment text)
    let mut def_frags: Vec<(usize, usize, String)> = Vec::new();
    match placement {
        "h" => {
            main.push_str("#include \"h.h\"\n");
            for d in &defs {
                header.push_str("#define");
                def_frags.push((usize::MAX, header.len(), format!(" {}", d)));
                header.push_str(&format!(" {}\n", d));
            }
        }
        "m" | "t" => {
            for d in &defs {
                main.push_str("#define");
                def_frags.push((0, main.len(), format!(" {}", d)));
                main.push_str(&format!(" {}\n", d));
            }
        }
        _ => {
            for (k, d) in defs.iter().enumerate() {
                // NAME(params) VALUE: the API wants name and value apart; split at the first blank outside parentheses
                let mut depth = 0;
                let mut cut = d.len();
                for (i, c) in d.char_indices() {
                    match c {
                        '(' => depth += 1,
                        ')' => depth -= 1,
                        ' ' if depth == 0 => {
                            cut = i;
                            break;
                        }
                        _ => {}
                    }
                }
                let (n, v) = (d[..cut].to_string(), d[cut..].trim_start_matches(' ').to_string());
                def_frags.push((1 + k, 0, format!("{} {}", n, v)));
                api.push((n, v));
            }
        }
    }
    // placement `t`: the "condition" is ordinary text after the definitions (it may run over several lines: fix f08088c lets
    // the invocation of a function-like macro continue on the next line); it is scanned without `apply_defined`
    let text_mode = placement == "t";
    let cond_frag = if text_mode {
        let frag = (0usize, main.len(), format!("{}\n", cond));
        main.push_str(&format!("{}\n", cond));
        frag
    } else {
        main.push_str("#if");
        let frag = (0usize, main.len(), format!(" {}", cond));
        main.push_str(&format!(" {}\n#endif\n", cond));
        frag
    };
    // ---- base locations in registration order: entry file, API defines, header
    let mut bases: Vec<u32> = vec![0];
    let mut next = main.len() as u32 + 1;
    for (n, v) in &api {
        bases.push(next);
        next += format!("{} {}", n, v).len() as u32 + 1;
    }
    let header_base = next;
    // ---- tokens of the fragments, from the real lexer
    let mut names: Vec<String> = vec!["defined".to_string()];
    let mut show = |frag: &(usize, usize, String)| -> Option<String> {
        let base = if frag.0 == usize::MAX { header_base } else { bases[frag.0] } + frag.1 as u32;
        let toks = guard(|| rssl_preprocess::verif::lex(&frag.2, rssl::text::SourceLocation::first().offset(base), false)).ok()?.ok()?;
        let mut v = Vec::new();
        for t in &toks {
            let k = match &t.0 {
                Token::Id(id) => {
                    let i = match names.iter().position(|n| *n == id.0) {
                        Some(i) => i,
                        None => {
                            names.push(id.0.clone());
                            names.len() - 1
                        }
                    };
                    format!("i{}", i)
                }
                Token::LeftParen => "l".into(),
                Token::RightParen => "r".into(),
                Token::Comma => "c".into(),
                Token::Whitespace | Token::Comment | Token::PhysicalEndline => "b".into(),
                Token::Endline => "e".into(),
                Token::HashHash => "h".into(),
                Token::LiteralInt(v) => format!("n{}", v),
                _ => "o".into(),
            };
            v.push(format!("{}:{}:{}", k, t.get_location().get_raw(), t.get_end_location().get_raw()));
        }
        Some(if v.is_empty() { "-".to_string() } else { v.join(" ") })
    };
    let mut def_toks = Vec::new();
    for f in &def_frags {
        match show(f) {
            Some(t) => def_toks.push(t),
            None => return, // not lexable: outside this stream
        }
    }
    let Some(cond_toks) = show(&cond_frag) else { return };
    // ---- the real preprocessor
    let api_refs: Vec<(&str, &str)> = api.iter().map(|(a, b)| (a.as_str(), b.as_str())).collect();
    let r = guard(|| {
        let mut sm = rssl::text::SourceManager::new();
        let mut inc = MemFiles(vec![("main.rssl".to_string(), main.clone()), ("h.h".to_string(), header.clone())]);
        match rssl::preprocess::preprocess("main.rssl", &mut sm, &mut inc, &api_refs) {
            Ok(_) => "done".to_string(),
            Err(e) => {
                use rssl::text::CompileErrorExt;
                let msg = format!("{}", e.display(&sm));
                let first = msg.lines().next().unwrap_or("").to_string();
                if first.contains("#if condition parser failed") {
                    "done".to_string()
                } else if first.contains("requires arguments") {
                    "err:requires-arguments".to_string()
                } else if first.contains("expected end of macro arguments") {
                    "err:arguments-never-end".to_string()
                } else if first.contains("different number of arguments") {
                    "err:different-number".to_string()
                } else if first.contains("no token on left of ##") {
                    "err:concat-left".to_string()
                } else if first.contains("no token on right of ##") {
                    "err:concat-right".to_string()
                } else if first.contains("invalid #define command") {
                    "err:invalid-define".to_string()
                } else {
                    format!("other:{}", first.chars().take(80).collect::<String>())
                }
            }
        }
    });
    let (obs, oracle) = match r {
        Ok(o) => (o, "ok".to_string()),
        Err(p) => {
            let msg = p.splitn(3, ':').nth(2).unwrap_or(&p).trim().to_string();
            (format!("panic:{}", msg), format!("FAIL:panic {}", p))
        }
    };
    hist.add(&format!("defscan={}", obs.split(|c| c == ':' || c == ' ').take(2).collect::<Vec<_>>().join(":")));
    hist.add(&format!("defscan-placement={}", placement));
    let req = format!(
        "{}\t{}\t{}",
        if text_mode { "C08.textscan" } else { "C08.defscan" },
        if def_toks.is_empty() { "-".to_string() } else { def_toks.join("|") },
        cond_toks
    );
    // the spec rides along as a comment field of the observation? no: requests must be replayable, so it is the
    // *tokens* that are the request; replay re-runs the model only.  The scenario text is kept in the oracle detail.
    let oracle = if oracle == "ok" { oracle } else { format!("{} scenario={}", oracle, spec_hex) };
    out.case(&format!("{}\t{}", req, spec_hex), &obs, &oracle);
}

// ------------------------------------------------------------------------------------------ driver

fn emit(out: &mut Out, line: &str, r: &Res) {
    out.case(line, &r.obs, &r.oracle);
}

pub fn run(args: &Args, out: &mut Out) {
    let mut hist = Hist::default();
    let jobs: usize = std::env::var("VERIF_JOBS").ok().and_then(|s| s.parse().ok()).unwrap_or(4);
    if let Some(lines) = args.request_lines() {
        if args.extra.iter().any(|e| e == "worker") {
            let start = args.extra.iter().find_map(|e| e.strip_prefix("start=").and_then(|s| s.parse().ok())).unwrap_or(0);
            worker(lines, start, args.extra.iter().any(|e| e == "staged"));
            return;
        }
        // replay / corpus mode
        let compile_lines: Vec<String> = lines.iter().filter(|l| l.starts_with("C08.compile\t")).cloned().collect();
        let rs = supervise(&compile_lines, jobs);
        let mut k = 0;
        for line in &lines {
            if line.starts_with("C08.compile\t") {
                let r = &rs[k];
                k += 1;
                let mut oracle = r.oracle.clone();
                if oracle.starts_with("FAIL:died") || oracle.starts_with("FAIL:timeout") {
                    oracle = format!("{} stage={}", oracle, diagnose(line));
                } else if oracle.starts_with("FAIL:slow") {
                    oracle = format!("{} stage={}", oracle, diagnose2(line).1);
                }
                if oracle.starts_with("FAIL:died") || oracle.starts_with("FAIL:timeout") || oracle.starts_with("FAIL:slow") {
                    if let Some(m) = Req::parse(line).and_then(|q| materialise(&q.input)) {
                        oracle = format!("{} class={}", oracle, input_class(&m.bytes));
                    }
                }
                hist.add(&format!("outcome={}", r.obs.split(':').next().unwrap_or("")));
                if args.extra.iter().any(|e| e == "showtime") {
                    out.case(line, &format!("{} [{} us, {} bytes]", r.obs, r.micros, r.nbytes), &oracle);
                    continue;
                }
                out.case(line, &r.obs, &oracle);
            } else if let Some(rest) = line.strip_prefix("C08.lex\t") {
                if let Some(b) = rest.split('\t').next().and_then(unhex) {
                    lex_case(&b, out, &mut hist);
                }
            } else if let Some(rest) = line.strip_prefix("C08.cond\t") {
                cond_case(rest, out, &mut hist);
            } else if let Some(rest) = line.strip_prefix("C08.pipeprops\t") {
                if let Some((kind, names)) = pipeprops_request(rest) {
                    pipeprops_case(&kind, &names, out, &mut hist);
                }
            } else if let Some(rest) = line.strip_prefix("C08.defscan\t").or_else(|| line.strip_prefix("C08.textscan\t")) {
                if let Some(spec) = rest.split('\t').nth(2) {
                    defscan_case(spec, out, &mut hist);
                }
            }
        }
        out.stat(&format!("{{\"mode\":\"replay\",\"hist\":{}}}", hist.json()));
        return;
    }

    if args.extra.iter().any(|e| e == "gentest") {
        // self-test of the generators: none may panic, whatever the seed (development aid)
        let n = args.n.unwrap_or(20000);
        let mut bad = 0;
        for seed in 0..n {
            for kind in ["pp", "ppmut", "syn", "synmut", "props", "cyc", "cx", "gram", "gmut", "feat", "toks", "rep", "bytes", "prog", "pmut"] {
                let r = guard(|| materialise(&format!("{}:{}", kind, seed)).map(|m| m.bytes.len()));
                if let Err(p) = r {
                    bad += 1;
                    if bad < 20 {
                        println!("generator {} seed {} panics: {}", kind, seed, p);
                    }
                }
            }
            let r = guard(|| gen_defscan(&mut Rng::new(seed)).len());
            if let Err(p) = r {
                bad += 1;
                if bad < 20 {
                    println!("generator defscan seed {} panics: {}", seed, p);
                }
            }
        }
        println!("gentest: {} seeds, {} panics", n, bad);
        return;
    }
    if args.extra.iter().any(|e| e == "synprobe") {
        // one request per syntax category and target: the category's template alone (development aid)
        for (cat, alt) in syn_variants() {
            if std::env::var("SYNPROBE_NAMES").is_ok() {
                println!("{}#{}", cat, alt);
                continue;
            }
            if let Some(text) = syn_single(cat, alt) {
                for tgt in ALL_TARGETS {
                    println!("C08.compile\t{}\tall\t1\t-\thex:{}", tgt.name(), hex(text.as_bytes()));
                }
            }
        }
        return;
    }
    if args.extra.iter().any(|e| e == "propsprobe") {
        // one request per variant of the property / attribute / redefinition sweep (development aid)
        for (k, (cat, _)) in props_variants().iter().enumerate() {
            if std::env::var("SYNPROBE_NAMES").is_ok() {
                println!("{}\t{}", k, cat);
                continue;
            }
            println!("C08.compile\tvk\tall\t1\t-\tpropone:{}", k);
        }
        return;
    }
    if let Some(cat) = args.extra.iter().find_map(|e| e.strip_prefix("synshow=")) {
        let (c, a) = cat.split_once('#').map(|(c, a)| (c, a.parse().unwrap_or(0))).unwrap_or((cat, 0));
        print!("{}", syn_single(c, a).unwrap_or_default());
        return;
    }
    if let Some(spec) = args.extra.iter().find_map(|e| e.strip_prefix("dump=")) {
        if let Some(m) = materialise(spec) {
            let mut o = std::io::stdout();
            for (n, v) in &m.defs {
                writeln!(o, "-D {:?}={:?}", n, v).unwrap();
            }
            if !m.files.is_empty() {
                writeln!(o, "==== {}", m.entry).unwrap();
            }
            o.write_all(&m.bytes).unwrap();
            for (n, b) in &m.files {
                writeln!(o, "==== {}", n).unwrap();
                o.write_all(b).unwrap();
            }
        }
        return;
    }
    let repo = std::env::var("VERIF_REPO").unwrap_or_else(|_| "/repo".into());
    let mut rng = Rng::new(args.seed);
    let scale = args.n.unwrap_or(if args.thorough() { 12 } else { 1 });

    // ---- model-diff side streams
    for _ in 0..(300 * scale.min(10)) {
        let b = gen_lex_soup(&mut rng);
        lex_case(&b, out, &mut hist);
    }
    for letters in cond_sequences(&mut rng, if args.thorough() { 7 } else { 5 }, 300 * scale.min(10) as usize) {
        cond_case(&letters, out, &mut hist);
    }

    for _ in 0..(600 * scale.min(10)) {
        let spec = gen_defscan(&mut rng);
        defscan_case(&hex(spec.as_bytes()), out, &mut hist);
    }

    // property blocks with a model prediction (their own random stream, so that the plan below does not depend on them)
    {
        let mut prng = Rng::new(args.seed ^ 0x7069_7065);
        for (kind, names) in pipeprops_fixed() {
            pipeprops_case(&kind, &names, out, &mut hist);
        }
        for _ in 0..(400 * scale.min(10)) {
            let (kind, names) = gen_pipeprops(&mut prng);
            pipeprops_case(&kind, &names, out, &mut hist);
        }
    }

    // ---- the property's own oracle: compile under supervision
    let reqs = plan(&mut rng, scale, args.thorough(), &repo, &mut hist);
    let lines: Vec<String> = reqs.iter().map(|r| r.line()).collect();
    let t0 = Instant::now();
    // phase 1: every input once (its first configuration); phase 2: the other configurations of the inputs that
    // did not kill or hang the worker (a front-end crash would repeat identically on every target)
    let first: Vec<usize> = (0..reqs.len()).filter(|&i| i == 0 || reqs[i].input != reqs[i - 1].input).collect();
    let l1: Vec<String> = first.iter().map(|&i| lines[i].clone()).collect();
    let r1 = supervise(&l1, jobs);
    let mut rs: Vec<Option<Res>> = (0..reqs.len()).map(|_| None).collect();
    let mut crashed: std::collections::BTreeSet<String> = std::collections::BTreeSet::new();
    for (&i, r) in first.iter().zip(r1) {
        if r.oracle.starts_with("FAIL:died") || r.oracle.starts_with("FAIL:timeout") {
            crashed.insert(reqs[i].input.clone());
        }
        rs[i] = Some(r);
    }
    let rest: Vec<usize> = (0..reqs.len()).filter(|&i| rs[i].is_none() && !crashed.contains(&reqs[i].input)).collect();
    let l2: Vec<String> = rest.iter().map(|&i| lines[i].clone()).collect();
    for (&i, r) in rest.iter().zip(supervise(&l2, jobs)) {
        rs[i] = Some(r);
    }
    // an exceeded time budget is confirmed by a second, solitary run (the machine is shared)
    let slow_idx: Vec<usize> = (0..reqs.len()).filter(|&i| rs[i].as_ref().is_some_and(|r| r.oracle.starts_with("FAIL:slow"))).collect();
    let mut slow_unconfirmed = 0u64;
    for i in slow_idx {
        if let Some(again) = supervise_seq(&[lines[i].clone()]).into_iter().next() {
            if !again.oracle.starts_with("FAIL:slow") {
                slow_unconfirmed += 1;
                rs[i] = Some(again);
            }
        }
    }
    let mut skipped_after_crash = 0u64;
    let rs: Vec<Res> = rs
        .into_iter()
        .map(|r| {
            r.unwrap_or_else(|| {
                skipped_after_crash += 1;
                Res { obs: "not-run".into(), oracle: "SKIP:the same input already killed or hung a worker on another configuration".into(), micros: 0, nbytes: 0 }
            })
        })
        .collect();
    let wall = t0.elapsed().as_secs_f64();

    // syntactic categories: by construction for the syn stream (emitted / reached the end of compile()), by a
    // substring detector for every other in-memory stream (one count per distinct input)
    {
        let mut seen: std::collections::BTreeSet<&str> = std::collections::BTreeSet::new();
        for (q, r) in reqs.iter().zip(&rs) {
            let kind = q.input.split(':').next().unwrap_or("?");
            let ok = r.obs.starts_with("ok:");
            if kind == "synone" && ok {
                if let Some(c) = q.input.split(':').nth(1).and_then(|s| s.parse::<usize>().ok()).and_then(|k| syn_variants().get(k).map(|v| v.0)) {
                    hist.add(&format!("catok/syn/{}", c));
                }
            }
            if kind == "syn" {
                if let Some(seed) = q.input.split(':').nth(1).and_then(|s| s.parse::<u64>().ok()) {
                    if ok {
                        for c in &gen_syn(&mut Rng::new(seed)).cats {
                            hist.add(&format!("catok/syn/{}", c));
                        }
                    }
                }
            }
            if matches!(kind, "repo" | "rmut" | "bytes" | "hex" | "hexd" | "hexm") || !seen.insert(q.input.as_str()) {
                continue;
            }
            if let Some(m) = materialise(&q.input) {
                let mut text = String::from_utf8_lossy(&m.bytes).to_string();
                for (_, b) in &m.files {
                    text.push_str(&String::from_utf8_lossy(b));
                }
                for c in detect_categories(&text) {
                    hist.add(&format!("det/{}/{}", kind, c));
                }
            }
        }
        for k in ["toks", "rep", "gram", "gmut", "feat", "prog", "pmut", "syn", "synmut", "props", "propone", "cyc", "cycone", "pp", "ppmut"] {
            for (c, _) in SYN_NEEDLES {
                hist.0.entry(format!("det/{}/{}", k, c)).or_insert(0);
            }
        }
    }

    // distributions and timing
    let mut worst_ratio = 0.0f64; // ns per byte^2, inputs >= 512 bytes
    let mut worst_ms = 0u64;
    let mut total_bytes = 0usize;
    let mut size_hist = [0u64; 6];
    for (q, r) in reqs.iter().zip(&rs) {
        let kind = q.input.split(':').next().unwrap_or("?").to_string();
        let outcome = r.obs.split(':').next().unwrap_or("?").to_string();
        hist.add(&format!("kind={}", kind));
        hist.add(&format!("outcome={}", outcome));
        hist.add(&format!("{}/{}", kind, outcome));
        hist.add(&format!("target={}", q.tgt.name()));
        hist.add(&format!("mode={}", match q.mode { Mode::All => "all", Mode::Named(_) => "named", Mode::NoPipeline => "nopipeline" }));
        hist.add(&format!("layout={}", q.layout as u8));
        if outcome == "err" {
            let msg = r.obs.splitn(2, ": ").last().unwrap_or("");
            let word: String = msg.split(|c: char| !c.is_alphanumeric() && c != ' ').next().unwrap_or("").chars().take(28).collect();
            hist.add(&format!("err/{}", word.trim()));
        }
        total_bytes += r.nbytes;
        size_hist[match r.nbytes { 0..=63 => 0, 64..=255 => 1, 256..=1023 => 2, 1024..=4095 => 3, 4096..=16383 => 4, _ => 5 }] += 1;
        worst_ms = worst_ms.max(r.micros / 1000);
        if r.nbytes >= 512 {
            worst_ratio = worst_ratio.max(r.micros as f64 * 1000.0 / (r.nbytes as f64 * r.nbytes as f64));
        }
    }

    // crashes and hangs: find the stage (part of the finding key), minimise the first input of every key
    let mut shrunk: Vec<(String, Res)> = Vec::new();
    let mut done: std::collections::BTreeSet<String> = std::collections::BTreeSet::new();
    let mut oracles: Vec<String> = rs.iter().map(|r| r.oracle.clone()).collect();
    let mut shrink_runs = 0usize;
    let known = known_keys();
    let mut stage_cache: std::collections::BTreeMap<(String, bool), String> = std::collections::BTreeMap::new();
    for (i, r) in rs.iter().enumerate() {
        if !r.oracle.starts_with("FAIL") {
            continue;
        }
        let mut key = base_key(&r.oracle);
        let slow = key.starts_with("slow");
        let crash = key.starts_with("died") || key.starts_with("timeout") || slow;
        if crash {
            let ck = (reqs[i].input.clone(), reqs[i].tgt == Tgt::Msl);
            let stage = stage_cache.entry(ck).or_insert_with(|| if slow { diagnose2(&lines[i]).1 } else { diagnose(&lines[i]) }).clone();
            oracles[i] = format!("{} stage={}", r.oracle, stage);
            key = format!("{} stage={}", key, stage);
            // a VALID call-graph program that crashes / hangs / overruns is never one of the listed findings (their inputs are
            // pathological by size or nesting): keep it apart from the coarse (signal, stage) keys, replay = the spec itself
            let is_cyc = reqs[i].input.starts_with("cyc:") || reqs[i].input.starts_with("cycone:");
            if is_cyc && known.contains(&key) {
                oracles[i] = format!("FAIL:valid call-graph program: {} stage={}", r.oracle.trim_start_matches("FAIL:"), stage);
                continue;
            }
        }
        if done.contains(&key) || (known.contains(&key) && std::env::var("VERIF_SHRINK_KNOWN").is_err()) {
            continue;
        }
        done.insert(key.clone());
        let budget = if key.starts_with("timeout") { 24 } else if crash { 80 } else { 200 };
        let (small, mut res, runs) = shrink(&reqs[i], &base_key(&r.oracle), budget, jobs);
        shrink_runs += runs;
        if crash {
            let cls = materialise(&small.input).map(|m| input_class(&m.bytes)).unwrap_or_default();
            let stage = format!(" stage={}", if slow { diagnose2(&small.line()).1 } else { diagnose(&small.line()) });
            res.oracle = format!("{}{} class={}", res.oracle, stage, cls);
        }
        shrunk.push((small.line(), res));
    }
    // minimised failures first (the check reports the first request of every finding key)
    for (line, r) in &shrunk {
        emit(out, line, r);
    }
    for ((line, r), oracle) in lines.iter().zip(&rs).zip(&oracles) {
        out.case(line, &r.obs, oracle);
    }
    out.stat(&format!(
        "{{\"compile_requests\":{},\"skipped_after_crash\":{},\"slow_not_confirmed\":{},\"jobs\":{},\"wall_s\":{:.1},\"bytes_total\":{},\"size_buckets_lt64_256_1k_4k_16k_more\":{:?},\
         \"worst_ms\":{},\"worst_ns_per_byte2_over_512B\":{:.2},\"budget\":\"{} ms + n^2 * {} ns, watchdog {} ms, stack {} MB\",\
         \"shrink_runs\":{},\"minimised_failures\":{},\"hist\":{}}}",
        lines.len(), skipped_after_crash, slow_unconfirmed, jobs, wall, total_bytes, size_hist, worst_ms, worst_ratio, BUDGET_BASE_MS, BUDGET_NS_PER_BYTE2, WATCHDOG_MS,
        STACK_BYTES >> 20, shrink_runs, shrunk.len(), hist.json()
    ));
}

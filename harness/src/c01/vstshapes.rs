//! Statement shapes of the vector stream (C01.vfn, every tier): if / else / loops with empty and non-empty sides under
//! comparisons of float *components* (swizzle, subscript, component of a vector comparison), on vectors that contain NaN,
//! both zeros and infinities.  Sibling of `stshapes.rs` (scalar stream): the two Rust evaluators judge.
#![allow(dead_code)]

/// conditions over `float3 v, float3 w, int k`
pub const CONDS: [(&str, &str); 10] = [
    ("lt-x", "v.x < w.x"),
    ("ge-yz", "v.y >= w.z"),
    ("le-idx", "v[1] <= w[k & 1]"),
    ("gt-swz", "v.zy.x > w.xz.y"),
    ("cmpvec-comp", "(v < w).y"),
    ("not-le", "!(v.z <= w.z)"),
    ("self-eq", "v.x == v.x"),
    ("ne", "v.y != w.y"),
    ("cast-sc", "(float)v < (float)w"),
    ("len", "v.x < w.x && w.y >= v.y"),
];

const BODIES: [(&str, &str, &str); 4] = [
    ("empty-block", "{\n    }", "{\n    }"),
    ("empty-stmt", ";", ";"),
    ("block", "{\n        r.x += 1.0f;\n    }", "{\n        r.yz = w.xy;\n    }"),
    ("bare", "r = v.zyx;", "r.z = 2.0f;"),
];

const FORMS: [(&str, &str); 8] = [
    ("tern-vec", "    r = ($C) ? v : w;"),
    ("tern-comp", "    r.y = ($C) ? v.x : w.z;"),
    ("for-cond", "    for (int i = 0; i < 3 && ($C); ++i)\n    {\n        r += w;\n    }"),
    ("while-empty", "    while (k++ < 3 && ($C))\n        ;\n    r.x = (float)k;"),
    ("do-cond", "    do\n    {\n        r -= v;\n    }\n    while (($C) && ++k < 3);"),
    ("loop-empty-else-break", "    for (int i = 0; i < 3; ++i)\n    {\n        if ($C)\n        {\n        }\n        else\n        {\n            break;\n        }\n        r.z += 1.0f;\n    }"),
    ("else-if", "    if ($C)\n    {\n    }\n    else if (v.z > w.z)\n        ;\n    else\n    {\n        r = w;\n    }"),
    ("empty-else-return", "    if ($C)\n    {\n    }\n    else\n    {\n        return w;\n    }"),
];

pub fn grid_text() -> String {
    [
        // NaN against ordinary, ordinary against NaN, both NaN in different components
        "V(f:7fc00000 f:3f800000 f:7fc00000),V(f:3f800000 f:7fc00000 f:7fc00001),i:00000000",
        "V(f:3f800000 f:40000000 f:40400000),V(f:40000000 f:3f800000 f:40400000),i:00000001",
        "V(f:80000000 f:7f800000 f:ff800000),V(f:00000000 f:7f800000 f:7f800000),i:00000000",
        "V(f:40400000 f:ffc00000 f:00000001),V(f:7fc00000 f:bf800000 f:00000000),i:00000005",
        "V(f:7f7fffff f:00800000 f:bf800000),V(f:7f800000 f:007fffff f:c0000000),i:00000001",
        "V(f:00000000 f:00000000 f:00000000),V(f:00000000 f:00000000 f:00000000),i:00000000",
    ]
    .join(";")
}

fn func(body: &str) -> String {
    format!("float3 f1(float3 v, float3 w, int k)\n{{\n    float3 r = float3(0.0f, 0.0f, 0.0f);\n{}\n    return r;\n}}\n", body)
}

pub fn stream() -> Vec<(String, String)> {
    let mut out = Vec::new();
    for (cn, c) in CONDS {
        for (tn, tt, _) in BODIES {
            out.push((format!("vif[{}]:{}", cn, tn), func(&format!("    if ({})\n    {}", c, tt))));
            for (en, _, et) in BODIES {
                out.push((format!("vifelse[{}]:{}/{}", cn, tn, en), func(&format!("    if ({})\n    {}\n    else\n    {}", c, tt, et))));
            }
        }
        for (fname, f) in FORMS {
            out.push((format!("v{}[{}]", fname, cn), func(&f.replace("$C", c))));
        }
    }
    out
}

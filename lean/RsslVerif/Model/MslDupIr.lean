import RsslVerif.Model.MslDup
import RsslVerif.Model.IrVec
/-!
# The typed IR of the Lean models as trees of `ir::Expression` constructors

`toD` (scalar subset, `Model.Ir`) and `toDV` (vector layer, `Model.IrVec`) give the constructor tree the exporter's local
tests (`Model.MslDup.testD`, table driven) look at: constructor names, fields in declaration order, the operator of an
`IntrinsicOp` as its index in `intrinsicOpNames`; every other payload (ids, types, slots) is abstracted.  Core Lean only.
-/
namespace RsslVerif.Model.MslDup
open RsslVerif.Gen.HlslGenTables RsslVerif.Gen.MslGenTables RsslVerif.Model RsslVerif.Model.IrVec

mutual
/-- the typed scalar IR of C01 as a tree of `ir::Expression` constructors -/
def toD : Ir.Expr → DExpr
  | .lit _ => .node "Literal" (.payload 0 .nil)
  | .var id => .node "Variable" (.payload id .nil)
  | .global id => .node "Global" (.payload id .nil)
  | .op o args => .node "IntrinsicOp" (.payload (intrinsicOpIdx o) (.many (toDs args) .nil))
  | .tern c t f => .node "TernaryConditional" (.one (toD c) (.one (toD t) (.one (toD f) .nil)))
  | .seq es => .node "Sequence" (.many (toDs es) .nil)
  | .cast _ e => .node "Cast" (.payload 0 (.one (toD e) .nil))
  | .call f args => .node "Call" (.payload f (.payload 0 (.many (toDs args) .nil)))
  | .intr _ _ _ args => .node "Call" (.payload 0 (.payload 0 (.many (toDs args) .nil)))
def toDs : Ir.Exprs → DExprs
  | .nil => .nil
  | .cons e r => .cons (toD e) (toDs r)
end

mutual
/-- the vector layer as a tree of `ir::Expression` constructors -/
def toDV : VExpr → DExpr
  | .sc e => toD e
  | .vvar id => .node "Variable" (.payload id .nil)
  | .vglobal id => .node "Global" (.payload id .nil)
  | .cast _ e => .node "Cast" (.payload 0 (.one (toDV e) .nil))
  | .swz e _ => .node "Swizzle" (.one (toDV e) (.payload 0 .nil))
  | .ctor _ slots => .node "Constructor" (.payload 0 (.many (toDVSlots slots) .nil))
  | .op o args => .node "IntrinsicOp" (.payload (intrinsicOpIdx o) (.many (toDVs args) .nil))
  | .tern c t f => .node "TernaryConditional" (.one (toDV c) (.one (toDV t) (.one (toDV f) .nil)))
def toDVs : VExprs → DExprs
  | .nil => .nil
  | .cons e r => .cons (toDV e) (toDVs r)
def toDVSlots : VSlots → DExprs
  | .nil => .nil
  | .cons _ e r => .cons (toDV e) (toDVSlots r)
end

end RsslVerif.Model.MslDup

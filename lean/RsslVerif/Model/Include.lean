import RsslVerif.Model.Macro
/-!
# Model of the directive loop, `FileLoader`, `#include` and `#pragma once` (C12)

Mirrors `preprocess_included_file` (the line state machine: text lines are collected in `active_tokens`, with their
line ends, and macro-expanded as one block when the next directive -- or the end of the file -- is reached),
the `define` / `undef` / `include` / `pragma` arms of `preprocess_command`, `FileLoader::load` /
`mark_as_pragma_once`, and `preprocess_initial_file` (API-level defines go through the `#define` path since 9f7cdb8;
a value that contains a line end is rejected since 3c81ed5).

Representation choices:
* a file is the list of its lines, a line is its token list (the lexer is C10's concern; the harness checks with the
  real lexer that every rendered line lexes to exactly the tokens of the request);
* `pragma_once_files` is a set of `FileId`s.  Since fix d66a6d7 `FileLoader::load` gives one `FileId` to every distinct
  *real name* the include handler reports (`real_name_remap`; `file_name_remap` only caches include name ↦ id), so the
  ids are in bijection with the real names seen so far and the set is modelled as a list of real names: a file
  reached under a second include name is the same file.  (Before the fix every include name had its own id.)
  The handler returns `FileData { real_name, contents }`: here `(real name, lines)`.  The contents the loader serves
  for an id are those stored when the real name was first seen (`source_manager.get_contents(id)`); with an include
  handler that reports one content per real name (assumption; the driver answers `unsupported` for a request that
  gives two contents to one real name) that is what the handler returns, and the caches are not observable.
* the recursion of `preprocess_included_file` through `#include` is bounded by `fuel`; since fix 6b8d369 the Rust
  code has the bound `MAX_INCLUDE_DEPTH` (tested before the file is loaded): run with
  `fuel = Gen.MacroTables.maxIncludeDepth`, `Err.includeFuel` is exactly `IncludeDepthExceeded`.
* conditional directives belong to C11 and are answered `unsupported`.
-/
namespace RsslVerif.Model.Include
open RsslVerif.Model.Macro

inductive Line where
  /-- `#define` followed by these tokens -/
  | define (toks : List PTok)
  | undef (toks : List PTok)
  | incl (name : String)
  | pragmaOnce
  /-- `#pragma warning ...`: a directive without effect -/
  | pragmaWarning
  /-- a line that is not a directive -/
  | text (toks : List PTok)
  /-- a directive line that `preprocess_command` rejects whatever the state: `#pragma` with an unknown or missing name
  (`UnknownPragma`), a directive name that is none (`UnknownCommand`), `#include` whose operand is not one string literal
  / header name (`InvalidInclude`).  The pending text was flushed when the `#` was met, so an error of that text wins -/
  | rejected (e : Err)
  /-- the null directive: `#` alone on its line (C11 6.10.7).  The `#` flushes the pending text like every directive; the
  line end that follows is met in state `CommandStart` and goes to `active_tokens` (arm `(Token::Endline, _)`) -/
  | null
  deriving DecidableEq, Repr, Inhabited

/-- the include handler: include name ↦ `FileData { real_name, contents }` = (real name, lines of the file) -/
abbrev Handler := String → Option (String × List Line)

structure State where
  /-- `macros: Vec<Macro>` in definition order -/
  macros : List Macro
  /-- the output buffer -/
  out : List PTok
  /-- `FileLoader.pragma_once_files`: the `FileId`s, each named by the real name it was created for (fix d66a6d7) -/
  once : List String
  deriving DecidableEq, Repr, Inhabited

def eol : PTok := ⟨.endline, true⟩

/-- `flush_normal` (the condition chain is always active here) -/
def flush (st : State) (active : List PTok) : Except Err State :=
  match applyMacros st.macros active with
  | .error e => .error e
  | .ok ts => .ok { st with out := st.out ++ ts }

/-- `macros.retain(|m| m.name != name)` -/
def removeNamed (n : String) : List Macro → List Macro
  | [] => []
  | m :: r => if m.name = n then removeNamed n r else m :: removeNamed n r

/-- the `define` arm -/
def doDefine (macros : List Macro) (command : List PTok) : Except Err (List Macro) :=
  match parseDefine command with
  | .error e => .error e
  | .ok m => .ok (removeNamed m.name macros ++ [m])

/-- the `undef` arm (with its `assert_eq!(current_count + 1, previous_count)`) -/
def doUndef (macros : List Macro) (command : List PTok) : Except Err (List Macro) :=
  match trim command with
  | [⟨.id s, _⟩] =>
    let kept := removeNamed s macros
    if kept.length = macros.length then .ok kept
    else if kept.length + 1 = macros.length then .ok kept
    else .error (.panic "preprocess/src/preprocess.rs: assertion `left == right` failed")
  | _ => .error .invalidUndef

/-- One line of the current file. `inc` processes an included file (the recursive call);
`cur` is the `FileId` of the current file (= its real name). The pair is (state, `active_tokens`). -/
def stepLine (inc : String → State → Except Err State) (cur : String) :
    State × List PTok → Line → Except Err (State × List PTok)
  | (st, active), .text toks => .ok (st, active ++ toks ++ [eol])
  | (st, active), .define cmd =>
    match flush st active with
    | .error e => .error e
    | .ok st =>
      match doDefine st.macros cmd with
      | .error e => .error e
      | .ok ms => .ok ({ st with macros := ms }, [])
  | (st, active), .undef cmd =>
    match flush st active with
    | .error e => .error e
    | .ok st =>
      match doUndef st.macros cmd with
      | .error e => .error e
      | .ok ms => .ok ({ st with macros := ms }, [])
  | (st, active), .pragmaWarning =>
    match flush st active with
    | .error e => .error e
    | .ok st => .ok (st, [])
  | (st, active), .pragmaOnce =>
    match flush st active with
    | .error e => .error e
    | .ok st => .ok ({ st with once := cur :: st.once }, [])
  | (st, active), .incl name =>
    match flush st active with
    | .error e => .error e
    | .ok st =>
      match inc name st with
      | .error e => .error e
      | .ok st => .ok (st, [])
  | (st, active), .rejected e =>
    match flush st active with
    | .error e' => .error e'
    | .ok _ => .error e
  | (st, active), .null =>
    match flush st active with
    | .error e => .error e
    | .ok st => .ok (st, [eol])

def foldLines (inc : String → State → Except Err State) (cur : String) :
    State × List PTok → List Line → Except Err (State × List PTok)
  | s, [] => .ok s
  | s, l :: rest =>
    match stepLine inc cur s l with
    | .error e => .error e
    | .ok s' => foldLines inc cur s' rest

/-- an empty file still yields the line end the lexer adds at the end of every file that does not end with one -/
def fileStart : List Line → List PTok
  | [] => [eol]
  | _ => []

/-- `preprocess_included_file` on the lines of one file -/
def runFile (inc : String → State → Except Err State) (cur : String) (st : State) (lines : List Line) :
    Except Err State :=
  match foldLines inc cur (st, fileStart lines) lines with
  | .error e => .error e
  | .ok (st, active) => flush st active

/-- `FileLoader::load` followed by `preprocess_included_file`: the file's id is the one of its *real name*
(`real_name_remap`, fix d66a6d7); a file whose id is in `pragma_once_files` is served with empty contents -/
def includeFile (h : Handler) : Nat → String → State → Except Err State
  | 0, _, _ => .error .includeFuel
  | fuel + 1, name, st =>
    match h name with
    | none => .error (.failedToFindFile name)
    | some (real, lines) =>
      if st.once.contains real then runFile (includeFile h fuel) real st []
      else runFile (includeFile h fuel) real st lines

/-- An API-level define `(name, value)`: `preprocess_initial_file` registers the text `name value` as a file of its
own (`<define>`), lexes it with that location and without a trailing line end, and hands the tokens to
`Macro::parse`.  Both parts are given here as the tokens they lex to (a name such as `F(x)` is the four tokens
`F ( x )`, so it defines a function-like macro); the blank is the one `format!("{name} {value}")` inserts. -/
structure ApiDefine where
  name : List Tok
  value : List Tok
  deriving DecidableEq, Repr, Inhabited

def located (ts : List Tok) : List PTok := ts.map (⟨·, true⟩)

/-- the tokens handed to `Macro::parse` -/
def apiCommand (d : ApiDefine) : List PTok := located d.name ++ ⟨.ws, true⟩ :: located d.value

/-- "A define is a single line so the value can not contain a line break" (fix 3c81ed5):
`tokens.iter().any(|t| t.0 == Token::Endline)` -/
def hasLineBreak (d : ApiDefine) : Bool := (apiCommand d).any (fun t => t.tok == .endline)

/-- "Add initial macros": reject a line break, then parse, remove an earlier macro of that name, push -- the
`#define` arm -/
def initialMacros : List Macro → List ApiDefine → Except Err (List Macro)
  | ms, [] => .ok ms
  | ms, d :: ds =>
    if hasLineBreak d then .error .invalidDefine
    else
      match doDefine ms (apiCommand d) with
      | .error e => .error e
      | .ok ms' => initialMacros ms' ds

/-- `preprocess_initial_file` on the lines of the entry file, `inc` = processing of an included file -/
def runInitial (inc : String → State → Except Err State) (entry : String) (api : List ApiDefine)
    (lines : List Line) : Except Err State :=
  match initialMacros [] api with
  | .error e => .error e
  | .ok ms => runFile inc entry { macros := ms, out := [], once := [] } lines

/-- `preprocess`: load the entry file, install the initial defines, run -/
def preprocess (h : Handler) (fuel : Nat) (api : List ApiDefine) (entry : String) :
    Except Err (List PTok) :=
  match h entry with
  | none => .error (.failedToFindFile entry)
  | some (real, lines) =>
    match runInitial (includeFile h fuel) real api lines with
    | .error e => .error e
    | .ok st => .ok st.out

/-- `prepare_tokens`: drop white space (`MacroArg` cannot survive; its assertion is a panic site) -/
def prepare (ts : List PTok) : Except Err (List Tok) :=
  if ts.any (fun t => match t.tok with | .arg _ => true | _ => false) then
    .error (.panic "assert !matches!(t.0, Token::MacroArg(_))")
  else .ok ((ts.filter (fun t => !t.tok.isWhitespace)).map (·.tok))

end RsslVerif.Model.Include

//! C10 on multi-file inputs: "the token spans of every source file tile it ... every diagnostic position lies inside
//! the file" when the tokens come from included files, macro bodies, defines passed to the compiler and `##` results
//! (which live in synthetic `<scratch space>` files of the `SourceManager`).
//!
//! request : C10.pp \t <defines> \t <files>
//!             defines = `name_hex=value_hex` joined by `,` (or `-`); files = `name_hex:contents_hex` joined by `,`,
//!             the first one is the entry file. The real preprocessor runs on them with a `SourceManager` of our own.
//!           C10.loc \t <files> \t <raw locations joined by `,`>
//!             the files are added to a fresh `SourceManager` in this order; every raw location is decoded with
//!             `get_file_offset_from_source_location` and `get_file_location` (answered by the model too)
//!           C10.diag \t <expectation> \t <defines> \t <files>
//!             preprocess + parse + type check of a program with one injected error; expectation =
//!             `-` | `in:<file name hex>` | `lex:<file name hex>` (a lexer diagnostic at the offset the single-file
//!             lexing of that file reports)
//! observe : pp  : `files=<name:len,..> toks=<n> from=<file index:count,..>` [` !err <first line>`]
//!           loc : per location `index:offset:line:col` or `none`
//!           diag: the first line of the diagnostic (or `ok`)
//! oracle  : pp  : every token's start and end decode to one loaded file, `start <= end <= |file|`; the token is a
//!                 token of that file's own tiling (same span, same kind and payload — the file lexed on its own by
//!                 `TokenStream`, which `C10.lex` ties to the model); a probe diagnostic rendered at the token names
//!                 that file, a line and column inside it (counted independently), shows that line and puts the
//!                 caret under the column; a preprocessor error is positioned inside a loaded file
//!           loc : decoded positions are inside their file and re-encode to the raw value; both decoders agree
//!           diag: every `name:line:col` of the rendered diagnostic lies inside a loaded file of that name
use super::*;
use rssl::text::{CompileError, CompileErrorExt, FileName, MessagePrinter, Severity, SourceLocation};

struct Probe(SourceLocation);

impl CompileError for Probe {
    fn print(&self, w: &mut MessagePrinter) -> std::fmt::Result {
        w.write_message(&|f| write!(f, "probe"), self.0, Severity::Error)
    }
}

fn enc_files(files: &[(String, String)]) -> String {
    files.iter().map(|(n, c)| format!("{}:{}", hex(n.as_bytes()), hex(c.as_bytes()))).collect::<Vec<_>>().join(",")
}

fn dec_pairs(s: &str, sep: char) -> Option<Vec<(String, String)>> {
    if s == "-" || s.is_empty() {
        return Some(Vec::new());
    }
    s.split(',')
        .map(|p| {
            let (a, b) = p.split_once(sep)?;
            Some((String::from_utf8(unhex(a)?).ok()?, String::from_utf8(unhex(b)?).ok()?))
        })
        .collect()
}

fn enc_defines(d: &[(String, String)]) -> String {
    if d.is_empty() {
        "-".to_string()
    } else {
        d.iter().map(|(n, c)| format!("{}={}", hex(n.as_bytes()), hex(c.as_bytes()))).collect::<Vec<_>>().join(",")
    }
}

/// the files of a manager in the order they were added: (index, name, contents, base)
fn manager_files(sm: &SourceManager) -> Vec<(String, String, u32)> {
    let mut v = Vec::new();
    let mut loc = SourceLocation::first();
    let mut raw = 0u32;
    while let Some((fid, off)) = sm.get_file_offset_from_source_location(loc) {
        if off.0 != 0 {
            break;
        }
        let contents = sm.get_contents(fid).to_string();
        let name = sm.get_file_name(fid).to_string();
        let len = contents.len() as u32;
        v.push((name, contents, raw));
        raw += len + 1;
        loc = SourceLocation::first().offset(raw);
    }
    v
}

fn file_index(fid: rssl::text::FileId) -> usize {
    let s = format!("{:?}", fid);
    s.trim_start_matches("FileId(").trim_end_matches(')').parse().unwrap_or(usize::MAX)
}

/// line and column of a byte offset, counted the way the property means it (1-based, columns in bytes)
fn line_col(contents: &str, off: usize) -> (u32, u32) {
    let b = contents.as_bytes();
    let mut line = 1u32;
    let mut start = 0usize;
    for (i, c) in b[..off.min(b.len())].iter().enumerate() {
        if *c == b'\n' {
            line += 1;
            start = i + 1;
        }
    }
    (line, (off - start) as u32 + 1)
}

fn line_text(contents: &str, off: usize) -> &str {
    let b = contents.as_bytes();
    let off = off.min(b.len());
    let start = b[..off].iter().rposition(|c| *c == b'\n').map(|i| i + 1).unwrap_or(0);
    let end = b[off..].iter().position(|c| *c == b'\n').map(|i| off + i).unwrap_or(b.len());
    &contents[start..end]
}

/// every `name:line:col: error|note: ...` header of a rendered diagnostic with the two lines printed after it
fn headers(text: &str) -> Vec<(String, u32, u32, String, String)> {
    let lines: Vec<&str> = text.split('\n').collect();
    let mut v = Vec::new();
    for (i, l) in lines.iter().enumerate() {
        for sev in [": error: ", ": note: "] {
            if let Some(p) = l.find(sev) {
                let head = &l[..p];
                let mut it = head.rsplitn(3, ':');
                let (Some(c), Some(li), Some(n)) = (it.next(), it.next(), it.next()) else { continue };
                if let (Ok(c), Ok(li)) = (c.parse::<u32>(), li.parse::<u32>()) {
                    v.push((
                        n.to_string(),
                        li,
                        c,
                        lines.get(i + 1).unwrap_or(&"").to_string(),
                        lines.get(i + 2).unwrap_or(&"").to_string(),
                    ));
                    break;
                }
            }
        }
    }
    v
}

/// "every diagnostic position lies inside the file": each header names a loaded file, a line of it, a column of that
/// line (one past the end allowed: end of line / end of file), shows that line and puts the caret under the column
fn check_rendered(text: &str, files: &[(String, String, u32)]) -> Result<usize, String> {
    let hs = headers(text);
    for (name, line, col, src, caret) in &hs {
        let mut reasons: Vec<String> = Vec::new();
        let mut ok = false;
        for (n, contents, _) in files.iter().filter(|f| f.0 == *name) {
            let _ = n;
            let lines: Vec<&str> = contents.split('\n').collect();
            if *line == 0 || *line as usize > lines.len() {
                reasons.push(format!("line {} of {} lines", line, lines.len()));
                continue;
            }
            let lt = lines[*line as usize - 1];
            if *col == 0 || *col as usize > lt.len() + 1 {
                reasons.push(format!("column {} of a line of {} bytes", col, lt.len()));
                continue;
            }
            if lt != src {
                reasons.push("the source line shown is not that line".to_string());
                continue;
            }
            if *caret != format!("{}^", " ".repeat(*col as usize - 1)) {
                reasons.push("the caret is not under the column".to_string());
                continue;
            }
            ok = true;
            break;
        }
        if !ok {
            if reasons.is_empty() {
                return Err(format!("diagnostic names {:?} which is not a loaded file", name));
            }
            return Err(format!("diagnostic position {}:{}:{} is not inside the file ({})", name, line, col, reasons[0]));
        }
    }
    Ok(hs.len())
}

fn same_token(a: &Token, b: &Token) -> bool {
    match (a, b) {
        // the look-ahead of `<` / `>` sees the neighbour, which is the same neighbour in the file's own tiling
        (Token::LiteralFloat(x), Token::LiteralFloat(y)) | (Token::LiteralFloat64(x), Token::LiteralFloat64(y)) => x.to_bits() == y.to_bits(),
        (Token::LiteralFloat16(x), Token::LiteralFloat16(y)) | (Token::LiteralFloat32(x), Token::LiteralFloat32(y)) => x.to_bits() == y.to_bits(),
        _ => a == b,
    }
}

/// the file lexed on its own, token by token, as the preprocessor does (header names after `#include`)
fn own_tiling(contents: &str) -> Vec<(Token, u32, u32)> {
    let mut sm = SourceManager::new();
    let (_f, base) = sm.add_fragment(contents);
    let mut ts = TokenStream::new(contents, base);
    let mut v = Vec::new();
    // state machine of `preprocess_included_file` for `inside_include`
    let (mut at_line_start, mut in_command, mut inside_include) = (true, false, false);
    let mut command_first = false;
    while !ts.end_of_stream() {
        let Ok(Ok(t)) = guard(|| ts.next(inside_include)) else { break };
        let tok = t.0.clone();
        v.push((tok.clone(), t.get_location().get_raw(), t.get_end_location().get_raw()));
        match &tok {
            Token::Endline => {
                at_line_start = true;
                in_command = false;
                inside_include = false;
                command_first = false;
            }
            t if t.is_whitespace() => {}
            Token::Hash if at_line_start => {
                in_command = true;
                command_first = true;
                at_line_start = false;
            }
            Token::Id(id) if in_command && command_first => {
                inside_include = id.0 == "include";
                command_first = false;
            }
            _ => {
                at_line_start = false;
                command_first = false;
            }
        }
        if v.len() > contents.len() + 2 {
            break;
        }
    }
    v
}

pub fn run_pp(defines: &[(String, String)], files: &[(String, String)], hist: &mut Hist) -> (String, String, Vec<(String, String, u32)>, Vec<u32>) {
    let mut sm = SourceManager::new();
    let mut inc = MemFiles(files.to_vec());
    let defs: Vec<(&str, &str)> = defines.iter().map(|(a, b)| (a.as_str(), b.as_str())).collect();
    let entry = files.first().map(|f| f.0.clone()).unwrap_or_default();
    let r = guard(|| rssl_preprocess::preprocess(&entry, &mut sm, &mut inc, &defs));
    let mfiles = manager_files(&sm);
    let mut fails: Vec<String> = Vec::new();
    let mut obs = format!(
        "files={}",
        mfiles.iter().map(|(n, c, _)| format!("{}:{}", hex(n.as_bytes()), c.len())).collect::<Vec<_>>().join(",")
    );
    let mut raws: Vec<u32> = Vec::new();
    match r {
        Err(p) => {
            obs.push_str(&format!(" !panic {}", p));
            fails.push(format!("panic {}", p));
        }
        Ok(Err(e)) => {
            let text = format!("{}", e.display(&sm));
            hist.add("pp.error");
            hist.add(&format!("pp.err.{}", text.lines().next().unwrap_or("").rsplit(": ").next().unwrap_or("")));
            obs.push_str(&format!(" !err {}", one_line(text.lines().next().unwrap_or(""))));
            match guard(|| check_rendered(&text, &mfiles)) {
                Ok(Ok(_)) => {}
                Ok(Err(m)) => fails.push(m),
                Err(p) => fails.push(format!("panic while checking {}", p)),
            }
        }
        Ok(Ok(toks)) => {
            hist.add("pp.ok");
            let tilings: Vec<Vec<(Token, u32, u32)>> = mfiles.iter().map(|(_, c, _)| own_tiling(c)).collect();
            let mut per = vec![0u64; mfiles.len()];
            for (k, t) in toks.iter().enumerate() {
                let (s, e) = (t.get_location(), t.get_end_location());
                let (ds, de) = (sm.get_file_offset_from_source_location(s), sm.get_file_offset_from_source_location(e));
                let (Some((f1, o1)), Some((f2, o2))) = (ds, de) else {
                    fails.push(format!("token {} {} has a span {}..{} outside every file", k, show_token(&t.0), s.get_raw(), e.get_raw()));
                    break;
                };
                let (i1, i2) = (file_index(f1), file_index(f2));
                if i1 != i2 || i1 >= mfiles.len() {
                    fails.push(format!("token {} {} starts in file {} and ends in file {}", k, show_token(&t.0), i1, i2));
                    break;
                }
                let (name, contents, base) = &mfiles[i1];
                if o1.0 > o2.0 || o2.0 as usize > contents.len() {
                    fails.push(format!("token {} span {}..{} is not inside {:?} of {} bytes", k, o1.0, o2.0, name, contents.len()));
                    break;
                }
                if base + o1.0 != s.get_raw() {
                    fails.push(format!("token {} decodes to offset {} of a file based at {} but its location is {}", k, o1.0, base, s.get_raw()));
                    break;
                }
                per[i1] += 1;
                hist.add(match name.as_str() {
                    "<scratch space>" => "pp.tok.scratch",
                    "<define>" => "pp.tok.define",
                    n if *n == entry => "pp.tok.entry",
                    _ => "pp.tok.included",
                });
                // the token is a token of its file's own tiling
                match tilings[i1].iter().find(|x| x.1 == o1.0) {
                    Some((tk, _, e2)) => {
                        if *e2 != o2.0 {
                            fails.push(format!(
                                "token {} {} spans {}..{} of {:?} but the file's own token there ends at {}",
                                k, show_token(&t.0), o1.0, o2.0, name, e2
                            ));
                            break;
                        }
                        if !same_token(tk, &t.0) {
                            fails.push(format!(
                                "token {} is {} but bytes {}..{} of {:?} lex as {}",
                                k, show_token(&t.0), o1.0, o2.0, name, show_token(tk)
                            ));
                            break;
                        }
                    }
                    None => {
                        fails.push(format!("token {} {} starts at {} of {:?} where no token of that file starts", k, show_token(&t.0), o1.0, name));
                        break;
                    }
                }
                // a diagnostic at the token
                if !t.0.is_whitespace() || k % 7 == 0 {
                    for (loc, off) in [(s, o1.0), (e, o2.0)] {
                        if !contents.is_char_boundary(off as usize) {
                            fails.push(format!("token {} boundary {} of {:?} is inside a character", k, off, name));
                            break;
                        }
                        let text = match guard(|| format!("{}", Probe(loc).display(&sm))) {
                            Ok(t) => t,
                            Err(p) => {
                                fails.push(format!("panic rendering a diagnostic at token {}: {}", k, p));
                                break;
                            }
                        };
                        let (l, c) = line_col(contents, off as usize);
                        let want = format!(
                            "{}:{}:{}: error: probe\n{}\n{}^\n",
                            name,
                            l,
                            c,
                            line_text(contents, off as usize),
                            " ".repeat(c as usize - 1)
                        );
                        if text != want {
                            fails.push(format!("diagnostic at token {} ({:?} offset {}) renders as {:?} expected {:?}", k, name, off, text, want));
                            break;
                        }
                        hist.add("pp.probe");
                    }
                    if !fails.is_empty() {
                        break;
                    }
                }
                if k % 5 == 0 && raws.len() < 48 {
                    raws.push(s.get_raw());
                    raws.push(e.get_raw());
                }
            }
            // `unlex` of the whole preprocessed stream: every token re-emitted from its own file by its span
            if fails.is_empty() {
                let mut want = String::new();
                for t in &toks {
                    let (Some((f1, o1)), Some((_, o2))) = (
                        sm.get_file_offset_from_source_location(t.get_location()),
                        sm.get_file_offset_from_source_location(t.get_end_location()),
                    ) else {
                        break;
                    };
                    let c = &mfiles[file_index(f1)].1;
                    let sl = &c[o1.0 as usize..o2.0 as usize];
                    if t.0 == Token::PhysicalEndline {
                        want.push_str(&sl[1..]);
                    } else if sl.is_empty() && t.0 == Token::Endline {
                        want.push('\n');
                    } else {
                        want.push_str(sl);
                    }
                }
                match guard(|| rssl_preprocess::unlex(&toks, &sm)) {
                    Ok(u) if u == want => hist.add("pp.unlex_checked"),
                    Ok(u) => fails.push(format!("unlex of the preprocessed tokens gives {:?} but their spans spell {:?}", u, want)),
                    Err(p) => fails.push(format!("unlex of the preprocessed tokens panics: {}", p)),
                }
            }
            obs.push_str(&format!(
                " toks={} from={}",
                toks.len(),
                per.iter().enumerate().filter(|(_, n)| **n > 0).map(|(i, n)| format!("{}:{}", i, n)).collect::<Vec<_>>().join(",")
            ));
        }
    }
    let orc = if fails.is_empty() { "ok".to_string() } else { format!("FAIL:{}", fails[0]) };
    (obs, orc, mfiles, raws)
}

/// `C10.loc`
pub fn run_loc(files: &[(String, String)], raws: &[u32]) -> (String, String) {
    let mut sm = SourceManager::new();
    let mut bases: Vec<u32> = Vec::new();
    let mut total = 0u32;
    for (n, c) in files {
        let fid = sm.add_file(FileName(n.clone()), c.clone());
        let _ = fid;
        bases.push(total);
        total += c.len() as u32 + 1;
    }
    let mut obs: Vec<String> = Vec::new();
    let mut fails: Vec<String> = Vec::new();
    for r in raws {
        let loc = SourceLocation::first().offset(*r);
        let d = guard(|| (sm.get_file_offset_from_source_location(loc), sm.get_file_location(loc)));
        match d {
            Err(p) => {
                obs.push(format!("!panic {}", p));
                fails.push(format!("panic decoding {}: {}", r, p));
            }
            Ok((None, fl)) => {
                obs.push("none".into());
                // a location that belongs to no file is printed as such, never as a position of some file
                let want = if loc == SourceLocation::UNKNOWN { "error: probe\n" } else { "<unknown>: error: probe\nInvalid source\n" };
                match guard(|| format!("{}", Probe(loc.offset(0)).display(&sm))) {
                    Ok(t) if t == want => {}
                    Ok(t) => fails.push(format!("location {} outside every file is printed as {:?}", r, t)),
                    Err(p) => fails.push(format!("printing location {} panics: {}", r, p)),
                }
                if *r < total {
                    fails.push(format!("location {} below the total {} does not decode", r, total));
                }
                if fl != rssl::text::FileLocation::Unknown {
                    fails.push(format!("location {} has no file offset but a file location", r));
                }
            }
            Ok((Some((fid, off)), fl)) => {
                let i = file_index(fid);
                let (l, c) = match &fl {
                    rssl::text::FileLocation::Known(_, l, c) => (l.0, c.0),
                    rssl::text::FileLocation::Unknown => (0, 0),
                };
                obs.push(format!("{}:{}:{}:{}", i, off.0, l, c));
                if *r >= total {
                    fails.push(format!("location {} beyond the total {} decodes", r, total));
                } else if i >= files.len() || off.0 as usize > files[i].1.len() || bases[i] + off.0 != *r {
                    fails.push(format!("location {} decodes to offset {} of file {} which is not inside it", r, off.0, i));
                } else {
                    let (wl, wc) = line_col(&files[i].1, off.0 as usize);
                    match &fl {
                        rssl::text::FileLocation::Known(n, _, _) if n.0 == files[i].0 && (l, c) == (wl, wc) => {}
                        _ => fails.push(format!("location {} is {}:{}:{} of {:?} but renders as {}", r, wl, wc, i, files[i].0, fl)),
                    }
                }
            }
        }
    }
    let orc = if fails.is_empty() { "ok".to_string() } else { format!("FAIL:{}", fails[0]) };
    (obs.join(","), orc)
}

/// `C10.diag`
pub fn run_diag(expect: &str, defines: &[(String, String)], files: &[(String, String)], hist: &mut Hist) -> (String, String) {
    let mut sm = SourceManager::new();
    let mut inc = MemFiles(files.to_vec());
    let defs: Vec<(&str, &str)> = defines.iter().map(|(a, b)| (a.as_str(), b.as_str())).collect();
    let entry = files.first().map(|f| f.0.clone()).unwrap_or_default();
    let r = guard(|| -> Result<(), (String, String)> {
        let toks = rssl_preprocess::preprocess(&entry, &mut sm, &mut inc, &defs)
            .map_err(|e| ("preprocess".to_string(), format!("{}", e.display(&sm))))?;
        let toks = rssl_preprocess::prepare_tokens(&toks);
        let ast = rssl_parser::parse(&toks).map_err(|e| ("parse".to_string(), format!("{}", e.display(&sm))))?;
        rssl_typer::type_check(&ast).map_err(|e| ("type".to_string(), format!("{}", e.display(&sm))))?;
        Ok(())
    });
    let mfiles = manager_files(&sm);
    match r {
        Err(p) => (format!("!panic {}", p), format!("SKIP:panic {} (C08)", p)),
        Ok(Ok(())) => {
            hist.add("diag.accepted");
            ("ok".into(), if expect == "-" { "ok".into() } else { "SKIP:the injected error was not diagnosed".into() })
        }
        Ok(Err((stage, text))) => {
            hist.add(&format!("diag.stage.{}", stage));
            let first = text.lines().next().unwrap_or("").to_string();
            let mut fails: Vec<String> = Vec::new();
            match guard(|| check_rendered(&text, &mfiles)) {
                Ok(Ok(n)) => hist.add(if n == 0 { "diag.unlocated" } else { "diag.located" }),
                Ok(Err(m)) => fails.push(m),
                Err(p) => fails.push(format!("panic while checking {}", p)),
            }
            let hs = headers(&text);
            if let Some(want) = expect.strip_prefix("in:").or_else(|| expect.strip_prefix("lex:")) {
                let want = unhex(want).and_then(|b| String::from_utf8(b).ok()).unwrap_or_default();
                match hs.first() {
                    None => {
                        if expect.starts_with("lex:") {
                            fails.push("a lexer diagnostic carries no position".into());
                        }
                    }
                    Some((name, line, col, _, _)) => {
                        if *name != want {
                            fails.push(format!("the diagnostic for text inside {:?} names {:?}", want, name));
                        } else if expect.starts_with("lex:") {
                            // the same place as the lexing of that file on its own
                            if let Some((_, contents)) = files.iter().find(|f| f.0 == want) {
                                let lx = lex_real(contents, &Flags { trail: true, inc: false, base: 0 });
                                match lx.err {
                                    Some(Ok((_, off))) => {
                                        let (l, c) = line_col(contents, off as usize);
                                        if (l, c) != (*line, *col) {
                                            fails.push(format!(
                                                "lexer diagnostic at {}:{} but the file lexed on its own fails at {}:{} (offset {})",
                                                line, col, l, c, off
                                            ));
                                        }
                                    }
                                    _ => fails.push("the file lexes on its own but a lexer diagnostic was reported".into()),
                                }
                            }
                        }
                    }
                }
            }
            let orc = if fails.is_empty() { "ok".to_string() } else { format!("FAIL:{}", fails[0]) };
            (one_line(&first), orc)
        }
    }
}

pub fn replay(f: &[&str], hist: &mut Hist) -> (String, String) {
    match (f[0], f.len()) {
        ("C10.pp", 3) => {
            let (Some(d), Some(fs)) = (dec_pairs(f[1], '='), dec_pairs(f[2], ':')) else {
                return (String::new(), "SKIP:bad request".into());
            };
            let (obs, orc, _, _) = run_pp(&d, &fs, hist);
            (obs, orc)
        }
        ("C10.loc", 3) => {
            let Some(fs) = dec_pairs(f[1], ':') else {
                return (String::new(), "SKIP:bad request".into());
            };
            let raws: Option<Vec<u32>> = if f[2].is_empty() { Some(Vec::new()) } else { f[2].split(',').map(|x| x.parse().ok()).collect() };
            match raws {
                Some(r) => run_loc(&fs, &r),
                None => (String::new(), "SKIP:bad request".into()),
            }
        }
        ("C10.diag", 4) => {
            let (Some(d), Some(fs)) = (dec_pairs(f[2], '='), dec_pairs(f[3], ':')) else {
                return (String::new(), "SKIP:bad request".into());
            };
            run_diag(f[1], &d, &fs, hist)
        }
        _ => (String::new(), "SKIP:bad request".into()),
    }
}

// ------------------------------------------------------------------------------------------------
// generators
// ------------------------------------------------------------------------------------------------
const PP_IDENTS: &[&str] = &["x", "y", "foo", "a1", "_t", "float4", "if", "return", "q"];
const PP_OPS: &[&str] = &["+", "-", "*", "/", "=", "==", "<", ">", "<<", ">=", "(", ")", "[", "]", "{", "}", ",", ";", ".", "::", "?", ":", "&&", "!", "~", "%", "->", "++"];
const PP_LITS: &[&str] = &[
    "0", "1", "42", "0x1F", "017", "7u", "4294967295u", "1.5", "2.f", "1e3", "0.25h", "3.0L", "1.#INF", "\"str\"", "\"a b\"", "123456789", "0.1f", "1e-7",
];
const PP_TRIVIA: &[&str] = &[" ", " ", " ", "  ", "\t", " /* c */ ", "/**/", " \\\n ", " /* \u{a3} */ "];
/// operands of `##` whose paste is one token
const PASTE_PAIRS: &[(&str, &str)] = &[
    ("x", "y"), ("foo", "1"), ("_", "t9"), ("1", "2"), ("12", "34u"), ("0", "x1F"), ("1", "e5"), ("7", "."), ("1.", "5"),
    ("2.5", "f"), ("+", "="), ("-", "-"), ("&", "&"), (":", ":"), ("=", "="), ("if", "x"), ("float", "4"), ("|", "="), ("1", "u"),
];

/// what may stand between the name of a function-like macro and its `(` in ordinary text
const ML_GAPS: &[&str] = &["\n", "\r\n", " // c\n", "\n  ", " /* c */ \n", "\n\n", " \\\n\n"];

struct FileGen {
    /// macros visible so far: (name, parameter count or None)
    macros: Vec<(String, Option<usize>)>,
    counter: usize,
}

/// `ml`: the item is part of ordinary text (not of a directive), so an invocation of a function-like macro may continue
/// on the next line (accepted since fix f08088c: line ends between the name and `(` are skipped like other white space)
fn pp_item(g: &FileGen, rng: &mut Rng, depth: u32, params: &[&str], ml: bool) -> String {
    match rng.below(12) {
        0 | 1 => rng.pick(PP_IDENTS).to_string(),
        2 | 3 => rng.pick(PP_LITS).to_string(),
        4 | 5 => rng.pick(PP_OPS).to_string(),
        6 if !params.is_empty() => rng.pick(params).to_string(),
        7..=9 if !g.macros.is_empty() && depth < 3 => {
            let (name, arity) = rng.pick(&g.macros).clone();
            if name.starts_with("CAT") {
                let (a, b) = rng.pick(PASTE_PAIRS);
                let gap = if ml && rng.chance(1, 6) { *rng.pick(ML_GAPS) } else { "" };
                return format!("{}{}({}{}{})", name, gap, a, rng.pick(&[",", ", ", " , "]), b);
            }
            match arity {
                None => name,
                Some(n) => {
                    let args: Vec<String> = (0..n)
                        .map(|_| {
                            let k = rng.range(1, 2);
                            (0..k).map(|_| pp_arg_item(g, rng, depth + 1, params, ml)).collect::<Vec<_>>().join(" ")
                        })
                        .collect();
                    let gap = if ml && rng.chance(1, 5) {
                        *rng.pick(ML_GAPS)
                    } else if rng.chance(1, 6) {
                        " "
                    } else {
                        ""
                    };
                    // `Z(` newline `)`: the empty argument list of a zero parameter macro may hold a line break
                    let inner = if ml && n == 0 && rng.chance(1, 4) { *rng.pick(&["\n", " \r\n ", "\n\n"]) } else { "" };
                    format!("{}{}({}{})", name, gap, inner, args.join(if rng.chance(1, 2) { ", " } else { "," }))
                }
            }
        }
        _ => rng.pick(PP_IDENTS).to_string(),
    }
}

/// an item that is safe inside a macro argument (no unbalanced parenthesis, no comma)
fn pp_arg_item(g: &FileGen, rng: &mut Rng, depth: u32, params: &[&str], ml: bool) -> String {
    loop {
        let s = pp_item(g, rng, depth, params, ml);
        if s.contains('(') && !s.ends_with(')') {
            continue;
        }
        if matches!(s.as_str(), "(" | ")" | ",") {
            continue;
        }
        return s;
    }
}

fn pp_line(g: &FileGen, rng: &mut Rng, params: &[&str], allow_paste: bool, ml: bool) -> String {
    let n = rng.range(1, 7);
    let mut s = String::new();
    for i in 0..n {
        if i > 0 {
            s.push_str(*rng.pick(PP_TRIVIA));
        }
        if allow_paste && !params.is_empty() && rng.chance(1, 12) {
            // a ## b with a parameter on at least one side
            let l = if rng.chance(2, 3) { rng.pick(params).to_string() } else { rng.pick(&["x", "1", "_", "q", "<", "+", "1.", "e"]).to_string() };
            let r = if rng.chance(2, 3) { rng.pick(params).to_string() } else { rng.pick(&["y", "2", "_z", "f", "=", "<", "5", "u"]).to_string() };
            s.push_str(&format!("{}{}##{}{}", l, rng.pick(&["", " "]), rng.pick(&["", " "]), r));
        } else {
            s.push_str(&pp_item(g, rng, 0, params, ml));
        }
    }
    s
}

/// a line of ordinary text; macro invocations in it may continue over line ends
fn text_line(g: &FileGen, rng: &mut Rng, hist: &mut Hist) -> String {
    let s = pp_line(g, rng, &[], false, true);
    if s.contains("\n(") || s.contains("\n  (") {
        hist.add("pp.gen.invocation_over_lines");
    }
    if s.contains("(\n") || s.contains("( \r\n") {
        hist.add("pp.gen.empty_args_over_lines");
    }
    s
}

fn gen_file(g: &mut FileGen, rng: &mut Rng, includes: &[&str], header: bool, hist: &mut Hist) -> String {
    let eol = if rng.chance(1, 4) { "\r\n" } else { "\n" };
    let mut out = String::new();
    if header && rng.chance(1, 2) {
        out.push_str("#pragma once");
        out.push_str(eol);
    }
    let mut pending: Vec<&str> = includes.to_vec();
    let lines = rng.range(3, 12);
    let mut open_ifs = 0;
    for _ in 0..lines {
        match rng.below(17) {
            0 | 1 => {
                // object-like macro
                g.counter += 1;
                let name = format!("M{}", g.counter);
                let body = if rng.chance(1, 8) { String::new() } else { pp_line(g, rng, &[], false, false) };
                out.push_str(&format!("#define {} {}", name, body));
                g.macros.push((name, None));
                hist.add("pp.gen.define_object");
            }
            2 | 3 => {
                g.counter += 1;
                let name = format!("F{}", g.counter);
                let n = rng.range(0, 3) as usize;
                let all = ["a", "b", "c"];
                let params = &all[..n];
                let body = pp_line(g, rng, params, true, false);
                out.push_str(&format!("#define {}({}) {}", name, params.join(if rng.chance(1, 2) { ", " } else { "," }), body));
                g.macros.push((name, Some(n)));
                hist.add("pp.gen.define_function");
            }
            4 if !pending.is_empty() => {
                let f = pending.remove(0);
                // both spellings of the file name (string literal / header name), white space and a comment around it
                match rng.below(4) {
                    0 => {
                        out.push_str(&format!("#include <{}>", f));
                        hist.add("pp.gen.include_angle");
                    }
                    1 => {
                        out.push_str(&format!("#  include   \"{}\"  // c", f));
                        hist.add("pp.gen.include_spaced");
                    }
                    _ => out.push_str(&format!("#include \"{}\"", f)),
                }
                hist.add("pp.gen.include");
            }
            14 if open_ifs > 0 => {
                // `#elif` (wave 6): constant, defined(..) of a known / unknown name, arithmetic
                let c = match rng.below(5) {
                    0 => "#elif 1".to_string(),
                    1 => "#elif 0".to_string(),
                    2 if !g.macros.is_empty() => format!("#elif defined({})", rng.pick(&g.macros).0),
                    3 => "#elif !defined(NOT_DEFINED_ZQ) && (0x10 == 16)".to_string(),
                    _ => "#elif defined NOT_DEFINED_ZQ || 2 > 3".to_string(),
                };
                out.push_str(&c);
                out.push_str(eol);
                out.push_str(&text_line(g, rng, hist));
                hist.add("pp.gen.elif");
            }
            15 => {
                // conditions with operators, literals of every base, `defined` in both spellings
                let c = match rng.below(6) {
                    0 => "#if (2 > 1) && 1".to_string(),
                    1 => "#if 010 == 8 && 0x1F != 30".to_string(),
                    2 if !g.macros.is_empty() => format!("#if defined({}) || 0", rng.pick(&g.macros).0),
                    3 if !g.macros.is_empty() => format!("#if !defined {}", rng.pick(&g.macros).0),
                    4 => "#if 0 // off\n#unknown_directive 1.5.5 \"\n#endif\n#if 1".replace('\n', eol),
                    _ => "#if !0".to_string(),
                };
                out.push_str(&c);
                open_ifs += 1;
                hist.add("pp.gen.if_expr");
            }
            16 => {
                out.push_str(*rng.pick(&["#pragma warning(disable: 4000)", "#pragma warning(push)", "# pragma once", "#", "# // empty"]));
                hist.add("pp.gen.pragma_or_null");
            }
            5 => {
                let c = match rng.below(4) {
                    0 => "#if 1".to_string(),
                    1 => "#if 0".to_string(),
                    2 if !g.macros.is_empty() => format!("#ifdef {}", rng.pick(&g.macros).0),
                    _ => "#ifndef NOT_DEFINED_ZQ".to_string(),
                };
                out.push_str(&c);
                open_ifs += 1;
                hist.add("pp.gen.if");
            }
            6 if open_ifs > 0 => {
                if rng.chance(1, 2) {
                    out.push_str("#else");
                    out.push_str(eol);
                    out.push_str(&text_line(g, rng, hist));
                    out.push_str(eol);
                }
                out.push_str("#endif");
                open_ifs -= 1;
            }
            9 if !g.macros.iter().any(|m| m.0.starts_with("CAT")) || rng.chance(1, 3) => {
                g.counter += 1;
                let name = format!("CAT{}", g.counter);
                out.push_str(&format!("#define {}(a, b) a{}##{}b", name, rng.pick(&["", " "]), rng.pick(&["", " "])));
                g.macros.push((name, Some(2)));
                hist.add("pp.gen.define_paste");
            }
            7 => {
                out.push_str(*rng.pick(&["", "// comment", "/* block \n comment */", "  ", "// \u{20ac} \\", "/* a */ // b"]));
                hist.add("pp.gen.trivia_line");
            }
            8 if !g.macros.is_empty() && rng.chance(1, 3) => {
                let i = rng.below(g.macros.len() as u64) as usize;
                out.push_str(&format!("#undef {}", g.macros[i].0));
                g.macros.remove(i);
                hist.add("pp.gen.undef");
            }
            _ => {
                out.push_str(&text_line(g, rng, hist));
                hist.add("pp.gen.tokens");
            }
        }
        out.push_str(eol);
    }
    for f in pending {
        out.push_str(&format!("#include \"{}\"{}", f, eol));
    }
    for _ in 0..open_ifs {
        out.push_str("#endif");
        out.push_str(eol);
    }
    // use a few of the macros at the end so that expansions are frequent
    for _ in 0..rng.range(0, 3) {
        out.push_str(&text_line(g, rng, hist));
        out.push_str(eol);
    }
    if rng.chance(1, 5) {
        // no final line ending
        while out.ends_with('\n') || out.ends_with('\r') {
            out.pop();
        }
    }
    out
}

fn gen_pp_program(rng: &mut Rng, hist: &mut Hist) -> (Vec<(String, String)>, Vec<(String, String)>) {
    let mut g = FileGen { macros: Vec::new(), counter: 0 };
    let mut defines: Vec<(String, String)> = Vec::new();
    for i in 0..rng.range(0, 2) {
        let name = format!("D{}", i);
        let value = match rng.below(4) {
            0 => String::new(),
            1 => rng.pick(PP_LITS).to_string(),
            _ => pp_line(&g, rng, &[], false, false).replace("\\\n", " "),
        };
        defines.push((name.clone(), value));
        g.macros.push((name, None));
    }
    // the order of generation is the order of inclusion, so that macros are visible where they are used
    let shape = rng.below(4);
    let mut files: Vec<(String, String)> = Vec::new();
    match shape {
        0 => {
            let main = gen_file(&mut g, rng, &[], false, hist);
            files.push(("main.rssl".into(), main));
        }
        1 => {
            let a = gen_file(&mut g, rng, &[], true, hist);
            let main = gen_file(&mut g, rng, &["a.h"], false, hist);
            files.push(("main.rssl".into(), main));
            files.push(("a.h".into(), a));
        }
        2 => {
            let b = gen_file(&mut g, rng, &[], true, hist);
            let a = gen_file(&mut g, rng, &["inc/b.h"], true, hist);
            let main = gen_file(&mut g, rng, &["a.h"], false, hist);
            files.push(("main.rssl".into(), main));
            files.push(("a.h".into(), a));
            files.push(("inc/b.h".into(), b));
        }
        _ => {
            let b = gen_file(&mut g, rng, &[], true, hist);
            let a = gen_file(&mut g, rng, &["b.h"], true, hist);
            let main = gen_file(&mut g, rng, &["a.h", "b.h", "a.h"], false, hist);
            files.push(("main.rssl".into(), main));
            files.push(("a.h".into(), a));
            files.push(("b.h".into(), b));
        }
    }
    hist.add(&format!("pp.gen.shape{}", shape));
    (defines, files)
}

/// a multi-file program that type checks, with slots; the slot that receives the error decides where the
/// diagnostic has to be
const DIAG_MAIN: &str = "#include \"a.h\"\n#define ADD(x, y) ((x) + (y))\n#define CAT(a, b) a ## b\nstatic const int g0 = @0@;\nint f0(int p) { return ADD(p, @1@) + A_CONST + CAT(@2@, 1); }\nvoid f1() {\n    int v = B_FN(@3@);\n    v = DV + @4@;\n    v = a_fn(@10@) /* c */ + @11@;\n}\nint d0(int p = @13@) { return p; }\nstruct S0 { int m0(int q) { return q + @14@; } };\nnamespace N0 { static const int n0 = @15@; }\nvoid f2(int s) { switch (s) { case @16@: break; default: break; } }\nstruct S1 { float arr0[@17@]; };\n[numthreads(@18@, 1, 1)] void f3() {}\ntemplate<int N> int t0() { return N + @19@; }\nvoid f4() { t0<4>(); d0(); }\n";
const DIAG_A: &str = "#pragma once\n#include \"inc/b.h\"\n#define A_CONST (@5@ + 1)\nint a_fn(int q) { return q * @6@; }\n";
const DIAG_B: &str = "// header b\n#define B_FN(z) (z + @7@)\nstatic const int b_g = @8@;\n";
const DIAG_DEFINE: &str = "@9@ + 2";

fn gen_diag(rng: &mut Rng, hist: &mut Hist) -> (String, Vec<(String, String)>, Vec<(String, String)>) {
    let slot = rng.below(20);
    // slot 12: no error at all; 13..19 (wave 6): default argument, method body, reopened-able namespace, case label, array size,
    // attribute argument, function template body
    let kind = *rng.pick(&["ident", "lexchar", "badfloat", "bigint", "string", "paren", "dollar"]);
    let bad = match kind {
        "ident" => "zq9",
        "lexchar" => "`",
        "badfloat" => "1.5q",
        "bigint" => "99999999999999999999",
        "string" => "\"abc",
        "paren" => ")",
        _ => "$",
    };
    let lexer_kind = matches!(kind, "lexchar" | "badfloat" | "bigint" | "string" | "dollar");
    let fill = |tpl: &str, rng: &mut Rng| -> String {
        let mut s = tpl.to_string();
        for k in (0..20).rev().filter(|k| *k != 12) {
            let key = format!("@{}@", k);
            if s.contains(&key) {
                let v = if k == slot {
                    if k == 2 && kind == "ident" { "zq".to_string() } else { bad.to_string() }
                } else if k == 2 {
                    "2".to_string()
                } else {
                    rng.pick(&["3", "0x10", "7", "1"]).to_string()
                };
                s = s.replace(&key, &v);
            }
        }
        s
    };
    let pad = |s: String, rng: &mut Rng| -> String {
        // trivia in front: the position has to follow
        let mut p = String::new();
        for _ in 0..rng.below(4) {
            p.push_str(*rng.pick(&["\n", "// line\n", "/* a\n b */\n", "  \n", "// \u{a3}\n"]));
        }
        let s = format!("{}{}", p, s);
        if rng.chance(1, 4) { s.replace('\n', "\r\n") } else { s }
    };
    let main = pad(fill(DIAG_MAIN, rng), rng);
    let a = pad(fill(DIAG_A, rng), rng);
    let b = pad(fill(DIAG_B, rng), rng);
    let dv = fill(DIAG_DEFINE, rng);
    let files = vec![("main.rssl".to_string(), main), ("a.h".to_string(), a), ("inc/b.h".to_string(), b)];
    let defines = vec![("DV".to_string(), dv)];
    let home = match slot {
        0 | 1 | 3 | 4 | 10 | 11 | 13..=19 => "main.rssl",
        2 => if lexer_kind || kind == "paren" { "main.rssl" } else { "<scratch space>" },
        5 | 6 => "a.h",
        7 | 8 => "inc/b.h",
        9 => "<define>",
        _ => "",
    };
    hist.add(&format!("diag.gen.slot{}", slot));
    hist.add(&format!("diag.gen.{}", kind));
    let expect = if slot == 12 {
        "-".to_string()
    } else if lexer_kind && slot != 9 {
        format!("lex:{}", hex(home.as_bytes()))
    } else if kind == "ident" {
        format!("in:{}", hex(home.as_bytes()))
    } else {
        // a stray `)` (or a lexer error inside a define passed on the command line) is diagnosed somewhere:
        // only "inside a loaded file" is required
        "any".to_string()
    };
    (expect, defines, files)
}

pub fn generate(args: &Args, rng: &mut Rng, out: &mut Out, hist: &mut Hist) -> u64 {
    let mut cases = 0u64;
    let n_pp = if args.thorough() { 12_000 } else { 500 };
    let n_pp = args.n.map(|n| n / 20).unwrap_or(n_pp);
    let mut seen_files: std::collections::HashSet<String> = std::collections::HashSet::new();
    for _ in 0..n_pp {
        let (defines, files) = gen_pp_program(rng, hist);
        let (obs, orc, mfiles, raws) = run_pp(&defines, &files, hist);
        out.case(&format!("C10.pp\t{}\t{}", enc_defines(&defines), enc_files(&files)), &obs, &orc);
        cases += 1;
        // the location decoder on this manager (model compared)
        if !mfiles.is_empty() {
            let fl: Vec<(String, String)> = mfiles.iter().map(|(n, c, _)| (n.clone(), c.clone())).collect();
            let total: u32 = mfiles.iter().map(|(_, c, _)| c.len() as u32 + 1).sum();
            let mut rs = raws.clone();
            for (_, c, b) in &mfiles {
                rs.push(*b);
                rs.push(*b + c.len() as u32);
            }
            rs.extend_from_slice(&[total.saturating_sub(1), total, total + 1, total + 1000, u32::MAX - 1, u32::MAX]);
            for _ in 0..4 {
                rs.push(rng.below(total as u64 + 2) as u32);
            }
            let (obs, orc) = run_loc(&fl, &rs);
            out.case(
                &format!("C10.loc\t{}\t{}", enc_files(&fl), rs.iter().map(|r| r.to_string()).collect::<Vec<_>>().join(",")),
                &obs,
                &orc,
            );
            cases += 1;
            // every file of the manager — entry, included, `<define>`, `<scratch space>` — is a file like any other:
            // its own tiling goes through the single-file oracle and the lexer model
            for (n, c, b) in &mfiles {
                if seen_files.insert(c.clone()) && seen_files.len() < 6000 {
                    let synthetic = n == "<scratch space>" || n == "<define>";
                    let fl = Flags { trail: n != "<define>", inc: false, base: (*b).min(9) };
                    emit(c, &fl, out, hist);
                    cases += 1;
                    hist.add(if synthetic { "pp.synthetic_file_lexed" } else { "pp.source_file_lexed" });
                }
            }
        }
    }
    let n_diag = if args.thorough() { 10_000 } else { 600 };
    let n_diag = args.n.map(|n| n / 20).unwrap_or(n_diag);
    for _ in 0..n_diag {
        let (expect, defines, files) = gen_diag(rng, hist);
        let (obs, orc) = run_diag(&expect, &defines, &files, hist);
        out.case(&format!("C10.diag\t{}\t{}\t{}", expect, enc_defines(&defines), enc_files(&files)), &obs, &orc);
        cases += 1;
    }
    cases
}

import RsslVerif.Lemmas.ConstPos
/-!
# Enum definitions: the enumerator sequence has C semantics and the underlying type is deduced from the range (C13)

Model: `Model.ConstPos.defineEnum` (`parse_rootdefinition_enum` + `end_enum`).  Specification: `EnumSeq` — an
enumerator with an initialiser has the value of the initialiser (as `Spec.HlslConst.eval` defines it; an enum-typed
initialiser through its underlying type), the first enumerator without initialiser is 0, every other one is its
predecessor plus one — and the underlying type is `int` when 0 and all values fit `int`, else `uint`.
-/
namespace RsslVerif.Lemmas.ConstPos
open RsslVerif.Gen.EvalTable RsslVerif.Gen.PosTable RsslVerif.Model.ConstEval RsslVerif.Model.ConstPos
open RsslVerif.Lemmas.ConstEval

/-- **C semantics of an enumerator list.**  `EnumSeq prev ms vs`: `vs` are the values of the enumerators `ms` when
the previous enumerator (if any) has the value `prev`. -/
inductive EnumSeq : Option Int → List Member → List Int → Prop
  | nil (p : Option Int) : EnumSeq p [] []
  | explicit (p : Option Int) (cls : Cls) (e e' : Expr) (c : Constant) (v : Int) (rest : List Member) (vs : List Int) :
      memberExpr cls e = some e' → S.eval e' = some c → intValue c = some v →
      EnumSeq (some v) rest vs → EnumSeq p (some (cls, e) :: rest) (v :: vs)
  | first (rest : List Member) (vs : List Int) : EnumSeq (some 0) rest vs → EnumSeq none (none :: rest) (0 :: vs)
  | next (p : Int) (rest : List Member) (vs : List Int) :
      EnumSeq (some (p + 1)) rest vs → EnumSeq (some p) (none :: rest) ((p + 1) :: vs)

theorem widen_ok {c : Constant} {v : Int} (h : widen c = .ok v) : intValue c = some v := by
  unfold widen at h
  split at h
  · cases c <;> simp [Constant.intVal?, intValue] at h ⊢ <;> first | exact h | (cases h; rfl) | skip
    all_goals (rename_i b; cases b <;> simp_all)
  · cases h

/-- the explicit branch of `memberValue`, with the table lookups resolved -/
theorem memberValue_some (i : Nat) (last : Option Constant) (cls : Cls) (e : Expr) :
    memberValue i last (some (cls, e)) =
      (match memberExpr cls e with
       | none => .error (.mustBeInteger i)
       | some e' =>
         match eval e' with
         | .ok c => .ok c
         | .error .notConst => .error (.notConstant i)
         | .error (.panic msg) => .error (.panic msg)
         | .error .stuck => .error .stuck) := by
  cases cls with
  | scalar s =>
    cases s <;> simp [memberValue, memberExpr, enumAllowed] <;>
      (cases eval e with | ok c => rfl | error err => cases err <;> rfl)
  | enum id u =>
    simp [memberValue, memberExpr, enumCastsEnumTyped]
    cases eval (Expr.cast (Ty.scalar u) e) with | ok c => rfl | error err => cases err <;> rfl
  | other => simp [memberValue, memberExpr]

theorem memberExpr_wf {cls : Cls} {e e' : Expr} (h : memberExpr cls e = some e') (hw : wfE e = true) : wfE e' = true := by
  cases cls with
  | scalar s => simp only [memberExpr] at h; split at h <;> cases h; exact hw
  | enum i u => simp only [memberExpr] at h; cases h; simpa [wfE] using hw
  | other => simp [memberExpr] at h

/-- value of an explicit member: the evaluator's result is the specified value -/
theorem memberValue_explicit {i : Nat} {last : Option Constant} {cls : Cls} {e : Expr} {c : Constant}
    (hw : wfE e = true) (h : memberValue i last (some (cls, e)) = .ok c) :
    ∃ e', memberExpr cls e = some e' ∧ S.eval e' = some c ∧ wf c = true := by
  rw [memberValue_some] at h
  cases he : memberExpr cls e with
  | none => simp [he] at h
  | some e' =>
    simp only [he] at h
    cases hev : eval e' with
    | error err => cases err <;> simp [hev] at h
    | ok c' =>
      simp only [hev] at h
      obtain ⟨h1, h2⟩ := eval_agrees e' (memberExpr_wf he hw) c' hev
      cases h
      exact ⟨e', rfl, h1, h2⟩

/-- the enumerator after `l` when it exists: one more, of the same kind (`int` after a `bool`), and it fits that kind -/
theorem nextValue_ok {i : Nat} {l c : Constant} (hl : wf l = true) (h : nextValue i l = .ok c) :
    ∃ p, intValue l = some p ∧ intValue c = some (p + 1) ∧ wf c = true ∧ intLike c = true := by
  unfold nextValue at h
  cases l <;> simp [lookup, enumNext, Constant.kind, Constant.intVal?, rangeOfKind, mkInt] at h
  case bool b =>
    cases h
    cases b <;> exact ⟨_, rfl, by simp [intValue], by decide, by decide⟩
  all_goals
    rename_i v
    split at h
    · cases h
      refine ⟨v, rfl, rfl, ?_, by simp [intLike, Constant.kind]⟩
      simp [wf, IntTy.inRange, IntTy.lo, IntTy.hi, i128, i32, u32] at hl ⊢
      rename_i hle
      simp [IntTy.hi, i128, i32, u32] at hle
      omega
    · cases h

theorem widenAll_cons {c : Constant} {cs : List Constant} {vs : List Int} (h : widenAll (c :: cs) = .ok vs) :
    ∃ v vs', vs = v :: vs' ∧ widen c = .ok v ∧ widenAll cs = .ok vs' := by
  simp only [widenAll] at h
  cases hw : widen c with
  | error e => simp [hw] at h
  | ok v =>
    simp only [hw] at h
    cases hr : widenAll cs with
    | error e => simp [hr] at h
    | ok vs' => simp only [hr] at h; cases h; exact ⟨v, vs', rfl, rfl, rfl⟩

theorem collect_cons {i : Nat} {last : Option Constant} {m : Member} {rest : List Member} {cs : List Constant}
    (h : collect i last (m :: rest) = .ok cs) :
    ∃ c cs', cs = c :: cs' ∧ memberValue i last m = .ok c ∧ collect (i + 1) (some c) rest = .ok cs' := by
  simp only [collect] at h
  cases hm : memberValue i last m with
  | error e => simp [hm] at h
  | ok c =>
    simp only [hm] at h
    cases hr : collect (i + 1) (some c) rest with
    | error e => simp [hr] at h
    | ok cs' => simp only [hr] at h; cases h; exact ⟨c, cs', rfl, rfl, hr⟩

/-- **the enumerator sequence has C semantics** (before the underlying type is chosen) -/
theorem collect_seq : ∀ (ms : List Member) (i : Nat) (last : Option Constant) (cs : List Constant) (vs : List Int),
    membersWf ms = true → (∀ l, last = some l → wf l = true) →
    collect i last ms = .ok cs → widenAll cs = .ok vs →
    EnumSeq (last.bind intValue) ms vs := by
  intro ms
  induction ms with
  | nil =>
    intro i last cs vs _ _ hc hw
    simp only [collect] at hc
    cases hc
    simp only [widenAll] at hw
    cases hw
    exact .nil _
  | cons m rest ih =>
    intro i last cs vs hmw hl hc hw
    obtain ⟨c, cs', rfl, hmv, hrest⟩ := collect_cons hc
    obtain ⟨v, vs', rfl, hwc, hwr⟩ := widenAll_cons hw
    have hiv := widen_ok hwc
    cases m with
    | some ce =>
      obtain ⟨cls, e⟩ := ce
      have hwe : wfE e = true ∧ membersWf rest = true := by simpa [membersWf] using hmw
      obtain ⟨e', he', hs, hwf⟩ := memberValue_explicit hwe.1 hmv
      have := ih (i + 1) (some c) cs' vs' hwe.2 (by intro l hl'; cases hl'; exact hwf) hrest hwr
      simp only [Option.bind, hiv] at this
      exact .explicit _ cls e e' c v rest vs' he' hs hiv this
    | none =>
      have hmr : membersWf rest = true := by simpa [membersWf] using hmw
      cases last with
      | none =>
        have hc0 : c = .int32 0 := by
          simp [memberValue, enumFirst, mkInt] at hmv; exact hmv.symm
        subst hc0
        have hv0 : v = 0 := by simp [intValue] at hiv; exact hiv.symm
        subst hv0
        have := ih (i + 1) (some (.int32 0)) cs' vs' hmr (by intro l hl'; cases hl'; decide) hrest hwr
        exact .first rest vs' this
      | some l =>
        have hnv : nextValue i l = .ok c := by simpa [memberValue] using hmv
        obtain ⟨p, hp, hc1, hwf, _⟩ := nextValue_ok (hl l rfl) hnv
        have hv : v = p + 1 := by rw [hiv] at hc1; cases hc1; rfl
        subst hv
        have := ih (i + 1) (some c) cs' vs' hmr (by intro l' hl'; cases hl'; exact hwf) hrest hwr
        simp only [Option.bind, hiv] at this
        simp only [Option.bind, hp]
        exact .next p rest vs' this

/-! ### the range and the underlying type -/

theorem foldl_min_le (vs : List Int) (a : Int) :
    (vs.foldl (fun a v => if v < a then v else a) a) ≤ a ∧ ∀ v ∈ vs, (vs.foldl (fun a v => if v < a then v else a) a) ≤ v := by
  induction vs generalizing a with
  | nil => simp
  | cons x r ih =>
    simp only [List.foldl, List.mem_cons]
    by_cases hx : x < a
    · simp only [hx, if_true]
      obtain ⟨h1, h2⟩ := ih x
      refine ⟨by omega, ?_⟩
      intro v hv
      rcases hv with rfl | hv
      · exact h1
      · exact h2 v hv
    · simp only [hx, if_false]
      obtain ⟨h1, h2⟩ := ih a
      refine ⟨h1, ?_⟩
      intro v hv
      rcases hv with rfl | hv
      · omega
      · exact h2 v hv

theorem foldl_max_ge (vs : List Int) (a : Int) :
    a ≤ (vs.foldl (fun a v => if a < v then v else a) a) ∧ ∀ v ∈ vs, v ≤ (vs.foldl (fun a v => if a < v then v else a) a) := by
  induction vs generalizing a with
  | nil => simp
  | cons x r ih =>
    simp only [List.foldl, List.mem_cons]
    by_cases hx : a < x
    · simp only [hx, if_true]
      obtain ⟨h1, h2⟩ := ih x
      refine ⟨by omega, ?_⟩
      intro v hv
      rcases hv with rfl | hv
      · exact h1
      · exact h2 v hv
    · simp only [hx, if_false]
      obtain ⟨h1, h2⟩ := ih a
      refine ⟨h1, ?_⟩
      intro v hv
      rcases hv with rfl | hv
      · omega
      · exact h2 v hv

/-- the fold returns 0 or an element -/
theorem foldl_min_mem (vs : List Int) (a : Int) :
    (vs.foldl (fun a v => if v < a then v else a) a) = a ∨ (vs.foldl (fun a v => if v < a then v else a) a) ∈ vs := by
  induction vs generalizing a with
  | nil => simp
  | cons x r ih =>
    simp only [List.foldl, List.mem_cons]
    by_cases hx : x < a
    · simp only [hx, if_true]
      rcases ih x with h | h
      · exact .inr (.inl h)
      · exact .inr (.inr h)
    · simp only [hx, if_false]
      rcases ih a with h | h
      · exact .inl h
      · exact .inr (.inr h)

theorem foldl_max_mem (vs : List Int) (a : Int) :
    (vs.foldl (fun a v => if a < v then v else a) a) = a ∨ (vs.foldl (fun a v => if a < v then v else a) a) ∈ vs := by
  induction vs generalizing a with
  | nil => simp
  | cons x r ih =>
    simp only [List.foldl, List.mem_cons]
    by_cases hx : a < x
    · simp only [hx, if_true]
      rcases ih x with h | h
      · exact .inr (.inl h)
      · exact .inr (.inr h)
    · simp only [hx, if_false]
      rcases ih a with h | h
      · exact .inl h
      · exact .inr (.inr h)

/-- all of `0 :: vs` lie in `[lo, hi]` -/
def AllIn (lo hi : Int) (vs : List Int) : Prop := lo ≤ 0 ∧ 0 ≤ hi ∧ ∀ v ∈ vs, lo ≤ v ∧ v ≤ hi

theorem allIn_iff (lo hi : Int) (vs : List Int) : AllIn lo hi vs ↔ (lo ≤ minOf vs ∧ maxOf vs ≤ hi) := by
  unfold AllIn minOf maxOf
  obtain ⟨a1, a2⟩ := foldl_min_le vs 0
  obtain ⟨b1, b2⟩ := foldl_max_ge vs 0
  constructor
  · intro ⟨h0, h1, h2⟩
    constructor
    · rcases foldl_min_mem vs 0 with h | h
      · omega
      · exact (h2 _ h).1
    · rcases foldl_max_mem vs 0 with h | h
      · omega
      · exact (h2 _ h).2
  · intro ⟨h1, h2⟩
    refine ⟨by omega, by omega, fun v hv => ⟨?_, ?_⟩⟩
    · have := a2 v hv; omega
    · have := b2 v hv; omega

/-- **deduction of the underlying type**: `int` when 0 and every value fit `int`, otherwise `uint` when they fit
`uint`, otherwise the enum is rejected -/
theorem pickUnderlying_spec (vs : List Int) :
    (AllIn (-(2 ^ 31)) (2 ^ 31 - 1) vs → pickUnderlying (minOf vs) (maxOf vs) enumCandidates = .ok .Int32) ∧
    (¬ AllIn (-(2 ^ 31)) (2 ^ 31 - 1) vs → AllIn 0 (2 ^ 32 - 1) vs →
      pickUnderlying (minOf vs) (maxOf vs) enumCandidates = .ok .UInt32) ∧
    (¬ AllIn (-(2 ^ 31)) (2 ^ 31 - 1) vs → ¬ AllIn 0 (2 ^ 32 - 1) vs →
      pickUnderlying (minOf vs) (maxOf vs) enumCandidates = .error (.cannotDeduce (minOf vs) (maxOf vs))) := by
  have e1 := allIn_iff (-(2 ^ 31)) (2 ^ 31 - 1) vs
  have e2 := allIn_iff 0 (2 ^ 32 - 1) vs
  simp only [enumCandidates, pickUnderlying, tyRange, IntTy.lo, IntTy.hi, i32, u32]
  refine ⟨?_, ?_, ?_⟩
  · intro h1
    have := e1.mp h1
    rw [if_pos (by simp; omega)]
  · intro h1 h2
    have hn : ¬ (-(2 ^ 31) ≤ minOf vs ∧ maxOf vs ≤ 2 ^ 31 - 1) := fun h => h1 (e1.mpr h)
    have := e2.mp h2
    rw [if_neg (by simp; omega), if_pos (by simp; omega)]
  · intro h1 h2
    have hn : ¬ (-(2 ^ 31) ≤ minOf vs ∧ maxOf vs ≤ 2 ^ 31 - 1) := fun h => h1 (e1.mpr h)
    have hn2 : ¬ (0 ≤ minOf vs ∧ maxOf vs ≤ 2 ^ 32 - 1) := fun h => h2 (e2.mpr h)
    rw [if_neg (by simp; omega), if_neg (by simp; omega)]

/-- the final constant of an enumerator: its value in the underlying type -/
def mk (s : Scalar) (v : Int) : Constant := if s = .UInt32 then .uint32 v else .int32 v

theorem convertAll_int (vs : List Int) (h : ∀ v ∈ vs, -(2 ^ 31) ≤ v ∧ v ≤ 2 ^ 31 - 1) :
    convertAll .Int32 vs = .ok (vs.map (mk .Int32)) := by
  induction vs with
  | nil => rfl
  | cons v r ih =>
    have hv := h v (by simp)
    have hr : i32.inRange v = true := by simp [IntTy.inRange, IntTy.lo, IntTy.hi, i32]; omega
    simp only [convertAll, convertTo, wrap_i32, toInt_bv hr, ih (fun x hx => h x (by simp [hx])), List.map, mk]
    simp

theorem convertAll_uint (vs : List Int) (h : ∀ v ∈ vs, 0 ≤ v ∧ v ≤ 2 ^ 32 - 1) :
    convertAll .UInt32 vs = .ok (vs.map (mk .UInt32)) := by
  induction vs with
  | nil => rfl
  | cons v r ih =>
    have hv := h v (by simp)
    have hr : u32.inRange v = true := by simp [IntTy.inRange, IntTy.lo, IntTy.hi, u32]; omega
    simp only [convertAll, convertTo, wrap_u32, toNat_bv hr, ih (fun x hx => h x (by simp [hx])), List.map, mk]
    simp

/-! ### the whole definition -/

/-- **Enum values have C semantics.**  If the definition is accepted with underlying type `u` and final values `out`,
then there are integers `vs` — the C values of the enumerators (`EnumSeq`) — such that `out` is `vs` in the type `u`
(no wrap-around: every value is in the range of `u`), and `u` is `int` exactly when 0 and all values fit `int`
(otherwise `uint`, and then they fit `uint`). -/
theorem defineEnum_spec (ms : List Member) (hw : membersWf ms = true) (u : Scalar) (out : List Constant)
    (h : defineEnum ms = .ok (u, out)) :
    ∃ vs : List Int, EnumSeq none ms vs ∧ out = vs.map (mk u) ∧
      ((u = .Int32 ∧ AllIn (-(2 ^ 31)) (2 ^ 31 - 1) vs) ∨
       (u = .UInt32 ∧ ¬ AllIn (-(2 ^ 31)) (2 ^ 31 - 1) vs ∧ AllIn 0 (2 ^ 32 - 1) vs)) := by
  unfold defineEnum at h
  cases hc : collect 0 none ms with
  | error e => simp [hc] at h
  | ok cs =>
    simp only [hc] at h
    cases hwd : widenAll cs with
    | error e => simp [hwd] at h
    | ok vs =>
      simp only [hwd] at h
      have hseq := collect_seq ms 0 none cs vs hw (by intro l hl; cases hl) hc hwd
      obtain ⟨p1, p2, p3⟩ := pickUnderlying_spec vs
      refine ⟨vs, hseq, ?_⟩
      by_cases h1 : AllIn (-(2 ^ 31)) (2 ^ 31 - 1) vs
      · rw [p1 h1] at h
        simp only [convertAll_int vs h1.2.2] at h
        cases h
        exact ⟨rfl, .inl ⟨rfl, h1⟩⟩
      · by_cases h2 : AllIn 0 (2 ^ 32 - 1) vs
        · rw [p2 h1 h2] at h
          simp only [convertAll_uint vs h2.2.2] at h
          cases h
          exact ⟨rfl, .inr ⟨rfl, h1, h2⟩⟩
        · rw [p3 h1 h2] at h
          cases h

/-- the only rejection by range: the C values fit neither `int` nor `uint` -/
theorem defineEnum_cannotDeduce (ms : List Member) (hw : membersWf ms = true) (lo hi : Int)
    (h : defineEnum ms = .error (.cannotDeduce lo hi)) :
    ∃ vs : List Int, EnumSeq none ms vs ∧ ¬ AllIn (-(2 ^ 31)) (2 ^ 31 - 1) vs ∧ ¬ AllIn 0 (2 ^ 32 - 1) vs := by
  unfold defineEnum at h
  cases hc : collect 0 none ms with
  | error e =>
    simp only [hc] at h
    -- `collect` never reports `cannotDeduce`
    exfalso
    have : ∀ (ms : List Member) (i : Nat) (last : Option Constant) (lo hi : Int), collect i last ms ≠ .error (.cannotDeduce lo hi) := by
      intro ms
      induction ms with
      | nil => intro i last lo hi hh; simp [collect] at hh
      | cons m rest ih =>
        intro i last lo hi hh
        simp only [collect] at hh
        cases hm : memberValue i last m with
        | error e' =>
          simp only [hm] at hh
          cases hh
          cases m with
          | none =>
            cases last with
            | none => simp [memberValue, enumFirst, mkInt] at hm
            | some l =>
              simp only [memberValue, nextValue] at hm
              cases l <;> simp [lookup, enumNext, Constant.kind, Constant.intVal?, rangeOfKind, mkInt] at hm <;>
                (try (split at hm <;> cases hm))
          | some ce =>
            obtain ⟨cls, e⟩ := ce
            rw [memberValue_some] at hm
            split at hm
            · cases hm
            · split at hm <;> cases hm
        | ok c =>
          simp only [hm] at hh
          cases hr : collect (i + 1) (some c) rest with
          | error e' => simp only [hr] at hh; cases hh; exact ih _ _ _ _ hr
          | ok cs' => simp [hr] at hh
    cases h
    exact this ms 0 none lo hi hc
  | ok cs =>
    simp only [hc] at h
    cases hwd : widenAll cs with
    | error e =>
      simp only [hwd] at h
      cases h
      exfalso
      have : ∀ (cs : List Constant) (lo hi : Int), widenAll cs ≠ .error (.cannotDeduce lo hi) := by
        intro cs
        induction cs with
        | nil => intro lo hi hh; simp [widenAll] at hh
        | cons c r ih =>
          intro lo hi hh
          simp only [widenAll] at hh
          cases hw1 : widen c with
          | error e' =>
            simp only [hw1] at hh; cases hh
            unfold widen at hw1
            split at hw1
            · cases c <;> simp [Constant.intVal?] at hw1
            · cases hw1
          | ok v =>
            simp only [hw1] at hh
            cases hr : widenAll r with
            | error e' => simp only [hr] at hh; cases hh; exact ih _ _ hr
            | ok vs' => simp [hr] at hh
      exact this cs lo hi hwd
    | ok vs =>
      simp only [hwd] at h
      have hseq := collect_seq ms 0 none cs vs hw (by intro l hl; cases hl) hc hwd
      obtain ⟨p1, p2, p3⟩ := pickUnderlying_spec vs
      refine ⟨vs, hseq, ?_⟩
      by_cases h1 : AllIn (-(2 ^ 31)) (2 ^ 31 - 1) vs
      · rw [p1 h1] at h
        simp only [convertAll_int vs h1.2.2] at h
        cases h
      · by_cases h2 : AllIn 0 (2 ^ 32 - 1) vs
        · rw [p2 h1 h2] at h
          simp only [convertAll_uint vs h2.2.2] at h
          cases h
        · exact ⟨h1, h2⟩

/-- the overflow rejection is raised exactly when the previous enumerator already has the largest value of its own
type (`2^127-1` for an untyped literal, `INT_MAX`, `UINT_MAX`) -/
theorem nextValue_overflow {i j : Nat} {l : Constant} (h : nextValue i l = .error (.overflow j)) :
    j = i ∧ ∃ v, (l = .intLit v ∧ 2 ^ 127 - 1 ≤ v) ∨ (l = .int32 v ∧ 2 ^ 31 - 1 ≤ v) ∨ (l = .uint32 v ∧ 2 ^ 32 - 1 ≤ v) := by
  unfold nextValue at h
  cases l <;> simp [lookup, enumNext, Constant.kind, Constant.intVal?, rangeOfKind, mkInt] at h
  all_goals
    rename_i v
    split at h
    · cases h
    · rename_i hgt
      cases h
      simp [IntTy.hi, i128, i32, u32] at hgt
      refine ⟨rfl, v, ?_⟩
      first
        | exact .inl ⟨rfl, by omega⟩
        | exact .inr (.inl ⟨rfl, by omega⟩)
        | exact .inr (.inr ⟨rfl, by omega⟩)

/-! ### no panic -/

theorem memberExpr_kindsOk {cls : Cls} {e e' : Expr} (h : memberExpr cls e = some e') (hk : kindsOk e = true) :
    kindsOk e' = true := by
  cases cls with
  | scalar s => simp only [memberExpr] at h; split at h <;> cases h; exact hk
  | enum i u => simp only [memberExpr] at h; cases h; simpa [kindsOk] using hk
  | other => simp [memberExpr] at h

theorem nextValue_noPanic {i : Nat} {l : Constant} (hl : intLike l = true) (msg : String) :
    nextValue i l ≠ .error (.panic msg) := by
  intro h
  unfold nextValue at h
  cases l <;> simp [intLike, Constant.kind] at hl <;>
    simp [lookup, enumNext, Constant.kind, Constant.intVal?, rangeOfKind, mkInt] at h <;>
    (try (split at h <;> cases h))

theorem collect_noPanic : ∀ (ms : List Member) (i : Nat) (last : Option Constant),
    membersOk ms = true → (∀ l, last = some l → wf l = true ∧ intLike l = true) →
    (∀ msg, collect i last ms ≠ .error (.panic msg)) ∧
    (∀ cs, collect i last ms = .ok cs → ∀ c ∈ cs, intLike c = true) := by
  intro ms
  induction ms with
  | nil => intro i last _ _; simp [collect]
  | cons m rest ih =>
    intro i last hok hl
    -- the value of this member
    have hmem : (∀ msg, memberValue i last m ≠ .error (.panic msg)) ∧
        (∀ c, memberValue i last m = .ok c → wf c = true ∧ intLike c = true) ∧ membersOk rest = true := by
      cases m with
      | none =>
        have hr : membersOk rest = true := by simpa [membersOk] using hok
        cases last with
        | none =>
          refine ⟨?_, ?_, hr⟩
          · intro msg h; simp [memberValue, enumFirst, mkInt] at h
          · intro c h
            have : c = .int32 0 := by simp [memberValue, enumFirst, mkInt] at h; exact h.symm
            subst this; exact ⟨by decide, by decide⟩
        | some l =>
          obtain ⟨hwl, hil⟩ := hl l rfl
          refine ⟨?_, ?_, hr⟩
          · intro msg h
            exact nextValue_noPanic hil msg (by simpa [memberValue] using h)
          · intro c h
            obtain ⟨_, _, _, h3, h4⟩ := nextValue_ok hwl (by simpa [memberValue] using h)
            exact ⟨h3, h4⟩
      | some ce =>
        obtain ⟨cls, e⟩ := ce
        simp only [membersOk, Bool.and_eq_true] at hok
        obtain ⟨⟨⟨hwe, hke⟩, hkind⟩, hr⟩ := hok
        refine ⟨?_, ?_, hr⟩
        · intro msg h
          rw [memberValue_some] at h
          cases he : memberExpr cls e with
          | none => simp [he] at h
          | some e' =>
            simp only [he] at h
            have hnp := eval_noPanic e' (memberExpr_wf he hwe) (memberExpr_kindsOk he hke)
            cases hev : eval e' with
            | ok c => simp [hev] at h
            | error err =>
              cases err with
              | notConst => simp [hev] at h
              | stuck => simp [hev] at h
              | panic m => exact hnp m hev
        · intro c h
          obtain ⟨e', he', _, hwf⟩ := memberValue_explicit hwe h
          rw [memberValue_some, he'] at h
          simp only [he'] at hkind
          cases hev : eval e' with
          | error err => cases err <;> simp [hev] at h
          | ok c' =>
            simp only [hev] at h hkind
            cases h
            exact ⟨hwf, hkind⟩
    obtain ⟨hm1, hm2, hr⟩ := hmem
    constructor
    · intro msg h
      simp only [collect] at h
      cases hm : memberValue i last m with
      | error e' => simp only [hm] at h; cases h; exact hm1 msg hm
      | ok c =>
        simp only [hm] at h
        have := ih (i + 1) (some c) hr (by intro l hl'; cases hl'; exact hm2 c hm)
        cases hc : collect (i + 1) (some c) rest with
        | error e' => simp only [hc] at h; cases h; exact this.1 msg hc
        | ok cs' => simp [hc] at h
    · intro cs h
      obtain ⟨c, cs', rfl, hmv, hrest⟩ := collect_cons h
      have := ih (i + 1) (some c) hr (by intro l hl'; cases hl'; exact hm2 c hmv)
      intro x hx
      rcases List.mem_cons.mp hx with rfl | hx
      · exact (hm2 _ hmv).2
      · exact this.2 cs' hrest x hx

theorem widenAll_noPanic (cs : List Constant) (h : ∀ c ∈ cs, intLike c = true) (msg : String) :
    widenAll cs ≠ .error (.panic msg) := by
  induction cs with
  | nil => simp [widenAll]
  | cons c r ih =>
    intro hh
    simp only [widenAll] at hh
    have hc := h c (by simp)
    cases hw : widen c with
    | error e =>
      simp only [hw] at hh; cases hh
      unfold widen at hw
      cases c <;> simp [intLike, Constant.kind] at hc <;> simp [enumRangeKinds, Constant.kind, Constant.intVal?] at hw
    | ok v =>
      simp only [hw] at hh
      cases hr : widenAll r with
      | error e => simp only [hr] at hh; cases hh; exact ih (fun x hx => h x (by simp [hx])) hr
      | ok vs => simp [hr] at hh

theorem convertAll_noPanic (s : Scalar) (hs : s = .Int32 ∨ s = .UInt32) (vs : List Int) (msg : String) :
    convertAll s vs ≠ .error (.panic msg) := by
  induction vs with
  | nil => simp [convertAll]
  | cons v r ih =>
    intro hh
    rcases hs with rfl | rfl
    · simp only [convertAll, convertTo] at hh
      cases hr : convertAll .Int32 r with
      | error e => rw [hr] at hh; cases hh; exact ih hr
      | ok cs => rw [hr] at hh; cases hh
    · simp only [convertAll, convertTo] at hh
      cases hr : convertAll .UInt32 r with
      | error e => rw [hr] at hh; cases hh; exact ih hr
      | ok cs => rw [hr] at hh; cases hh

/-- **An enum definition never panics** under the hypotheses `membersOk`: not on overflow of the implicit
successor, not in the range computation, not in the conversion to the underlying type. -/
theorem defineEnum_noPanic (ms : List Member) (hok : membersOk ms = true) (msg : String) :
    defineEnum ms ≠ .error (.panic msg) := by
  intro h
  unfold defineEnum at h
  obtain ⟨c1, c2⟩ := collect_noPanic ms 0 none hok (by intro l hl; cases hl)
  cases hc : collect 0 none ms with
  | error e => simp only [hc] at h; cases h; exact c1 msg hc
  | ok cs =>
    simp only [hc] at h
    cases hw : widenAll cs with
    | error e => simp only [hw] at h; cases h; exact widenAll_noPanic cs (c2 cs hc) msg hw
    | ok vs =>
      simp only [hw] at h
      cases hp : pickUnderlying (minOf vs) (maxOf vs) enumCandidates with
      | error e =>
        simp only [hp] at h; cases h
        simp only [enumCandidates, pickUnderlying, tyRange] at hp
        split at hp
        · cases hp
        · split at hp <;> cases hp
      | ok s =>
        simp only [hp] at h
        have hs : s = .Int32 ∨ s = .UInt32 := by
          simp only [enumCandidates, pickUnderlying, tyRange] at hp
          split at hp
          · cases hp; exact .inl rfl
          · split at hp
            · cases hp; exact .inr rfl
            · cases hp
        cases hcv : convertAll s vs with
        | error e => simp only [hcv] at h; cases h; exact convertAll_noPanic s hs vs msg hcv
        | ok o => simp [hcv] at h

end RsslVerif.Lemmas.ConstPos

import RsslVerif.Gen.RankTable
/-!
# Model of `ImplicitConversion::find` / `get_rank` (typer/src/casting.rs)

Shared by C16 (overload resolution) and C03 (elaboration inserts only conversions that `find` allows).

## What is modelled

* Types are *structural*: the Rust code works with `TypeId`s into a hash-consing `TypeRegistry`
  (`register_type` returns the existing id of an equal layer), so `TypeId` equality and `TypeLayer`
  equality are structural equality.  A type here is an optional modifier wrapped around one layer,
  exactly the shape `extract_modifier` sees.
* `Layer` keeps the three numeric layers apart (`Scalar`, `Vector(inner, n)`, `Matrix(inner, x, y)`);
  the inner type of a vector / matrix is a scalar (what the parser can produce).  `enum id` is
  `TypeLayer::Enum`; every other layer (`Void`, `Struct`, `Object`, `Array`, ...) is `other id`: `find`
  never looks inside those, it only compares them for equality.
* `Modifier` keeps `is_const` and `volatile` (the two fields `find` reads) and packs the remaining
  booleans (`row_major`, `column_major`, `unorm`, `snorm`) into `rest`, which is only compared.
* `find` returns `Except String (Option Conversion)`: `.error site` is a Rust panic (`unreachable!()` of the
  rank table), `.ok none` is `Err(())`, `.ok (some c)` is `Ok(c)`.
* `getRank` returns `Except String Rank`: `.error` is the `panic!("invalid vector cast ..")` arm.  Up to /repo
  368a51b it was reachable (scalar → matrix); since that fix every dimension cast `find` can build has an arm
  (`Thm.C16.findRank_total`), which is re-proved against the regenerated `vecRankOf` on every run.

The tables (`primaryRank`, `vecRankOf`, `NumRank.order`, `compareTable`, `VecRank.worstToBest`,
`InputModifier.needsLvalue`) are not written here: they are re-extracted from the Rust source into
`Gen/RankTable.lean` on every run.  The dimension-cast logic of `find` is hand-written below, arm by arm
in source order, and is tied to the code by the exhaustive `C16.conv` correspondence table.
-/
namespace RsslVerif.Model.Conv
open RsslVerif.Gen.RankTable

/-- `ir::TypeModifier`: the two fields `find` inspects, the rest packed (only ever compared) -/
structure Modifier where
  isConst : Bool := false
  volatile : Bool := false
  rest : Nat := 0
  deriving DecidableEq, Repr, Inhabited

/-- `TypeModifier::default()` -/
def Modifier.none : Modifier := {}

/-- `ir::TypeLayer` after `extract_modifier` -/
inductive Layer where
  | scalar (s : Scalar)
  | vector (s : Scalar) (n : Nat)
  | matrix (s : Scalar) (x y : Nat)
  | enum (id : Nat)
  | other (id : Nat)
  deriving DecidableEq, Repr, Inhabited

/-- a (possibly modified) type: `TypeLayer::Modifier(mod, layer)` or just `layer` when `mod` is default -/
structure Ty where
  mod : Modifier := {}
  layer : Layer
  deriving DecidableEq, Repr, Inhabited

/-- `ir::ValueType` -/
inductive VT where | lvalue | rvalue
  deriving DecidableEq, Repr, Inhabited

/-- `ir::ExpressionType` -/
structure ETy where
  ty : Ty
  vt : VT
  deriving DecidableEq, Repr, Inhabited

/-- `TypeRegistry::extract_scalar` on an unmodified type -/
def Layer.extractScalar : Layer → Option Scalar
  | .scalar s => some s
  | .vector s _ => some s
  | .matrix s _ _ => some s
  | _ => Option.none

/-- `casting::PrimaryCast` -/
structure PrimaryCast where
  source : Layer
  dest : Layer
  rank : NumRank
  deriving DecidableEq, Repr

/-- `casting::ImplicitConversion(source, value_type_cast, dimension_cast, primary_cast, modifier_cast)`.
    `ValueTypeCast(ty, Lvalue, Rvalue)` carries no information beyond the source type, so it is a flag. -/
structure Conversion where
  source : ETy
  valueCast : Bool
  dimCast : Option (Dim × Dim)
  primary : Option PrimaryCast
  modCast : Option Modifier
  deriving DecidableEq, Repr

/-- `ConversionRank(NumericRank, VectorRank)` -/
structure Rank where
  num : NumRank
  vec : VecRank
  deriving DecidableEq, Repr, Inhabited

/-- outcome of the `let dimension_cast = match &dest_l { .. }` block: `none` = `return Err(())` -/
def dimensionCast (sl dl : Layer) (destLvalue : Bool) : Option (Option (Dim × Dim)) :=
  -- `ty2 if &source_l == ty2 => None`
  if sl = dl then some Option.none else
  match dl with
  | .scalar ds =>
    match sl, destLvalue with
    -- Scalar to scalar
    | .scalar _, false => some Option.none
    | .vector s1 x1, lv =>
      -- vector1 to scalar of same type (works for lvalues): `*s1 == dest_id && *x1 == 1`
      if s1 = ds ∧ x1 = 1 then some (some (.vector 1, .scalar))
      -- Vector first element to scalar
      else if lv = false then some (some (.vector x1, .scalar))
      else Option.none
    -- Enum to scalar
    | .enum _, false => some Option.none
    | _, _ => Option.none
  | .vector s2 x2 =>
    match sl, destLvalue with
    | .scalar ss, lv =>
      -- Scalar to vector1 of same type (works for lvalues): `source_id == *s2 && *x2 == 1`
      if ss = s2 ∧ x2 = 1 then some (some (.scalar, .vector 1))
      -- Scalar to vector (mirror)
      else if lv = false then some (some (.scalar, .vector x2))
      else Option.none
    | .vector _ x1, false =>
      -- Single vector to vector (mirror)
      if x1 = 1 then some (some (.vector 1, .vector x2))
      -- Vector same dimension
      else if x1 = x2 then some Option.none
      -- Vector cull additional elements
      else if x2 < x1 then some (some (.vector x1, .vector x2))
      else Option.none
    | _, _ => Option.none
  | .matrix _ x2 y2 =>
    match sl, destLvalue with
    -- Scalar to matrix (mirror)
    | .scalar _, false => some (some (.scalar, .matrix x2 y2))
    -- Matrix same dimension
    | .matrix _ x1 y1, false => if x1 = x2 ∧ y1 = y2 then some Option.none else Option.none
    | _, _ => Option.none
  -- Non-numeric casts only supported for same type source / destination
  | _ => Option.none

/-- outcome of the `let primary_cast = ..` block: `.error` = panic, `.ok none` = `return Err(())` -/
def primaryCast (sl dl : Layer) : Except String (Option (Option PrimaryCast)) :=
  if sl = dl then .ok (some Option.none) else
  match sl with
  | .enum _ =>
    match dl.extractScalar with
    | some s => if s ≠ .intLiteral then .ok (some (some ⟨sl, dl, .enumToNumeric⟩)) else .ok Option.none
    | Option.none => .ok Option.none
  | _ =>
    match sl.extractScalar, dl.extractScalar with
    | some ss, some ds =>
      if ss = ds then .ok (some Option.none) else
      match primaryRank ss ds with
      | some r => .ok (some (some ⟨sl, dl, r⟩))
      | Option.none => .error "casting.rs: unreachable!() in the (source_scalar, dest_scalar) match"
    | _, _ => .ok Option.none

/-- outcome of the `let modifier_cast = ..` block: `none` = `return Err(())` -/
def modifierCast (mods modd : Modifier) (destLvalue : Bool) : Option (Option Modifier) :=
  if mods ≠ modd then
    if destLvalue ∧ ((mods.isConst ∧ ¬ modd.isConst) ∨ (mods.volatile ∧ ¬ modd.volatile)) then Option.none
    else some (some modd)
  else some Option.none

/-- the `else if primary_cast.is_some() && modd != TypeModifier::default()` arm of the `modifier_cast` block
    (fix 828cdd4): when source and destination modifiers are equal (`mc = none`) but a primary cast produces the
    unmodified destination type, the shared modifier is applied again -/
def sharedModifierCast (pc : Option PrimaryCast) (modd : Modifier) (mc : Option Modifier) : Option Modifier :=
  match mc with
  | some m => some m
  | Option.none => if pc.isSome ∧ modd ≠ {} then some modd else Option.none

/-- `ImplicitConversion::find(source, dest, module)` -/
def find (source dest : ETy) : Except String (Option Conversion) :=
  -- `(&Rvalue, &Lvalue) => return Err(())`
  if source.vt = .rvalue ∧ dest.vt = .lvalue then .ok Option.none else
  let valueCast := decide (source.vt = .lvalue ∧ dest.vt = .rvalue)
  let destLvalue := decide (dest.vt = .lvalue)
  match dimensionCast source.ty.layer dest.ty.layer destLvalue with
  | Option.none => .ok Option.none
  | some dc =>
    match primaryCast source.ty.layer dest.ty.layer with
    | .error e => .error e
    | .ok Option.none => .ok Option.none
    | .ok (some pc) =>
      match modifierCast source.ty.mod dest.ty.mod destLvalue with
      | Option.none => .ok Option.none
      | some mc => .ok (some ⟨source, valueCast, dc, pc, sharedModifierCast pc dest.ty.mod mc⟩)

/-- `ImplicitConversion::get_rank`; `.error` = `panic!("invalid vector cast ..")` -/
def getRank (c : Conversion) : Except String Rank :=
  match vecRankOf c.dimCast with
  | Option.none => .error "casting.rs: invalid vector cast"
  | some v =>
    .ok ⟨match c.primary with | some p => p.rank | Option.none => .exact, v⟩

/-- `find` followed by `get_rank`: what overload resolution consumes.
    `.error` = panic, `.ok none` = no implicit conversion -/
def findRank (source dest : ETy) : Except String (Option Rank) :=
  match find source dest with
  | .error e => .error e
  | .ok Option.none => .ok Option.none
  | .ok (some c) =>
    match getRank c with
    | .error e => .error e
    | .ok r => .ok (some r)

/-- numeric dimension of a layer (`None` for non-numeric), as computed in `get_target_type` -/
def Layer.dim : Layer → Option Dim
  | .scalar _ => some .scalar
  | .vector _ n => some (.vector n)
  | .matrix _ x y => some (.matrix x y)
  | _ => Option.none

/-- rebuild a numeric layer from a scalar and a dimension (`register_type` in `get_target_type`) -/
def Layer.ofDim (s : Scalar) : Dim → Layer
  | .scalar => .scalar s
  | .vector n => .vector s n
  | .matrix x y => .matrix s x y

/-- `ImplicitConversion::get_target_type`; `.error` = `panic!("dimension cast on non numeric type")` -/
def targetType (c : Conversion) : Except String ETy :=
  let ty : ETy := if c.valueCast then ⟨c.source.ty, .rvalue⟩ else c.source
  let dim : Option Dim := match c.dimCast with
    | some (_, d) => some d
    | Option.none => ty.ty.layer.dim
  let r : Except String ETy :=
    match c.primary with
    | some pc => .ok ⟨⟨{}, pc.dest⟩, .rvalue⟩
    | Option.none =>
      match dim with
      | some d =>
        match ty.ty.layer.extractScalar with
        | some s => .ok ⟨⟨ty.ty.mod, Layer.ofDim s d⟩, ty.vt⟩
        | Option.none => .error "casting.rs: dimension cast on non numeric type"
      | Option.none => .ok ty
  match r with
  | .error e => .error e
  | .ok t =>
    match c.modCast with
    | some m => .ok ⟨⟨m, t.ty.layer⟩, t.vt⟩
    | Option.none => .ok t

end RsslVerif.Model.Conv

import RsslVerif.Lemmas.Lexer
/-!
# The lexer model looks only a bounded, stopper-terminated distance past a token

Trivia texts begin with one of six bytes (space, tab, LF, CR, backslash, slash): "stoppers".  No pattern the
lexer tries to extend a token with accepts a stopper.  `OkStable g`: if `g` consumed `c` from `c ++ q ++ s` and
succeeded, it gives the same answer on `c ++ q ++ s'` for every `s'` that is empty or begins with a stopper —
whatever `s` was.  `ErrStable g`: a failure stays a failure.  These are proved for every sub-lexer that the
number / word paths of `token_intermediate` use.
-/
namespace RsslVerif.Lemmas.LexStable
open RsslVerif.Gen.LexTables RsslVerif.Model.Lexer

/-- the bytes a trivia text can begin with: space, tab, LF, CR, `\`, `/` -/
def isStop (b : UInt8) : Bool :=
  b.toNat == 32 || b.toNat == 9 || b.toNat == 10 || b.toNat == 13 || b.toNat == 92 || b.toNat == 47

/-- the text ends here or continues with a stopper -/
def HeadStop : Bytes → Prop
  | [] => True
  | b :: _ => isStop b = true

theorem isStop_cases {b : UInt8} (h : isStop b = true) :
    b.toNat = 32 ∨ b.toNat = 9 ∨ b.toNat = 10 ∨ b.toNat = 13 ∨ b.toNat = 92 ∨ b.toNat = 47 := by
  simp only [isStop, Bool.or_eq_true, beq_iff_eq] at h
  omega

def OkStable {α : Type} (g : Bytes → LexResult α) : Prop :=
  ∀ (c q s s' : Bytes) (a : α), g (c ++ (q ++ s)) = .ok (q ++ s, a) → HeadStop s' →
    g (c ++ (q ++ s')) = .ok (q ++ s', a)

def ErrStable {α : Type} (g : Bytes → LexResult α) : Prop :=
  ∀ (p s s' : Bytes) (e : LexErr), g (p ++ s) = .error e → HeadStop s' → ∃ e', g (p ++ s') = .error e'

/-- a function on bytes that rejects every stopper -/
def StopBlind {β : Type} (f : UInt8 → Option β) : Prop := ∀ b, isStop b = true → f b = none

theorem decDigit_blind : StopBlind decDigit? := by
  intro b h
  rcases isStop_cases h with h | h | h | h | h | h <;> simp [decDigit?, h]

theorem octDigit_blind : StopBlind octDigit? := by
  intro b h
  rcases isStop_cases h with h | h | h | h | h | h <;> simp [octDigit?, h]

theorem hexDigit_blind : StopBlind hexDigit? := by
  intro b h
  rcases isStop_cases h with h | h | h | h | h | h <;> simp [hexDigit?, h]

theorem identChar_stop {b : UInt8} (h : isStop b = true) : isIdentChar b = false := by
  rcases isStop_cases h with h | h | h | h | h | h <;> simp [isIdentChar, isIdentStart, h]

/-- the head of `q ++ s'` behaves like the head of `q ++ s` for a stopper-blind test that failed -/
theorem head_cases (q s s' : Bytes) (hs : HeadStop s') :
    (∃ b r, q = b :: r) ∨ (q = [] ∧ (s' = [] ∨ ∃ b r, s' = b :: r ∧ isStop b = true)) := by
  cases q with
  | cons b r => exact Or.inl ⟨b, r, rfl⟩
  | nil =>
    right
    refine ⟨rfl, ?_⟩
    cases s' with
    | nil => exact Or.inl rfl
    | cons b r => exact Or.inr ⟨b, r, rfl, hs⟩

/-- length bookkeeping: a result `q ++ s` of an input `c ++ (q ++ s)` with `c` non-empty is shorter -/
theorem len_lt {c q s : Bytes} (hc : c ≠ []) : (q ++ s).length < (c ++ (q ++ s)).length := by
  cases c with
  | nil => exact absurd rfl hc
  | cons a t => simp [List.length_append]; omega

/-! ## `digitWith`, `spanDigits`, `digitSequence` -/

theorem digitWith_okStable (f : UInt8 → Option Nat) : OkStable (digitWith f) := by
  intro c q s s' a h _
  cases c with
  | nil =>
    -- nothing consumed is impossible for an `.ok`
    have := digitWith_ok h
    obtain ⟨b, hb, _⟩ := this
    have := congrArg List.length hb
    simp only [List.nil_append, List.length_cons] at this
    omega
  | cons b c =>
    simp only [List.cons_append, digitWith] at h ⊢
    split at h
    · rename_i n hf
      simp only [Except.ok.injEq, Prod.mk.injEq] at h
      have hl := congrArg List.length h.1
      simp only [List.length_append] at hl
      have hc : c = [] := by
        cases c with
        | nil => rfl
        | cons x t => simp at hl <;> omega
      subst hc
      simp [h.2]
    · simp [wrongChars] at h

theorem digitWith_errStable (f : UInt8 → Option Nat) (hf : StopBlind f) : ErrStable (digitWith f) := by
  intro p s s' e h hs
  cases p with
  | nil =>
    simp only [List.nil_append] at h ⊢
    cases s' with
    | nil => exact ⟨_, rfl⟩
    | cons b r => simp only [digitWith, hf b hs]; exact ⟨_, rfl⟩
  | cons b p =>
    simp only [List.cons_append, digitWith] at h ⊢
    split at h
    · cases h
    · exact ⟨_, rfl⟩

theorem spanDigits_len (x : Bytes) : (spanDigits x).1.length + (spanDigits x).2.length = x.length := by
  induction x with
  | nil => simp [spanDigits]
  | cons b r ih =>
    simp only [spanDigits]
    split <;> simp <;> omega

theorem spanDigits_stable (c q s s' : Bytes) (ds : List Nat)
    (h : spanDigits (c ++ (q ++ s)) = (ds, q ++ s)) (hs : HeadStop s') :
    spanDigits (c ++ (q ++ s')) = (ds, q ++ s') := by
  induction c generalizing ds with
  | nil =>
    simp only [List.nil_append] at h ⊢
    have hl := spanDigits_len (q ++ s)
    rw [h] at hl
    have hds : ds = [] := by
      cases ds with
      | nil => rfl
      | cons d t => simp at hl
    subst hds
    cases q with
    | nil =>
      simp only [List.nil_append]
      cases s' with
      | nil => simp [spanDigits]
      | cons b r => simp [spanDigits, decDigit_blind b hs]
    | cons b r =>
      simp only [List.cons_append, spanDigits] at h ⊢
      split at h
      · simp at h
      · rfl
  | cons b c ih =>
    simp only [List.cons_append, spanDigits] at h ⊢
    split at h
    · rename_i d hd
      simp only [Prod.mk.injEq] at h
      have := ih (spanDigits (c ++ (q ++ s))).1 (Prod.ext rfl h.2)
      rw [this, ← h.1]
    · simp only [Prod.mk.injEq] at h
      have := congrArg List.length h.2
      simp [List.length_append] at this
      omega

theorem digitSequence_okStable : OkStable digitSequence := by
  intro c q s s' a h hs
  cases c with
  | nil =>
    exfalso
    have := digitSequence_strict (q ++ s)
    simp only [List.nil_append] at h
    rw [h] at this
    simp [Strict] at this
  | cons b c =>
    simp only [digitSequence, List.cons_append, digitWith] at h ⊢
    cases hd : decDigit? b with
    | none => simp [hd, wrongChars] at h
    | some d =>
      simp only [hd, Except.ok.injEq, Prod.mk.injEq] at h ⊢
      have := spanDigits_stable c q s s' (spanDigits (c ++ (q ++ s))).1 (Prod.ext rfl h.1) hs
      rw [this]
      exact ⟨rfl, h.2⟩

theorem digitSequence_errStable : ErrStable digitSequence := by
  intro p s s' e h hs
  have h1 : ∃ e1, digitWith decDigit? (p ++ s) = .error e1 := by
    simp only [digitSequence] at h
    split at h
    · exact ⟨_, by assumption⟩
    · cases h
  obtain ⟨e1, h1⟩ := h1
  obtain ⟨e2, h2⟩ := digitWith_errStable decDigit? decDigit_blind p s s' e1 h1 hs
  exact ⟨e2, by simp [digitSequence, h2]⟩

/-! ## composition helpers -/

theorem split_mid {c q s i1 : Bytes} (h1 : i1 <:+ c ++ (q ++ s)) (h2 : (q ++ s) <:+ i1) :
    ∃ c1 q1, c = c1 ++ q1 ∧ i1 = q1 ++ (q ++ s) := by
  obtain ⟨t, ht⟩ := h2
  obtain ⟨u, hu⟩ := h1
  refine ⟨u, t, ?_, ht.symm⟩
  rw [← ht, ← List.append_assoc] at hu
  exact (List.append_cancel_right hu).symm

theorem OkStable.mid {α : Type} {g : Bytes → LexResult α} (hg : OkStable g) {c1 q1 q s s' : Bytes} {a : α}
    (h : g (c1 ++ (q1 ++ (q ++ s))) = .ok (q1 ++ (q ++ s), a)) (hs : HeadStop s') :
    g (c1 ++ (q1 ++ (q ++ s'))) = .ok (q1 ++ (q ++ s'), a) := by
  have := hg c1 (q1 ++ q) s s' a (by simpa [List.append_assoc] using h) hs
  simpa [List.append_assoc] using this

/-- `c = []` when nothing was consumed -/
theorem nil_of_same_len {c x : Bytes} (h : c ++ x = x) : c = [] := by
  have := congrArg List.length h
  cases c with
  | nil => rfl
  | cons a t => simp [List.length_append] at this; omega

/-- `opt(g)`: the rest and the optional element are the same on the edited text -/
theorem opt_stable {α : Type} {g : Bytes → LexResult α} (hok : OkStable g) (herr : ErrStable g)
    (c q s s' : Bytes) (h : (opt (g (c ++ (q ++ s))) (c ++ (q ++ s))).1 = q ++ s) (hs : HeadStop s') :
    opt (g (c ++ (q ++ s'))) (c ++ (q ++ s')) = (q ++ s', (opt (g (c ++ (q ++ s))) (c ++ (q ++ s))).2) := by
  cases hg : g (c ++ (q ++ s)) with
  | ok ra =>
    obtain ⟨rest, a⟩ := ra
    simp only [hg, opt] at h ⊢
    subst h
    rw [hok c q s s' a hg hs]
  | error e =>
    simp only [hg, opt] at h ⊢
    have hc := nil_of_same_len h
    subst hc
    obtain ⟨e', he'⟩ := herr q s s' e (by simpa using hg) hs
    simp only [List.nil_append] at he' ⊢
    rw [he']

/-! ## `sign`, `float_type` -/

theorem ok_rest_nil {α : Type} {c q s : Bytes} {v a : α}
    (hv : (Except.ok (c ++ (q ++ s), v) : LexResult α) = .ok (q ++ s, a)) : c = [] ∧ v = a := by
  simp only [Except.ok.injEq, Prod.mk.injEq] at hv
  exact ⟨nil_of_same_len hv.1, hv.2⟩

theorem sign_okStable : OkStable sign := by
  intro c q s s' a h _
  cases c with
  | nil =>
    exfalso
    simp only [List.nil_append] at h
    cases hx : q ++ s with
    | nil => rw [hx] at h; simp [sign, wrongChars] at h
    | cons b r =>
      rw [hx] at h
      simp only [sign] at h
      by_cases h43 : b.toNat = 43
      · simp only [h43, if_true, Except.ok.injEq, Prod.mk.injEq] at h
        have := congrArg List.length h.1; simp at this
      · by_cases h45 : b.toNat = 45
        · rw [if_neg h43, if_pos h45] at h
          simp only [Except.ok.injEq, Prod.mk.injEq] at h
          have := congrArg List.length h.1; simp at this
        · rw [if_neg h43, if_neg h45] at h; simp [wrongChars] at h
  | cons b c =>
    simp only [List.cons_append, sign] at h ⊢
    by_cases h43 : b.toNat = 43
    · simp only [h43, if_true] at h ⊢
      obtain ⟨rfl, rfl⟩ := ok_rest_nil h; simp
    · by_cases h45 : b.toNat = 45
      · rw [if_neg h43, if_pos h45] at h ⊢
        obtain ⟨rfl, rfl⟩ := ok_rest_nil h; simp
      · rw [if_neg h43, if_neg h45] at h; simp [wrongChars] at h

theorem sign_errStable : ErrStable sign := by
  intro p s s' e h hs
  cases p with
  | nil =>
    simp only [List.nil_append]
    cases s' with
    | nil => exact ⟨_, rfl⟩
    | cons b r =>
      have hb := isStop_cases hs
      simp only [sign]
      have h1 : ¬ b.toNat = 43 := by omega
      have h2 : ¬ b.toNat = 45 := by omega
      simp only [h1, h2, if_false]
      exact ⟨_, rfl⟩
  | cons b p =>
    simp only [List.cons_append, sign] at h ⊢
    by_cases h43 : b.toNat = 43
    · rw [if_pos h43] at h; cases h
    · by_cases h45 : b.toNat = 45
      · rw [if_neg h43, if_pos h45] at h; cases h
      · rw [if_neg h43, if_neg h45]; exact ⟨_, rfl⟩

/-- no byte of the table is a stopper -/
def natsBlind (bs : List Nat) : Bool :=
  bs.all fun n => !(n == 32 || n == 9 || n == 10 || n == 13 || n == 92 || n == 47)

def rowsBlind (rows : List (List Nat × FloatType)) : Bool := rows.all fun row => natsBlind row.1

theorem contains_stop_false {bs : List Nat} (hb : natsBlind bs = true)
    {b : UInt8} (hs : isStop b = true) : bs.contains b.toNat = false := by
  rw [Bool.eq_false_iff]
  intro hc
  have hm : b.toNat ∈ bs := by simpa using hc
  have := List.all_eq_true.1 hb _ hm
  have hcases := isStop_cases hs
  simp at this
  omega

theorem floatTypeFrom_okStable (rows : List (List Nat × FloatType)) : OkStable (floatTypeFrom rows) := by
  intro c q s s' a h _
  cases c with
  | nil =>
    exfalso
    simp only [List.nil_append] at h
    have hlen : ∀ (rows : List (List Nat × FloatType)) (x rest : Bytes) (a : FloatType),
        floatTypeFrom rows x = .ok (rest, a) → rest.length < x.length := by
      intro rows
      induction rows with
      | nil => intro x rest a hx; cases x <;> simp [floatTypeFrom, wrongChars] at hx
      | cons row rows ih =>
        intro x rest a hx
        obtain ⟨bs, k⟩ := row
        cases x with
        | nil => simp [floatTypeFrom, wrongChars] at hx
        | cons b r =>
          simp only [floatTypeFrom] at hx
          by_cases hc : bs.contains b.toNat = true
          · simp only [hc, if_true, Except.ok.injEq, Prod.mk.injEq] at hx
            rw [← hx.1]; simp
          · simp only [hc] at hx
            exact ih _ _ _ hx
    have := hlen rows _ _ _ h
    omega
  | cons b c =>
    induction rows with
    | nil => simp [floatTypeFrom, wrongChars] at h
    | cons row rows ih =>
      obtain ⟨bs, k⟩ := row
      simp only [List.cons_append, floatTypeFrom] at h ⊢
      by_cases hc : bs.contains b.toNat = true
      · simp only [hc, if_true] at h ⊢
        obtain ⟨rfl, rfl⟩ := ok_rest_nil h; simp
      · simp only [hc] at h ⊢
        exact ih h

theorem floatTypeFrom_errStable (rows : List (List Nat × FloatType)) (hb : rowsBlind rows = true) :
    ErrStable (floatTypeFrom rows) := by
  intro p s s' e h hs
  cases p with
  | nil =>
    simp only [List.nil_append]
    cases s' with
    | nil => cases rows <;> exact ⟨_, rfl⟩
    | cons b r =>
      clear h
      induction rows with
      | nil => exact ⟨_, rfl⟩
      | cons row rows ih =>
        obtain ⟨bs, k⟩ := row
        simp only [rowsBlind, List.all_cons, Bool.and_eq_true] at hb
        simp only [floatTypeFrom, contains_stop_false hb.1 hs]
        exact ih hb.2
  | cons b p =>
    induction rows generalizing e with
    | nil => exact ⟨_, rfl⟩
    | cons row rows ih =>
      obtain ⟨bs, k⟩ := row
      simp only [rowsBlind, List.all_cons, Bool.and_eq_true] at hb
      simp only [List.cons_append, floatTypeFrom] at h ⊢
      by_cases hc : bs.contains b.toNat = true
      · rw [if_pos hc] at h; cases h
      · rw [if_neg hc] at h ⊢
        exact ih hb.2 e h

theorem floatType_okStable : OkStable floatType := floatTypeFrom_okStable _
theorem floatType_errStable : ErrStable floatType := floatTypeFrom_errStable _ (by decide)

/-! ## sequencing -/

/-- first stage of a sequence: it consumed `c1`, the later stages consume inside `q1` -/
theorem seq_stable {α : Type} {g1 : Bytes → LexResult α} (h1 : OkStable g1) (hg1 : ∀ x, Good x (g1 x))
    {c q s s' i1 : Bytes} {a1 : α} (hx : g1 (c ++ (q ++ s)) = .ok (i1, a1)) (hsuf : (q ++ s) <:+ i1)
    (hs : HeadStop s') :
    ∃ c1 q1, c = c1 ++ q1 ∧ i1 = q1 ++ (q ++ s) ∧ g1 (c1 ++ (q1 ++ (q ++ s'))) = .ok (q1 ++ (q ++ s'), a1) := by
  have hgood := hg1 (c ++ (q ++ s))
  rw [hx] at hgood
  obtain ⟨c1, q1, hc, hi⟩ := split_mid hgood hsuf
  refine ⟨c1, q1, hc, hi, ?_⟩
  subst hc hi
  exact h1.mid (by simpa [List.append_assoc] using hx) hs

/-- the same for an optional stage -/
theorem opt_seq_stable {α : Type} {g : Bytes → LexResult α} (hok : OkStable g) (herr : ErrStable g)
    (hg : ∀ x, Good x (g x)) {c q s s' : Bytes}
    (hsuf : (q ++ s) <:+ (opt (g (c ++ (q ++ s))) (c ++ (q ++ s))).1) (hs : HeadStop s') :
    ∃ c1 q1, c = c1 ++ q1 ∧ (opt (g (c ++ (q ++ s))) (c ++ (q ++ s))).1 = q1 ++ (q ++ s) ∧
      opt (g (c1 ++ (q1 ++ (q ++ s')))) (c1 ++ (q1 ++ (q ++ s'))) =
        (q1 ++ (q ++ s'), (opt (g (c ++ (q ++ s))) (c ++ (q ++ s))).2) := by
  have hsuf1 := opt_suffix (List.suffix_refl _) (hg (c ++ (q ++ s)))
  obtain ⟨c1, q1, hc, hi⟩ := split_mid hsuf1 hsuf
  refine ⟨c1, q1, hc, hi, ?_⟩
  subst hc
  have := opt_stable hok herr c1 (q1 ++ q) s s' (by simpa [List.append_assoc] using hi) hs
  simpa [List.append_assoc] using this

/-! ## `float_exponent` -/

theorem digitSequence_stop {s' : Bytes} (hs : HeadStop s') : ∃ e, digitSequence s' = .error e := by
  have := digitSequence_errStable [] [] s' (.lex .static .EndOfStream) (by simp [digitSequence, digitWith, endOfStream]) hs
  simpa using this

theorem sign_stop {s' : Bytes} (hs : HeadStop s') : ∃ e, sign s' = .error e := by
  have := sign_errStable [] [] s' (.lex (.rest []) .UnexpectedBytes) (by simp [sign, wrongChars]) hs
  simpa using this

/-- the part of `float_exponent` after the `e`: optional sign, mandatory digits -/
def expTail (r : Bytes) : LexResult Int :=
  match digitSequence (opt (sign r) r).1 with
  | .error e => .error e
  | .ok (i3, ds) =>
    .ok (i3, if (opt (sign r) r).2 = some true then -((satExp ds : Nat) : Int) else ((satExp ds : Nat) : Int))

theorem floatExponent_cons (b : UInt8) (r : Bytes) :
    floatExponent (b :: r) = if b.toNat = 101 ∨ b.toNat = 69 then expTail r else wrongChars (b :: r) := by
  rfl

theorem expTail_good (r : Bytes) : Good r (expTail r) := by
  have hs : (opt (sign r) r).1 <:+ r := opt_suffix (List.suffix_refl _) (sign_good r)
  have hd := Good.mono hs (digitSequence_good (opt (sign r) r).1)
  unfold expTail
  cases hx : digitSequence (opt (sign r) r).1 with
  | error e => rw [hx] at hd; exact Good.error_cast hd
  | ok ra => obtain ⟨i3, ds⟩ := ra; rw [hx] at hd; exact hd

theorem expTail_okStable : OkStable expTail := by
  intro c q s s' a h hs
  unfold expTail at h
  cases hd : digitSequence (opt (sign (c ++ (q ++ s))) (c ++ (q ++ s))).1 with
  | error e => rw [hd] at h; cases h
  | ok ra =>
    obtain ⟨i3, ds⟩ := ra
    rw [hd] at h
    simp only [Except.ok.injEq, Prod.mk.injEq] at h
    obtain ⟨hi3, ha⟩ := h
    subst hi3
    have hsuf : (q ++ s) <:+ (opt (sign (c ++ (q ++ s))) (c ++ (q ++ s))).1 := by
      have := digitSequence_good (opt (sign (c ++ (q ++ s))) (c ++ (q ++ s))).1
      rw [hd] at this
      exact this
    obtain ⟨c1, q1, hc, hi, hopt⟩ := opt_seq_stable sign_okStable sign_errStable sign_good hsuf hs
    subst hc
    rw [hi] at hd
    have hd' := digitSequence_okStable q1 q s s' ds hd hs
    unfold expTail
    simp only [List.append_assoc] at hopt ha ⊢
    rw [hopt]
    simp only [hd', ha]

theorem expTail_stop {s' : Bytes} (hs : HeadStop s') : ∃ e, expTail s' = .error e := by
  obtain ⟨e1, h1⟩ := sign_stop hs
  obtain ⟨e2, h2⟩ := digitSequence_stop hs
  exact ⟨e2, by simp [expTail, opt, h1, h2]⟩

theorem expTail_errStable : ErrStable expTail := by
  intro p s s' e h hs
  cases p with
  | nil => simpa using expTail_stop hs
  | cons b p =>
    -- does `sign` take the first byte?
    cases hsg : sign (b :: (p ++ s)) with
    | error e1 =>
      obtain ⟨e1', hsg'⟩ := sign_errStable (b :: p) s s' e1 (by simpa using hsg) hs
      simp only [List.cons_append] at hsg' h ⊢
      simp only [expTail, hsg, hsg', opt] at h ⊢
      cases hd : digitSequence (b :: (p ++ s)) with
      | ok ra => rw [hd] at h; cases h
      | error e2 =>
        obtain ⟨e2', hd'⟩ := digitSequence_errStable (b :: p) s s' e2 (by simpa using hd) hs
        simp only [List.cons_append] at hd'
        exact ⟨e2', by rw [hd']⟩
    | ok ra =>
      obtain ⟨rest, v⟩ := ra
      -- `sign` consumed exactly `b`
      have hrest : rest = p ++ s := by
        simp only [sign] at hsg
        by_cases h43 : b.toNat = 43
        · rw [if_pos h43] at hsg; simp at hsg; exact hsg.1.symm
        · by_cases h45 : b.toNat = 45
          · rw [if_neg h43, if_pos h45] at hsg; simp at hsg; exact hsg.1.symm
          · rw [if_neg h43, if_neg h45] at hsg; simp [wrongChars] at hsg
      subst hrest
      have hsg' : sign (b :: (p ++ s')) = .ok (p ++ s', v) := by
        have := sign_okStable [b] p s s' v (by simpa using hsg) hs
        simpa using this
      simp only [List.cons_append] at h ⊢
      simp only [expTail, hsg, hsg', opt] at h ⊢
      cases hd : digitSequence (p ++ s) with
      | ok ra => rw [hd] at h; cases h
      | error e2 =>
        obtain ⟨e2', hd'⟩ := digitSequence_errStable p s s' e2 hd hs
        exact ⟨e2', by rw [hd']⟩

theorem floatExponent_okStable : OkStable floatExponent := by
  intro c q s s' a h hs
  cases c with
  | nil =>
    exfalso
    simp only [List.nil_append] at h
    cases hx : q ++ s with
    | nil => rw [hx] at h; simp [floatExponent, wrongChars] at h
    | cons b r =>
      rw [hx, floatExponent_cons] at h
      by_cases hb : b.toNat = 101 ∨ b.toNat = 69
      · rw [if_pos hb] at h
        have := expTail_good r
        rw [h] at this
        have := this.length_le
        simp at this
        omega
      · rw [if_neg hb] at h; simp [wrongChars] at h
  | cons b c =>
    simp only [List.cons_append] at h ⊢
    rw [floatExponent_cons] at h ⊢
    by_cases hb : b.toNat = 101 ∨ b.toNat = 69
    · rw [if_pos hb] at h ⊢
      exact expTail_okStable c q s s' a h hs
    · rw [if_neg hb] at h; simp [wrongChars] at h

theorem floatExponent_errStable : ErrStable floatExponent := by
  intro p s s' e h hs
  cases p with
  | nil =>
    simp only [List.nil_append]
    cases s' with
    | nil => exact ⟨_, rfl⟩
    | cons b r =>
      rw [floatExponent_cons]
      have hb := isStop_cases hs
      have : ¬ (b.toNat = 101 ∨ b.toNat = 69) := by omega
      rw [if_neg this]
      exact ⟨_, rfl⟩
  | cons b p =>
    simp only [List.cons_append] at h ⊢
    rw [floatExponent_cons] at h ⊢
    by_cases hb : b.toNat = 101 ∨ b.toNat = 69
    · rw [if_pos hb] at h ⊢
      exact expTail_errStable p s s' e h hs
    · rw [if_neg hb]; exact ⟨_, rfl⟩

/-! ## normal forms of the float lexer on a text that starts with a digit -/

theorem optDigits (r2 : Bytes) :
    (opt (digitSequence r2) r2).1 = (spanDigits r2).2 ∧ (opt (digitSequence r2) r2).2.getD [] = (spanDigits r2).1 := by
  cases r2 with
  | nil => simp [digitSequence, digitWith, endOfStream, opt, spanDigits]
  | cons b t =>
    cases hb : decDigit? b with
    | none => simp [digitSequence, digitWith, spanDigits, hb, wrongChars, opt]
    | some d => simp [digitSequence, digitWith, spanDigits, hb, opt]

theorem opt_ok {α : Type} (rest x : Bytes) (a : α) : opt (.ok (rest, a) : LexResult α) x = (rest, some a) := rfl
theorem opt_err {α : Type} (x : Bytes) (e : LexErr) : opt (.error e : LexResult α) x = (x, none) := rfl

theorem digitSequence_digit (b : UInt8) (r : Bytes) (d : Nat) (hd : decDigit? b = some d) :
    digitSequence (b :: r) = .ok ((spanDigits r).2, d :: (spanDigits r).1) := by
  simp [digitSequence, digitWith, hd]

/-- `fractional_constant` of a text that starts with a digit -/
def fracNF (d : Nat) (r : Bytes) : LexResult (List Nat × List Nat) :=
  match (spanDigits r).2 with
  | [] => otherTokenChars []
  | c :: i2 =>
    if c.toNat = 46 then .ok ((spanDigits i2).2, (d :: (spanDigits r).1, (spanDigits i2).1))
    else otherTokenChars (c :: i2)

theorem fractionalConstant_digit (b : UInt8) (r : Bytes) (d : Nat) (hd : decDigit? b = some d) :
    fractionalConstant (b :: r) = fracNF d r := by
  unfold fractionalConstant fracNF
  rw [digitSequence_digit b r d hd, opt_ok]
  simp only
  cases h : (spanDigits r).2 with
  | nil => rfl
  | cons c i2 =>
    by_cases hc : c.toNat = 46
    · simp only [hc, if_true, (optDigits i2).1, (optDigits i2).2]
    · simp only [hc, if_false]

/-- `float_mantissa` of a text that starts with a digit, in terms of the two digit runs -/
def mantissaNF (d : Nat) (r : Bytes) : Bytes × (Bool × List Nat × List Nat) :=
  match (spanDigits r).2 with
  | [] => ([], (false, d :: (spanDigits r).1, []))
  | c :: r2 =>
    if c.toNat = 46 then ((spanDigits r2).2, (true, d :: (spanDigits r).1, (spanDigits r2).1))
    else (c :: r2, (false, d :: (spanDigits r).1, []))

theorem floatMantissa_digit (b : UInt8) (r : Bytes) (d : Nat) (hd : decDigit? b = some d) :
    floatMantissa (b :: r) = .ok (mantissaNF d r) := by
  unfold floatMantissa mantissaNF
  rw [fractionalConstant_digit b r d hd]
  unfold fracNF
  cases h : (spanDigits r).2 with
  | nil => simp [otherTokenChars, opt, digitSequence_digit b r d hd, h]
  | cons c i2 =>
    by_cases hc : c.toNat = 46
    · simp [hc, opt]
    · simp [hc, otherTokenChars, opt, digitSequence_digit b r d hd, h]

/-- `literal_float` after the mantissa -/
def floatTail (input i2 : Bytes) (m : Bool × List Nat × List Nat) : LexResult Token :=
  if m.1 = false ∧ (opt (floatExponent i2) i2).2 = none then otherTokenChars input
  else
    match floatInf (opt (floatExponent i2) i2).1
        (float64FromParts m.2.1 m.2.2 ((opt (floatExponent i2) i2).2.getD 0)) (opt (floatExponent i2) i2).2.isSome with
    | .error e => .error e
    | .ok (i4, v) =>
      match (opt (floatType i4) i4).1 with
      | [] => .ok ((opt (floatType i4) i4).1, mkFloatToken v (opt (floatType i4) i4).2)
      | c :: r5 =>
        if isIdentChar c then
          if c.toNat = 120 then .error (.lex (.rest input) .OtherTokenBytes)
          else .error (.lex (.rest (opt (floatExponent i2) i2).1) .FloatInvalidSuffix)
        else .ok (c :: r5, mkFloatToken v (opt (floatType i4) i4).2)

theorem literalFloat_digit (b : UInt8) (r : Bytes) (d : Nat) (hd : decDigit? b = some d) :
    literalFloat (b :: r) = floatTail (b :: r) (mantissaNF d r).1 (mantissaNF d r).2 := by
  unfold literalFloat
  rw [floatMantissa_digit b r d hd]
  rfl

/-! ## fixed prefixes -/

theorem stripPrefix_append (pat y : Bytes) : stripPrefix? pat (pat ++ y) = some y := by
  induction pat with
  | nil => simp [stripPrefix?]
  | cons a pat ih => simp [stripPrefix?, ih]

theorem stripPrefix_okStable (pat c q s s' : Bytes) (h : stripPrefix? pat (c ++ (q ++ s)) = some (q ++ s)) :
    stripPrefix? pat (c ++ (q ++ s')) = some (q ++ s') := by
  have := stripPrefix?_eq h
  have hc : c = pat := List.append_cancel_right this
  subst hc
  exact stripPrefix_append _ _

def bytesBlind (pat : Bytes) : Bool := pat.all fun b => !isStop b

theorem stripPrefix_noneStable (pat : Bytes) (hb : bytesBlind pat = true) (p s s' : Bytes)
    (h : stripPrefix? pat (p ++ s) = none) (hs : HeadStop s') : stripPrefix? pat (p ++ s') = none := by
  induction pat generalizing p with
  | nil => simp [stripPrefix?] at h
  | cons a pat ih =>
    simp only [bytesBlind, List.all_cons, Bool.and_eq_true] at hb
    cases p with
    | nil =>
      simp only [List.nil_append]
      cases s' with
      | nil => rfl
      | cons b r =>
        simp only [stripPrefix?]
        have : a ≠ b := by
          intro hab; subst hab
          have h1 := hb.1
          have h2 : isStop a = true := hs
          rw [h2] at h1; cases h1
        rw [if_neg this]
    | cons b p =>
      simp only [List.cons_append, stripPrefix?] at h ⊢
      by_cases hab : a = b
      · rw [if_pos hab] at h ⊢
        exact ih hb.2 p h
      · rw [if_neg hab]

/-! ## `#INF` -/

theorem floatInf_okStable (v : Nat) (hasExp : Bool) : OkStable (fun pre => floatInf pre v hasExp) := by
  intro c q s s' a h hs
  simp only [floatInf] at h ⊢
  cases hp : stripPrefix? [35, 73, 78, 70] (c ++ (q ++ s)) with
  | some rest =>
    rw [hp] at h
    simp only at h
    by_cases hv : v ≠ 0 ∧ hasExp = false
    · rw [if_pos hv] at h
      simp only [Except.ok.injEq, Prod.mk.injEq] at h
      obtain ⟨hr, ha⟩ := h
      subst hr
      rw [stripPrefix_okStable _ c q s s' hp]
      simp only [if_pos hv, ha]
    · rw [if_neg hv] at h; cases h
  | none =>
    rw [hp] at h
    simp only [Except.ok.injEq, Prod.mk.injEq] at h
    have hc := nil_of_same_len h.1
    subst hc
    have := stripPrefix_noneStable [35, 73, 78, 70] (by decide) q s s' (by simpa using hp) hs
    simp only [List.nil_append] at this ⊢
    rw [this]
    simp [h.2]

theorem floatInf_good' (pre : Bytes) (v : Nat) (b : Bool) : Good pre (floatInf pre v b) := floatInf_good pre v b

/-! ## the mantissa -/

theorem spanDigits_suffix' (x : Bytes) : (spanDigits x).2 <:+ x := spanDigits_suffix x

theorem spanDigits_stop {s' : Bytes} (hs : HeadStop s') : spanDigits s' = ([], s') := by
  cases s' with
  | nil => rfl
  | cons b r => simp [spanDigits, decDigit_blind b hs]

/-- where the digit run of `p ++ s'` ends: inside `p` (at the same place as in `p ++ s`), or at `s'` -/
theorem spanDigits_tail (p s s' : Bytes) (hs : HeadStop s') :
    (∃ p2, p2 ≠ [] ∧ (spanDigits (p ++ s)).2 = p2 ++ s ∧ (spanDigits (p ++ s')).2 = p2 ++ s') ∨
    (spanDigits (p ++ s')).2 = s' := by
  induction p with
  | nil => right; simp [spanDigits_stop hs]
  | cons b p ih =>
    simp only [List.cons_append, spanDigits]
    cases hb : decDigit? b with
    | none => left; exact ⟨b :: p, by simp, by simp, by simp⟩
    | some d => simpa using ih

/-- one digit run as a stage of a sequence -/
theorem spanDigits_seq (c q s s' : Bytes) (hsuf : (q ++ s) <:+ (spanDigits (c ++ (q ++ s))).2) (hs : HeadStop s') :
    ∃ q1, (spanDigits (c ++ (q ++ s))).2 = q1 ++ (q ++ s) ∧
      spanDigits (c ++ (q ++ s')) = ((spanDigits (c ++ (q ++ s))).1, q1 ++ (q ++ s')) := by
  obtain ⟨c1, q1, hc1, hr1⟩ := split_mid (spanDigits_suffix (c ++ (q ++ s))) hsuf
  refine ⟨q1, hr1, ?_⟩
  subst hc1
  have := spanDigits_stable c1 (q1 ++ q) s s' (spanDigits (c1 ++ q1 ++ (q ++ s))).1
    (by
      have e : c1 ++ (q1 ++ q ++ s) = c1 ++ q1 ++ (q ++ s) := by simp [List.append_assoc]
      rw [e]
      exact Prod.ext rfl (by simpa [List.append_assoc] using hr1)) hs
  simpa [List.append_assoc] using this

/-- what `float_mantissa` does after the first digit run -/
def mantStep (d : Nat) (ds : List Nat) : Bytes → Bytes × (Bool × List Nat × List Nat)
  | [] => ([], (false, d :: ds, []))
  | c :: r2 =>
    if c.toNat = 46 then ((spanDigits r2).2, (true, d :: ds, (spanDigits r2).1))
    else (c :: r2, (false, d :: ds, []))

theorem mantissaNF_eq (d : Nat) (r : Bytes) : mantissaNF d r = mantStep d (spanDigits r).1 (spanDigits r).2 := by
  unfold mantissaNF
  cases (spanDigits r).2 <;> rfl

theorem mantStep_suffix (d : Nat) (ds : List Nat) (y : Bytes) : (mantStep d ds y).1 <:+ y := by
  cases y with
  | nil => simp [mantStep]
  | cons c r2 =>
    simp only [mantStep]
    by_cases hc : c.toNat = 46
    · rw [if_pos hc]; exact List.IsSuffix.trans (spanDigits_suffix r2) (List.suffix_cons _ _)
    · rw [if_neg hc]; exact List.suffix_refl _

theorem mantStep_stop (d : Nat) (ds : List Nat) {s' : Bytes} (hs : HeadStop s') :
    mantStep d ds s' = (s', (false, d :: ds, [])) := by
  cases s' with
  | nil => rfl
  | cons b r =>
    have hb := isStop_cases hs
    have : ¬ b.toNat = 46 := by omega
    simp [mantStep, this]

theorem mantStep_stable (d : Nat) (ds : List Nat) (q1 q s s' : Bytes)
    (hsuf : (q ++ s) <:+ (mantStep d ds (q1 ++ (q ++ s))).1) (hs : HeadStop s') :
    ∃ q2, (mantStep d ds (q1 ++ (q ++ s))).1 = q2 ++ (q ++ s) ∧
      mantStep d ds (q1 ++ (q ++ s')) = (q2 ++ (q ++ s'), (mantStep d ds (q1 ++ (q ++ s))).2) := by
  cases q1 with
  | cons ch q1 =>
    simp only [List.cons_append, mantStep] at hsuf ⊢
    by_cases hc : ch.toNat = 46
    · simp only [if_pos hc] at hsuf ⊢
      obtain ⟨q3, hr3, hst3⟩ := spanDigits_seq q1 q s s' hsuf hs
      exact ⟨q3, hr3, by rw [hst3]⟩
    · simp only [if_neg hc] at hsuf ⊢
      exact ⟨ch :: q1, rfl, rfl⟩
  | nil =>
    simp only [List.nil_append] at hsuf ⊢
    cases q with
    | cons ch qr =>
      simp only [List.cons_append, mantStep] at hsuf ⊢
      by_cases hc : ch.toNat = 46
      · exfalso
        simp only [if_pos hc] at hsuf
        have h1 := hsuf.length_le
        have h2 := (spanDigits_suffix (qr ++ s)).length_le
        simp only [List.length_append, List.length_cons] at h1 h2; omega
      · simp only [if_neg hc]
        exact ⟨[], rfl, rfl⟩
    | nil =>
      simp only [List.nil_append] at hsuf ⊢
      rw [mantStep_stop d ds hs]
      have hm : (mantStep d ds s).1 = s := by
        have h1 := hsuf.length_le
        have h2 := mantStep_suffix d ds s
        exact (List.IsSuffix.eq_of_length_le h2 h1)
      refine ⟨[], by simpa using hm, ?_⟩
      -- the flags: no fraction
      cases s with
      | nil => rfl
      | cons c r2 =>
        simp only [mantStep] at hm ⊢
        by_cases hc : c.toNat = 46
        · exfalso
          rw [if_pos hc] at hm
          have h2 := (spanDigits_suffix r2).length_le
          have := congrArg List.length hm
          simp at this; omega
        · rw [if_neg hc]; rfl

theorem mantissaNF_stable (d : Nat) (c q s s' : Bytes)
    (hsuf : (q ++ s) <:+ (mantissaNF d (c ++ (q ++ s))).1) (hs : HeadStop s') :
    ∃ q2, (mantissaNF d (c ++ (q ++ s))).1 = q2 ++ (q ++ s) ∧
      mantissaNF d (c ++ (q ++ s')) = (q2 ++ (q ++ s'), (mantissaNF d (c ++ (q ++ s))).2) := by
  rw [mantissaNF_eq] at hsuf ⊢
  rw [mantissaNF_eq]
  have h1suf : (q ++ s) <:+ (spanDigits (c ++ (q ++ s))).2 :=
    List.IsSuffix.trans hsuf (mantStep_suffix _ _ _)
  obtain ⟨q1, hr1, hst1⟩ := spanDigits_seq c q s s' h1suf hs
  rw [hr1] at hsuf ⊢
  rw [hst1]
  exact mantStep_stable d _ q1 q s s' hsuf hs

/-! ## the rest of `literal_float` -/

theorem seq_stable' {α : Type} {g1 : Bytes → LexResult α} (h1 : OkStable g1) (hg1 : ∀ x, Good x (g1 x))
    {c q s s' i1 : Bytes} {a1 : α} (hx : g1 (c ++ (q ++ s)) = .ok (i1, a1)) (hsuf : (q ++ s) <:+ i1)
    (hs : HeadStop s') :
    ∃ q1, i1 = q1 ++ (q ++ s) ∧ g1 (c ++ (q ++ s')) = .ok (q1 ++ (q ++ s'), a1) := by
  obtain ⟨c1, q1, hc, hi, h⟩ := seq_stable h1 hg1 hx hsuf hs
  refine ⟨q1, hi, ?_⟩
  subst hc
  simpa [List.append_assoc] using h

theorem opt_seq_stable' {α : Type} {g : Bytes → LexResult α} (hok : OkStable g) (herr : ErrStable g)
    (hg : ∀ x, Good x (g x)) {c q s s' : Bytes}
    (hsuf : (q ++ s) <:+ (opt (g (c ++ (q ++ s))) (c ++ (q ++ s))).1) (hs : HeadStop s') :
    ∃ q1, (opt (g (c ++ (q ++ s))) (c ++ (q ++ s))).1 = q1 ++ (q ++ s) ∧
      opt (g (c ++ (q ++ s'))) (c ++ (q ++ s')) = (q1 ++ (q ++ s'), (opt (g (c ++ (q ++ s))) (c ++ (q ++ s))).2) := by
  obtain ⟨c1, q1, hc, hi, h⟩ := opt_seq_stable hok herr hg hsuf hs
  refine ⟨q1, hi, ?_⟩
  subst hc
  simpa [List.append_assoc] using h

theorem floatTail_okStable (input input' : Bytes) (m : Bool × List Nat × List Nat) (q2 q s s' : Bytes) (tok : Token)
    (h : floatTail input (q2 ++ (q ++ s)) m = .ok (q ++ s, tok)) (hs : HeadStop s') :
    floatTail input' (q2 ++ (q ++ s')) m = .ok (q ++ s', tok) := by
  unfold floatTail at h
  by_cases hplain : m.1 = false ∧ (opt (floatExponent (q2 ++ (q ++ s))) (q2 ++ (q ++ s))).2 = none
  · rw [if_pos hplain] at h; simp [otherTokenChars] at h
  · rw [if_neg hplain] at h
    cases hinf : floatInf (opt (floatExponent (q2 ++ (q ++ s))) (q2 ++ (q ++ s))).1
        (float64FromParts m.2.1 m.2.2 ((opt (floatExponent (q2 ++ (q ++ s))) (q2 ++ (q ++ s))).2.getD 0))
        (opt (floatExponent (q2 ++ (q ++ s))) (q2 ++ (q ++ s))).2.isSome with
    | error e => rw [hinf] at h; cases h
    | ok iv =>
      obtain ⟨i4, v⟩ := iv
      rw [hinf] at h
      simp only at h
      -- what the last stage says
      have hfin : (opt (floatType i4) i4).1 = q ++ s ∧ tok = mkFloatToken v (opt (floatType i4) i4).2 ∧
          (∀ c r5, q ++ s = c :: r5 → isIdentChar c = false) := by
        cases hft : (opt (floatType i4) i4).1 with
        | nil =>
          rw [hft] at h
          simp only [Except.ok.injEq, Prod.mk.injEq] at h
          refine ⟨h.1, h.2.symm, ?_⟩
          intro c r5 hq; rw [← h.1] at hq; cases hq
        | cons c r5 =>
          rw [hft] at h
          simp only at h
          by_cases hid : isIdentChar c = true
          · rw [if_pos hid] at h
            by_cases hx : c.toNat = 120
            · rw [if_pos hx] at h; cases h
            · rw [if_neg hx] at h; cases h
          · rw [if_neg hid] at h
            simp only [Except.ok.injEq, Prod.mk.injEq] at h
            refine ⟨h.1, h.2.symm, ?_⟩
            intro c' r5' hq
            rw [← h.1] at hq
            simp only [List.cons.injEq] at hq
            rw [← hq.1]
            simpa using hid
      obtain ⟨hft1, htok, hnid⟩ := hfin
      -- suffix chain
      have hs4 : (q ++ s) <:+ i4 := by
        rw [← hft1]; exact opt_suffix (List.suffix_refl _) (floatTypeFrom_good _ i4)
      have hgoodinf := floatInf_good (opt (floatExponent (q2 ++ (q ++ s))) (q2 ++ (q ++ s))).1
        (float64FromParts m.2.1 m.2.2 ((opt (floatExponent (q2 ++ (q ++ s))) (q2 ++ (q ++ s))).2.getD 0))
        (opt (floatExponent (q2 ++ (q ++ s))) (q2 ++ (q ++ s))).2.isSome
      rw [hinf] at hgoodinf
      have hs3 : (q ++ s) <:+ (opt (floatExponent (q2 ++ (q ++ s))) (q2 ++ (q ++ s))).1 :=
        List.IsSuffix.trans hs4 hgoodinf
      obtain ⟨q3, he1, he2⟩ := opt_seq_stable' floatExponent_okStable floatExponent_errStable floatExponent_good hs3 hs
      rw [he1] at hinf
      obtain ⟨q4, hi4, hinf'⟩ := seq_stable' (floatInf_okStable _ _) (fun x => floatInf_good x _ _) hinf hs4 hs
      subst hi4
      have hft' := opt_stable floatType_okStable floatType_errStable q4 q s s' hft1 hs
      unfold floatTail
      rw [he2]
      simp only
      rw [if_neg hplain, hinf']
      simp only
      rw [hft']
      simp only
      subst htok
      -- the byte after the literal
      cases hq : q ++ s' with
      | nil => rfl
      | cons c' r' =>
        simp only
        have : isIdentChar c' = false := by
          cases q with
          | cons cq qr =>
            simp only [List.cons_append, List.cons.injEq] at hq
            rw [← hq.1]
            exact hnid cq (qr ++ s) rfl
          | nil =>
            simp only [List.nil_append] at hq
            rw [hq] at hs
            exact identChar_stop hs
        simp [this]

theorem floatTail_ok_suffix (input i2 : Bytes) (m : Bool × List Nat × List Nat) (rest : Bytes) (tok : Token)
    (h : floatTail input i2 m = .ok (rest, tok)) : rest <:+ i2 := by
  unfold floatTail at h
  by_cases hplain : m.1 = false ∧ (opt (floatExponent i2) i2).2 = none
  · rw [if_pos hplain] at h; simp [otherTokenChars] at h
  · rw [if_neg hplain] at h
    have hgoodinf := floatInf_good (opt (floatExponent i2) i2).1
        (float64FromParts m.2.1 m.2.2 ((opt (floatExponent i2) i2).2.getD 0)) (opt (floatExponent i2) i2).2.isSome
    cases hinf : floatInf (opt (floatExponent i2) i2).1
        (float64FromParts m.2.1 m.2.2 ((opt (floatExponent i2) i2).2.getD 0)) (opt (floatExponent i2) i2).2.isSome with
    | error e => rw [hinf] at h; cases h
    | ok iv =>
      obtain ⟨i4, v⟩ := iv
      rw [hinf] at h hgoodinf
      simp only at h
      have h3 : (opt (floatExponent i2) i2).1 <:+ i2 := opt_suffix (List.suffix_refl _) (floatExponent_good i2)
      have h4 : (opt (floatType i4) i4).1 <:+ i4 := opt_suffix (List.suffix_refl _) (floatTypeFrom_good _ i4)
      have hrest : rest = (opt (floatType i4) i4).1 := by
        cases hft : (opt (floatType i4) i4).1 with
        | nil => rw [hft] at h; simp only [Except.ok.injEq, Prod.mk.injEq] at h; exact h.1.symm
        | cons c r5 =>
          rw [hft] at h
          simp only at h
          by_cases hid : isIdentChar c = true
          · rw [if_pos hid] at h
            by_cases hx : c.toNat = 120
            · rw [if_pos hx] at h; cases h
            · rw [if_neg hx] at h; cases h
          · rw [if_neg hid] at h
            simp only [Except.ok.injEq, Prod.mk.injEq] at h
            exact h.1.symm
      rw [hrest]
      exact List.IsSuffix.trans h4 (List.IsSuffix.trans hgoodinf h3)

/-- a floating literal is the same token whatever stopper-headed text follows it -/
theorem literalFloat_okStable_digit (b : UInt8) (d : Nat) (hd : decDigit? b = some d) (c q s s' : Bytes) (tok : Token)
    (h : literalFloat (b :: (c ++ (q ++ s))) = .ok (q ++ s, tok)) (hs : HeadStop s') :
    literalFloat (b :: (c ++ (q ++ s'))) = .ok (q ++ s', tok) := by
  rw [literalFloat_digit b _ d hd] at h ⊢
  have hsuf := floatTail_ok_suffix _ _ _ _ _ h
  obtain ⟨q2, hm1, hm2⟩ := mantissaNF_stable d c q s s' hsuf hs
  rw [hm2]
  simp only
  rw [hm1] at h
  exact floatTail_okStable _ _ _ q2 q s s' tok h hs

/-! ## integer literals -/

def patBlind (pat : List (List Nat)) : Bool := pat.all natsBlind

theorem matchPrefix_okStable (pat : List (List Nat)) (c q s s' : Bytes)
    (h : matchPrefix pat (c ++ (q ++ s)) = some (q ++ s)) : matchPrefix pat (c ++ (q ++ s')) = some (q ++ s') := by
  induction pat generalizing c with
  | nil =>
    simp only [matchPrefix, Option.some.injEq] at h ⊢
    have := nil_of_same_len h
    subst this; rfl
  | cons alts pat ih =>
    cases c with
    | nil =>
      exfalso
      have := (matchPrefix_suffix h).length_le
      -- a non-empty pattern consumes at least one byte
      simp only [List.nil_append] at h
      cases hx : q ++ s with
      | nil => rw [hx] at h; simp [matchPrefix] at h
      | cons b r =>
        rw [hx] at h
        simp only [matchPrefix] at h
        by_cases hc : alts.contains b.toNat = true
        · rw [if_pos hc] at h
          have := (matchPrefix_suffix h).length_le
          simp at this
          omega
        · rw [if_neg hc] at h; cases h
    | cons b c =>
      simp only [List.cons_append, matchPrefix] at h ⊢
      by_cases hc : alts.contains b.toNat = true
      · rw [if_pos hc] at h ⊢; exact ih c h
      · rw [if_neg hc] at h; cases h

theorem matchPrefix_noneStable (pat : List (List Nat)) (hb : patBlind pat = true) (p s s' : Bytes)
    (h : matchPrefix pat (p ++ s) = none) (hs : HeadStop s') : matchPrefix pat (p ++ s') = none := by
  induction pat generalizing p with
  | nil => simp [matchPrefix] at h
  | cons alts pat ih =>
    simp only [patBlind, List.all_cons, Bool.and_eq_true] at hb
    cases p with
    | nil =>
      simp only [List.nil_append]
      cases s' with
      | nil => rfl
      | cons b r => simp only [matchPrefix, contains_stop_false hb.1 hs]; rfl
    | cons b p =>
      simp only [List.cons_append, matchPrefix] at h ⊢
      by_cases hc : alts.contains b.toNat = true
      · rw [if_pos hc] at h ⊢; exact ih hb.2 p h
      · rw [if_neg hc]

def intRowsBlind (rows : List (List (List Nat) × IntType)) : Bool := rows.all fun row => patBlind row.1

theorem intTypeFrom_okStable (rows : List (List (List Nat) × IntType)) (hb : intRowsBlind rows = true) :
    OkStable (intTypeFrom rows) := by
  intro c q s s' a h hs
  induction rows with
  | nil => simp [intTypeFrom, wrongChars] at h
  | cons row rows ih =>
    obtain ⟨pat, k⟩ := row
    simp only [intRowsBlind, List.all_cons, Bool.and_eq_true] at hb
    simp only [intTypeFrom] at h ⊢
    cases hm : matchPrefix pat (c ++ (q ++ s)) with
    | some rest =>
      rw [hm] at h
      simp only [Except.ok.injEq, Prod.mk.injEq] at h
      obtain ⟨hr, hk⟩ := h
      subst hr
      rw [matchPrefix_okStable pat c q s s' hm]
      simp [hk]
    | none =>
      rw [hm] at h
      have hn := matchPrefix_noneStable pat hb.1 (c ++ q) s s' (by simpa [List.append_assoc] using hm) hs
      simp only [List.append_assoc] at hn
      rw [hn]
      exact ih hb.2 h

theorem intTypeFrom_errStable (rows : List (List (List Nat) × IntType)) (hb : intRowsBlind rows = true) :
    ErrStable (intTypeFrom rows) := by
  intro p s s' e h hs
  induction rows generalizing e with
  | nil => exact ⟨_, rfl⟩
  | cons row rows ih =>
    obtain ⟨pat, k⟩ := row
    simp only [intRowsBlind, List.all_cons, Bool.and_eq_true] at hb
    simp only [intTypeFrom] at h ⊢
    cases hm : matchPrefix pat (p ++ s) with
    | some rest => rw [hm] at h; cases h
    | none =>
      rw [hm] at h
      rw [matchPrefix_noneStable pat hb.1 p s s' hm hs]
      exact ih hb.2 e h

theorem intType_okStable : OkStable intType := intTypeFrom_okStable _ (by decide)
theorem intType_errStable : ErrStable intType := intTypeFrom_errStable _ (by decide)

theorem digitsLoop_stable (f : UInt8 → Option Nat) (hf : StopBlind f) (base : Nat) (start start' : Bytes)
    (c q s s' : Bytes) (v0 v : Nat)
    (h : digitsLoop f base start (c ++ (q ++ s)) v0 = .ok (q ++ s, v)) (hs : HeadStop s') :
    digitsLoop f base start' (c ++ (q ++ s')) v0 = .ok (q ++ s', v) := by
  induction c generalizing v0 with
  | nil =>
    simp only [List.nil_append] at h ⊢
    -- nothing consumed: the loop stopped at once
    have hstop : ∀ (x : Bytes), digitsLoop f base start x v0 = .ok (x, v) →
        v = v0 ∧ (x = [] ∨ ∃ b r, x = b :: r ∧ f b = none) := by
      intro x hx
      cases x with
      | nil => simp [digitsLoop] at hx; exact ⟨hx.symm, Or.inl rfl⟩
      | cons b r =>
        simp only [digitsLoop] at hx
        cases hfb : f b with
        | none => rw [hfb] at hx; simp at hx; exact ⟨hx.symm, Or.inr ⟨b, r, rfl, hfb⟩⟩
        | some d =>
          rw [hfb] at hx
          simp only at hx
          by_cases hov : v0 * base < 2 ^ 64 ∧ v0 * base + d < 2 ^ 64
          · rw [if_pos hov] at hx
            have := digitsLoop_len f base start r (v0 * base + d) _ _ hx
            simp at this
            omega
          · rw [if_neg hov] at hx; cases hx
    obtain ⟨hv, hx⟩ := hstop _ h
    subst hv
    cases q with
    | cons qb qr =>
      rcases hx with hx | ⟨b, r, hx, hfb⟩
      · cases hx
      · simp only [List.cons_append, List.cons.injEq] at hx
        simp only [List.cons_append, digitsLoop, hx.1, hfb]
    | nil =>
      simp only [List.nil_append]
      cases s' with
      | nil => simp [digitsLoop]
      | cons b r => simp [digitsLoop, hf b hs]
  | cons b c ih =>
    simp only [List.cons_append, digitsLoop] at h ⊢
    cases hfb : f b with
    | none =>
      rw [hfb] at h
      simp only [Except.ok.injEq, Prod.mk.injEq] at h
      have := congrArg List.length h.1
      simp [List.length_append] at this
      omega
    | some d =>
      rw [hfb] at h
      simp only at h ⊢
      by_cases hov : v0 * base < 2 ^ 64 ∧ v0 * base + d < 2 ^ 64
      · rw [if_pos hov] at h ⊢
        exact ih _ h
      · rw [if_neg hov] at h; cases h

theorem digitsWith_okStable (f : UInt8 → Option Nat) (hf : StopBlind f) (base : Nat) : OkStable (digitsWith f base) := by
  intro c q s s' a h hs
  cases c with
  | nil =>
    exfalso
    have := digitsWith_strict f base (q ++ s)
    simp only [List.nil_append] at h
    rw [h] at this
    simp [Strict] at this
  | cons b c =>
    simp only [digitsWith, List.cons_append, digitWith] at h ⊢
    cases hfb : f b with
    | none => rw [hfb] at h; simp [wrongChars] at h
    | some d =>
      rw [hfb] at h
      simp only at h ⊢
      exact digitsLoop_stable f hf base _ _ c q s s' d a h hs

theorem literalIntWith_okStable (f : UInt8 → Option Nat) (hf : StopBlind f) (base : Nat) :
    OkStable (literalIntWith f base) := by
  intro c q s s' tok h hs
  unfold literalIntWith at h ⊢
  cases hd : digitsWith f base (c ++ (q ++ s)) with
  | error e => rw [hd] at h; cases h
  | ok rv =>
    obtain ⟨rest, v⟩ := rv
    rw [hd] at h
    simp only at h
    cases hm : mkIntToken? v (opt (intType rest) rest).2 with
    | none => rw [hm] at h; cases h
    | some t =>
      rw [hm] at h
      simp only [Except.ok.injEq, Prod.mk.injEq] at h
      obtain ⟨hrest, htok⟩ := h
      have hsuf : (q ++ s) <:+ rest := by
        rw [← hrest]; exact opt_suffix (List.suffix_refl _) (intType_good rest)
      obtain ⟨q1, hr1, hd'⟩ := seq_stable' (digitsWith_okStable f hf base) (digitsWith_good f base) hd hsuf hs
      subst hr1
      have hopt := opt_stable intType_okStable intType_errStable q1 q s s' hrest hs
      rw [hd']
      simp only
      rw [hopt]
      simp only
      rw [hm, htok]

theorem literalInt_okStable : OkStable literalInt := by
  intro c q s s' tok h hs
  cases c with
  | nil =>
    exfalso
    have := literalInt_strict (q ++ s)
    simp only [List.nil_append] at h
    rw [h] at this
    simp [Strict] at this
  | cons b c =>
  unfold literalInt at h ⊢
  cases h1 : stripPrefix? [48, 120] (b :: c ++ (q ++ s)) with
  | some r =>
    rw [h1] at h
    simp only at h
    -- `0x`: the rest of the token lies inside `c`
    have hx := stripPrefix?_eq h1
    have hsuf : (q ++ s) <:+ r := by
      have := literalIntWith_good hexDigit? 16 r
      rw [h] at this; exact this
    obtain ⟨c1, q1, hc, hr⟩ := split_mid (suffix_of_append hx) hsuf
    rw [hc]
    subst hr
    rw [hc] at h1
    have h1' : stripPrefix? [48, 120] (c1 ++ q1 ++ (q ++ s')) = some (q1 ++ (q ++ s')) := by
      have := stripPrefix_okStable [48, 120] c1 (q1 ++ q) s s' (by simpa [List.append_assoc] using h1)
      simpa [List.append_assoc] using this
    rw [h1']
    exact literalIntWith_okStable hexDigit? hexDigit_blind 16 q1 q s s' tok h hs
  | none =>
    rw [h1] at h
    simp only at h
    have h1' : stripPrefix? [48, 120] (b :: c ++ (q ++ s')) = none := by
      have := stripPrefix_noneStable [48, 120] (by decide) (b :: c ++ q) s s' (by simpa [List.append_assoc] using h1) hs
      simpa [List.append_assoc] using this
    rw [h1']
    simp only
    cases h2 : stripPrefix? [48] (b :: c ++ (q ++ s)) with
    | none =>
      rw [h2] at h
      have h2' : stripPrefix? [48] (b :: c ++ (q ++ s')) = none := by
        have := stripPrefix_noneStable [48] (by decide) (b :: c ++ q) s s' (by simpa [List.append_assoc] using h2) hs
        simpa [List.append_assoc] using this
      rw [h2']
      exact literalIntWith_okStable decDigit? decDigit_blind 10 (b :: c) q s s' tok h hs
    | some r =>
      rw [h2] at h
      simp only at h
      have hx := stripPrefix?_eq h2
      simp only [List.cons_append, List.nil_append, List.cons.injEq] at hx
      obtain ⟨hb, hr⟩ := hx
      subst hb hr
      have h2' : stripPrefix? [48] (48 :: c ++ (q ++ s')) = some (c ++ (q ++ s')) := by
        simp [stripPrefix?]
      rw [h2']
      simp only
      -- is the byte after the `0` an octal digit?
      cases hoct : digitWith octDigit? (c ++ (q ++ s)) with
      | error e =>
        rw [hoct] at h
        simp only at h
        obtain ⟨e', he'⟩ := digitWith_errStable octDigit? octDigit_blind (c ++ q) s s' e
          (by simpa [List.append_assoc] using hoct) hs
        simp only [List.append_assoc] at he'
        rw [he']
        exact literalIntWith_okStable decDigit? decDigit_blind 10 (48 :: c) q s s' tok h hs
      | ok rd =>
        rw [hoct] at h
        simp only at h
        cases c with
        | nil =>
          exfalso
          have := literalIntWith_strict octDigit? 8 (q ++ s)
          simp only [List.nil_append] at h
          rw [h] at this
          simp [Strict] at this
        | cons b2 c =>
          simp only [List.cons_append, digitWith] at hoct ⊢
          cases ho : octDigit? b2 with
          | none => rw [ho] at hoct; simp [wrongChars] at hoct
          | some n =>
            simp only
            exact literalIntWith_okStable octDigit? octDigit_blind 8 (b2 :: c) q s s' tok h hs

/-! ## the digit branch of `token_intermediate` -/

/-- `literal_float` stops at once: digits only, then neither a fraction nor an exponent -/
def PlainInt (d : Nat) (r : Bytes) : Prop :=
  (mantissaNF d r).2.1 = false ∧ (opt (floatExponent (mantissaNF d r).1) (mantissaNF d r).1).2 = none

theorem floatExponent_stop {s' : Bytes} (hs : HeadStop s') : ∃ e, floatExponent s' = .error e := by
  have := floatExponent_errStable [] [] s' (.lex (.rest []) .UnexpectedBytes) (by simp [floatExponent, wrongChars]) hs
  simpa using this

theorem opt_none_of_error {α : Type} {g : LexResult α} {x : Bytes} {e : LexErr} (h : g = .error e) :
    opt g x = (x, none) := by rw [h]; rfl

theorem opt_snd_none {α : Type} {g : LexResult α} {x : Bytes} (h : (opt g x).2 = none) : ∃ e, g = .error e := by
  cases g with
  | ok ra => obtain ⟨r, a⟩ := ra; simp [opt] at h
  | error e => exact ⟨e, rfl⟩

theorem plain_stable (d : Nat) (p s s' : Bytes) (h : PlainInt d (p ++ s)) (hs : HeadStop s') : PlainInt d (p ++ s') := by
  unfold PlainInt at h ⊢
  rw [mantissaNF_eq] at h ⊢
  rcases spanDigits_tail p s s' hs with ⟨p2, hp2, h1, h2⟩ | h2
  · rw [h1] at h
    rw [h2]
    cases p2 with
    | nil => exact absurd rfl hp2
    | cons ch p2 =>
      simp only [List.cons_append, mantStep] at h ⊢
      by_cases hc : ch.toNat = 46
      · simp only [if_pos hc] at h; exact absurd h.1 (by simp)
      · simp only [if_neg hc] at h ⊢
        refine ⟨by trivial, ?_⟩
        obtain ⟨e, he⟩ := opt_snd_none h.2
        obtain ⟨e', he'⟩ := floatExponent_errStable (ch :: p2) s s' e (by simpa using he) hs
        simp only [List.cons_append] at he'
        rw [opt_none_of_error he']
  · rw [h2, mantStep_stop _ _ hs]
    refine ⟨rfl, ?_⟩
    obtain ⟨e, he⟩ := floatExponent_stop hs
    simp only
    rw [opt_none_of_error he]

/-- `literal_float` had parsed a fraction or an exponent and still answered "not my token": the literal is directly
followed by `x` (`1.xxx`, `2.0fx`, `1e5x`).  The text is then lexed again as an integer literal, whose extent
depends on text that can lie several tokens further on. -/
def FloatGaveUpOnX (x : Bytes) : Prop :=
  ∃ i2 m, floatMantissa x = .ok (i2, m) ∧ ¬ (m.1 = false ∧ (opt (floatExponent i2) i2).2 = none) ∧
    literalFloat x = .error (.lex (.rest x) .OtherTokenBytes)

/-- the digit branch of `token_step` -/
def numTok (input : Bytes) : LexResult Token :=
  match literalFloat input with
  | .ok x => .ok x
  | .error (.lex pos .OtherTokenBytes) =>
    if pos.len = input.length then literalInt input else .error (.panic "other-token-len")
  | .error e => .error e

theorem numTok_stable (b : UInt8) (d : Nat) (hd : decDigit? b = some d) (c q s s' : Bytes) (tok : Token)
    (h : numTok (b :: (c ++ (q ++ s))) = .ok (q ++ s, tok)) (hnx : ¬ FloatGaveUpOnX (b :: (c ++ (q ++ s))))
    (hs : HeadStop s') : numTok (b :: (c ++ (q ++ s'))) = .ok (q ++ s', tok) := by
  unfold numTok at h ⊢
  cases hf : literalFloat (b :: (c ++ (q ++ s))) with
  | ok x =>
    rw [hf] at h
    simp only [Except.ok.injEq] at h
    subst h
    rw [literalFloat_okStable_digit b d hd c q s s' tok hf hs]
  | error e =>
    rw [hf] at h
    have hother := literalFloat_other (b :: (c ++ (q ++ s)))
    rw [hf] at hother
    cases e with
    | panic site => cases h
    | lex pos reason =>
      cases reason <;> try (cases h)
      -- OtherTokenBytes
      simp only [OtherAtStart] at hother
      subst hother
      simp only [ErrAt.len, if_true] at h
      -- it was the plain exit
      have hplain : PlainInt d (c ++ (q ++ s)) := by
        by_cases hp : PlainInt d (c ++ (q ++ s))
        · exact hp
        · exfalso
          apply hnx
          exact ⟨_, _, floatMantissa_digit b _ d hd, hp, hf⟩
      have hplain' := plain_stable d (c ++ q) s s' (by simpa [List.append_assoc] using hplain) hs
      simp only [List.append_assoc] at hplain'
      have hf' : literalFloat (b :: (c ++ (q ++ s'))) = otherTokenChars (b :: (c ++ (q ++ s'))) := by
        rw [literalFloat_digit b _ d hd]
        unfold floatTail
        unfold PlainInt at hplain'
        rw [if_pos hplain']
      rw [hf']
      simp only [otherTokenChars, ErrAt.len, if_true]
      have := literalInt_okStable (b :: c) q s s' tok (by simpa using h) hs
      simpa using this

end RsslVerif.Lemmas.LexStable

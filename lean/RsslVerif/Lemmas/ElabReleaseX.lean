import RsslVerif.Lemmas.ElabExactX
/-! Lemmas for C03, extended language: every node the elaboration helpers of the old fragment build has, under `get_type`, exactly the computed type (port of `Lemmas/ElabRelease.lean`). Core Lean only. -/
namespace RsslVerif.Lemmas.ElabReleaseX
open RsslVerif.Gen.RankTable RsslVerif.Gen.TypingTables RsslVerif.Model.Conv RsslVerif.Model.Overload
open RsslVerif.Model.IrTyping (FuncSig opReturn boolOf)
open RsslVerif.Model.Elab (Err boolR intR minusFolds enforceIncrement unwrapPanic nvRank nvIsInteger arithTarget
  mostSigScalar ternTargets candsFrom)
open RsslVerif.Model.IrTypingX RsslVerif.Model.ElabX RsslVerif.Lemmas.ElabConv RsslVerif.Lemmas.ElabX
open RsslVerif.Lemmas.ElabFormsX RsslVerif.Lemmas.ElabExactX

variable {Γ : Env}

/-- `get_return_type` looks at the second operand's type only, never at its value category -/
theorem opReturn_snd_ty {i : IOp} {x y y' : ETy} (h : y.ty = y'.ty) : opReturn i [x, y] = opReturn i [x, y'] := by
  simp only [opReturn, h, List.length_cons, List.length_nil]

/-- ... and at the first operand's value category only for `param_types[0]`-returning / lvalue-asserting arms -/
theorem opReturn_fst_ty {i : IOp} {x x' : ETy} {rest : List ETy} (hl : i.rule.lhsLvalue = false)
    (hr : i.rule.result ≠ .arg0) (h : x.ty = x'.ty) : opReturn i (x :: rest) = opReturn i (x' :: rest) := by
  cases hres : i.rule.result
  · exact absurd hres hr
  all_goals simp only [opReturn, hl, h, hres, List.length_cons, Bool.false_and]

theorem typeOf_op1 {o : IOp} {e : IExpr} {τ : ETy} (he : HasType Γ e τ) :
    typeOf Γ (.op o (.cons e .nil)) = opReturn o [τ] := by
  simp [typeOf, typesOf, typeOf_of_hasType e τ he]

theorem typeOf_op2 {o : IOp} {a b : IExpr} {τa τb : ETy} (ha : HasType Γ a τa) (hb : HasType Γ b τb) :
    typeOf Γ (.op o (.cons a (.cons b .nil))) = opReturn o [τa, τb] := by
  simp [typeOf, typesOf, typeOf_of_hasType a τa ha, typeOf_of_hasType b τb hb]

theorem castOperand_type {f : Err} {e e' : IExpr} {τ inp : ETy} (he : HasType Γ e τ)
    (h : castOperand f e τ inp = .ok e') : ∃ τ', HasType Γ e' τ' ∧ τ'.ty = inp.ty := by
  unfold castOperand at h
  split at h
  · rename_i heq; simp at h; subst h; exact ⟨τ, he, by rw [heq]⟩
  · split at h
    · simp at h
    · simp at h
    · rename_i c hf
      obtain ⟨τ', h1, h2, _⟩ := applyConv_type he hf h
      exact ⟨τ', h1, h2⟩

theorem lit_type {k : Scalar} {τ : ETy} (h : HasType Γ (.lit k) τ) : τ = (scalarTy k).r := by
  cases h; rfl

/-- the node `parse_expr_unaryop` builds has the type it computes for it under the IR's rules -/
theorem elabUn_type {o : UnOp} {e n : IExpr} {τ τ' : ETy} (he : HasType Γ e τ)
    (h : elabUn Γ o e τ = .ok (n, τ')) : typeOf Γ n = .ok τ' := by
  unfold elabUn at h
  cases o <;> simp only at h
  -- prefix / postfix increments, plus
  case prefixIncrement =>
    split at h
    · simp at h
    · split at h
      · simp at h
      · simp at h; obtain ⟨rfl, rfl⟩ := h
        rw [typeOf_op1 he]; rfl
  case prefixDecrement =>
    split at h
    · simp at h
    · split at h
      · simp at h
      · simp at h; obtain ⟨rfl, rfl⟩ := h
        rw [typeOf_op1 he]; rfl
  case postfixIncrement =>
    split at h
    · simp at h
    · split at h
      · simp at h
      · simp at h; obtain ⟨rfl, rfl⟩ := h
        rw [typeOf_op1 he]; rfl
  case postfixDecrement =>
    split at h
    · simp at h
    · split at h
      · simp at h
      · simp at h; obtain ⟨rfl, rfl⟩ := h
        rw [typeOf_op1 he]; rfl
  case plus =>
    split at h
    · simp at h
    · simp at h
    · simp at h; obtain ⟨rfl, rfl⟩ := h
      rw [typeOf_op1 he]; rfl
  case minus =>
    split at h
    · simp at h
    · simp at h
    · split at h
      · split at h
        · simp at h; obtain ⟨rfl, rfl⟩ := h
          have := lit_type he
          subst this
          simp [typeOf, Ty.unmod, scalarTy, Ty.r]
        · simp at h; obtain ⟨rfl, rfl⟩ := h
          rw [typeOf_op1 he]; rfl
      · simp at h; obtain ⟨rfl, rfl⟩ := h
        rw [typeOf_op1 he]; rfl
  case logicalNot =>
    split at h
    · simp at h
    · simp at h
    · rename_i l hne1 hne2
      by_cases hb : τ.ty.layer.extractScalar = some .bool
      · simp only [hb, if_true] at h
        split at h
        · simp at h
        · rename_i e' hc
          simp at h; obtain ⟨rfl, rfl⟩ := h
          obtain ⟨τ'', h1, h2⟩ := castOperand_type he hc
          rw [typeOf_op1 h1]
          have hlay : τ''.ty.layer = τ.ty.layer := by rw [h2]
          cases hl : τ.ty.layer <;> simp [hl, Layer.extractScalar] at hb <;>
            simp [opReturn, IOp.rule, hlay, hl, hb, Ty.unmod, scalarTy, Ty.r, logicalNotHasMatrixArm]
      · simp only [hb, if_false] at h
        split at h
        · simp at h
        · rename_i e' hc
          simp at h; obtain ⟨rfl, rfl⟩ := h
          obtain ⟨τ'', h1, h2⟩ := castOperand_type he hc
          rw [typeOf_op1 h1]
          have hlay : τ''.ty.layer = .scalar .bool := by rw [h2]; rfl
          simp [opReturn, IOp.rule, hlay, boolR]
  case bitwiseNot =>
    split at h
    · simp at h
    · simp at h; obtain ⟨rfl, rfl⟩ := h; rw [typeOf_op1 he]; rfl
    · simp at h; obtain ⟨rfl, rfl⟩ := h; rw [typeOf_op1 he]; rfl
    · simp at h; obtain ⟨rfl, rfl⟩ := h; rw [typeOf_op1 he]; rfl
    · split at h
      · simp at h
      · rename_i e' hc
        simp at h; obtain ⟨rfl, rfl⟩ := h
        obtain ⟨τ'', h1, h2⟩ := castOperand_type he hc
        rw [typeOf_op1 h1]
        simp [opReturn, IOp.rule, h2, intR, Ty.unmod, scalarTy, Ty.r]
    · simp at h
  case dereference => simp at h
  case addressOf => simp at h

theorem arith_rule (b : BinOp) (i : IOp) (hc : b.cls = .arith) (h : b.toIOp = some i) :
    i.rule.lhsLvalue = false ∧ i.rule.result ≠ .arg0 := by
  cases b <;> simp [BinOp.cls] at hc <;> simp [BinOp.toIOp] at h <;> subst h <;> decide

theorem arithBuild_type {o : BinOp} {ca cb : Conversion} {a b n : IExpr} {τa τb d τ' : ETy} (hc : o.cls = .arith)
    (ha : HasType Γ a τa) (hb : HasType Γ b τb) (hfa : find τa d = .ok (some ca)) (hfb : find τb d = .ok (some cb))
    (h : arithBuild o ca cb a b = .ok (n, τ')) : typeOf Γ n = .ok τ' := by
  unfold arithBuild at h
  rw [targetType_ok hfa, targetType_ok hfb] at h
  simp only [ne_eq, not_true_eq_false, if_false] at h
  split at h
  · simp at h
  · rename_i a' haa
    split at h
    · simp at h
    · rename_i b' hbb
      split at h
      · simp at h
      · rename_i i hi
        split at h
        · simp at h
        · rename_i out hout
          simp at h; obtain ⟨rfl, rfl⟩ := h
          obtain ⟨τa', h1, h2, _⟩ := applyConv_type ha hfa haa
          obtain ⟨τb', h3, h4, _⟩ := applyConv_type hb hfb hbb
          obtain ⟨hl, hr⟩ := arith_rule o i hc hi
          rw [typeOf_op2 h1 h3, ← hout, opReturn_snd_ty h4, opReturn_fst_ty hl hr h2]

theorem elabArith_type {o : BinOp} {a b n : IExpr} {τa τb τ' : ETy} (hc : o.cls = .arith)
    (ha : HasType Γ a τa) (hb : HasType Γ b τb) (h : elabArith o a τa b τb = .ok (n, τ')) :
    typeOf Γ n = .ok τ' := by
  unfold elabArith at h
  repeat' split at h
  all_goals (first | (simp at h; done) | skip)
  all_goals (rename_i hfa _ _ hfb; exact arithBuild_type hc ha hb hfa hfb h)

theorem elabAssign_type {o : BinOp} {a b n : IExpr} {τa τb τ' : ETy}
    (ha : HasType Γ a τa) (hb : HasType Γ b τb) (h : elabAssign Γ o a τa b τb = .ok (n, τ')) :
    typeOf Γ n = .ok τ' := by
  unfold elabAssign at h
  split at h
  · simp at h
  · split at h
    · simp at h
    · split at h
      · simp at h
      · split at h
        · simp at h
        · simp at h
        · rename_i b' tb hcv
          split at h
          · simp at h
          · split at h
            · simp at h
            · rename_i out hout
              simp at h; obtain ⟨rfl, rfl⟩ := h
              obtain ⟨rfl, τb', h1, h2, _⟩ := convert_type hb hcv
              rw [typeOf_op2 ha h1, ← hout]
              exact opReturn_snd_ty h2

theorem ternBuild_type {c a b n : IExpr} {τc τa τb d τ' : ETy} {ca cb : Conversion} (hd : d.vt = .rvalue)
    (ha : HasType Γ a τa) (hb : HasType Γ b τb) (hfa : find τa d = .ok (some ca)) (hfb : find τb d = .ok (some cb))
    (h : ternBuild c τc ca cb a b = .ok (n, τ')) : typeOf Γ n = .ok τ' := by
  unfold ternBuild at h
  rw [targetType_ok hfa, targetType_ok hfb] at h
  split at h
  · simp at h
  · rename_i a' haa
    split at h
    · simp at h
    · rename_i b' hbb
      simp only [ne_eq, not_true_eq_false, if_false] at h
      split at h
      · simp at h
      · split at h
        · simp at h
        · simp at h
        · simp at h; obtain ⟨rfl, rfl⟩ := h
          obtain ⟨τa', h1, h2, _⟩ := applyConv_type ha hfa haa
          obtain ⟨τb', h3, h4, _⟩ := applyConv_type hb hfb hbb
          simp only [typeOf, typeOf_of_hasType _ _ h1, typeOf_of_hasType _ _ h3, h2, h4, if_true]
          exact congrArg Except.ok (ety_ext hd.symm rfl rfl)

theorem elabTern_type {c a b n : IExpr} {τc τa τb τ' : ETy}
    (ha : HasType Γ a τa) (hb : HasType Γ b τb) (h : elabTern c τc a τa b τb = .ok (n, τ')) :
    typeOf Γ n = .ok τ' := by
  unfold elabTern at h
  repeat' split at h
  all_goals (first | (simp at h; done) | skip)
  all_goals (rename_i hfa _ _ hfb; exact ternBuild_type rfl ha hb hfa hfb h)

theorem elabCall_type {name : Nat} {args : IArgs} {ts : List ETy} {n : IExpr} {τ' : ETy}
    (h : elabCall Γ name args ts = .ok (n, τ')) : typeOf Γ n = .ok τ' := by
  unfold elabCall at h
  repeat' split at h
  all_goals (first | (simp at h; done) | skip)
  all_goals (
    simp only [Except.ok.injEq, Prod.mk.injEq] at h
    obtain ⟨rfl, rfl⟩ := h
    rename_i hs _ _ _ _ _ _
    simp [typeOf, hs])

/-- the node is typed as soon as its children are and `get_type` gives the computed type, whether or not the
    debug-build query runs -/
theorem selfCheck_any {dbg : Bool} {n e' : IExpr} {τ' τ : ETy} (h : selfCheck dbg Γ n τ' = .ok (e', τ))
    (hc : ChildrenTyped Γ n) (ht : typeOf Γ n = .ok τ') : HasType Γ e' τ := by
  obtain ⟨rfl, rfl⟩ := selfCheck_type h
  exact hasType_node hc ht

end RsslVerif.Lemmas.ElabReleaseX

import RsslVerif.Lemmas.GenMslSim
import RsslVerif.Lemmas.GenSemStmt
/-! Metal exporter, statements: executing the emitted statement equals executing the typed statement, for every fuel
and every way of entering it.  (Same structure as `Lemmas/GenSemStmt` of C01; the statement generator of the Metal exporter
has the same shape — `Gen.MslGenTables.mslStatementArmsAsModelled` — and `Msl.exec` differs from `Ast.exec` in the
expression semantics and in the promotion of the controlling expression of `switch`.) -/
namespace RsslVerif.Lemmas.GenMsl
open RsslVerif.Gen.HlslGenTables RsslVerif.Gen.MslGenTables RsslVerif.Model RsslVerif.Model.GenMsl RsslVerif.Spec.Sem
open RsslVerif.Model.Ir (Ty Var Const Dir)
open RsslVerif.Model.GenHlsl (GenErr)
open RsslVerif.Lemmas.GenSem (bindS ModeOK loopW_ne_seeking loopD_ne_seeking switchOut_ne_seeking bind_step)
set_option linter.unusedSimpArgs false

theorem SimM.drop {W : World} {M : Msl.MWorld} {env : Ast.Env} {e : Ir.Expr} {a : HlslAst.Expr} {t : Ty}
    (h : SimM W M env e a t) (σ : Store) : dropVal (Msl.eval M env a σ) = dropVal (Ir.eval W e σ) := by
  rw [h.2 σ]; cases Ir.eval W e σ <;> simp [dropVal]

theorem SimM.cond {W : World} {M : Msl.MWorld} {env : Ast.Env} {e : Ir.Expr} {a : HlslAst.Expr} {t : Ty}
    (hp : M.P = W.P) (h : SimM W M env e a t) (σ : Store) :
    condOfB M.P (Msl.eval M env a σ) = condOfB W.P (Ir.eval W e σ) := by
  by_cases hl : Ir.isMin e = true
  · have := isMin_cases hl; subst this
    simp [h.min.2 σ, Ir.eval, Ir.constVal, condOfB, castVal]
  · have hl' : Ir.isMin e = false := by simpa using hl
    rw [(h.plain hl').2 σ, hp]

section
variable {W : World} {M : Msl.MWorld} {env : Ast.Env} {cx : Ctx} {vis : Var → Bool} {rsv : Nat → List Var}

/-- every accepted expression is simulated by what the exporter emits for it -/
theorem sim_okM (hag : AgreeM cx vis env) (hw : Worlds cx rsv W M) {e : Ir.Expr} {a : HlslAst.Expr}
    (hg : genExpr cx e = .ok a) (hok : Ir.okExprM (side cx W vis rsv) e = true) :
    ∃ t, Ir.typeOf W.sig cx.vty e = some t ∧ SimM W M env e a t := by
  simp only [Ir.okExprM, Bool.and_eq_true] at hok
  obtain ⟨t, ht⟩ := Option.isSome_iff_exists.mp hok.1
  exact ⟨t, ht, sim_exprM hag hw e a t hg ht hok.2⟩

theorem sim_okTM (hag : AgreeM cx vis env) (hw : Worlds cx rsv W M) {e : Ir.Expr} {a : HlslAst.Expr} {t : Ty}
    (hg : genExpr cx e = .ok a) (hok : Ir.okExprTM (side cx W vis rsv) t e = true) :
    Ir.typeOf W.sig cx.vty e = some t ∧ SimM W M env e a t := by
  simp only [Ir.okExprTM, Bool.and_eq_true] at hok
  cases ht : Ir.typeOf W.sig cx.vty e with
  | none => simp [side, ht] at hok
  | some t' =>
    simp [side, ht] at hok
    obtain ⟨rfl, hl⟩ := hok
    exact ⟨rfl, sim_exprM hag hw e a t' hg ht hl⟩

theorem cond_fn_eqM (hag : AgreeM cx vis env) (hw : Worlds cx rsv W M)
    {c : Option Ir.Expr} {c' : Option HlslAst.Expr}
    (hg : genOptExpr cx c = .ok c') (hok : Ir.okOptM (side cx W vis rsv) c = true) :
    Msl.condFn M env c' = Ir.condFn W c := by
  cases c with
  | none => simp [genOptExpr] at hg; subst hg; rfl
  | some e =>
    cases hge : genExpr cx e with
    | error err => simp [genOptExpr, hge, Except.map] at hg
    | ok a =>
      simp [genOptExpr, hge, Except.map] at hg; subst hg
      obtain ⟨t, _, hs⟩ := sim_okM hag hw hge (by simpa [Ir.okOptM] using hok)
      funext σ
      simp [Msl.condFn, Ir.condFn, Msl.condE, hs.1, hs.cond hw.prim σ]

theorem inc_fn_eqM (hag : AgreeM cx vis env) (hw : Worlds cx rsv W M)
    {c : Option Ir.Expr} {c' : Option HlslAst.Expr}
    (hg : genOptExpr cx c = .ok c') (hok : Ir.okOptM (side cx W vis rsv) c = true) :
    Msl.incFn M env c' = Ir.incFn W c := by
  cases c with
  | none => simp [genOptExpr] at hg; subst hg; rfl
  | some e =>
    cases hge : genExpr cx e with
    | error err => simp [genOptExpr, hge, Except.map] at hg
    | ok a =>
      simp [genOptExpr, hge, Except.map] at hg; subst hg
      obtain ⟨t, _, hs⟩ := sim_okM hag hw hge (by simpa [Ir.okOptM] using hok)
      funext σ
      simp [Msl.incFn, Ir.incFn, hs.drop σ]

theorem vardef_eqM (hag : AgreeM cx vis env) (hw : Worlds cx rsv W M)
    {id : Nat} {init : Option Ir.Expr} {tn name : String} {i : Option HlslAst.Expr}
    (hg : genVarDef cx id init = .ok (tn, name, i)) (hok : Ir.okVarDefM (side cx W vis rsv) id init = true) :
    Ast.tyOfName tn = some (cx.vty (.loc id)) ∧
    ∀ σ, Msl.execVarDef M env (cx.vty (.loc id)) name i σ = Ir.execVarDef W id init σ := by
  simp only [genVarDef] at hg
  cases htn : GenMsl.typeName (cx.vty (.loc id)) with
  | error e => simp [htn] at hg
  | ok tn' =>
    cases hgi : genOptExpr cx init with
    | error e => simp [htn, hgi] at hg
    | ok i' =>
      simp [htn, hgi] at hg
      obtain ⟨rfl, rfl, rfl⟩ := hg
      refine ⟨typeName_tyOfName htn, fun σ => ?_⟩
      cases init with
      | none =>
        simp [genOptExpr] at hgi; subst hgi
        have hr := hag.res (.loc id) (by simpa [Ir.okVarDefM, side] using hok)
        simp only [Ctx.name] at hr
        simp [Msl.execVarDef, Ir.execVarDef, hr]
      | some e =>
        simp only [Ir.okVarDefM, Bool.and_eq_true] at hok
        have hr := hag.res (.loc id) (by simpa [side] using hok.1)
        simp only [Ctx.name] at hr
        cases hge : genExpr cx e with
        | error err => simp [genOptExpr, hge, Except.map] at hgi
        | ok a =>
          simp [genOptExpr, hge, Except.map] at hgi; subst hgi
          obtain ⟨ht, hs⟩ := sim_okTM hag hw hge (by simpa [side] using hok.2)
          have := hs.conv ht σ
          simp [Msl.execVarDef, Ir.execVarDef, hr, hs.1, this]

theorem typeName_injM {a b : Ty} {n : String} (ha : GenMsl.typeName a = .ok n) (hb : GenMsl.typeName b = .ok n) : a = b := by
  have h1 := typeName_tyOfName ha
  have h2 := typeName_tyOfName hb
  rw [h1] at h2
  exact Option.some.inj h2

theorem fordefs_eqM (hag : AgreeM cx vis env) (hw : Worlds cx rsv W M) (T : Ty) (tn : String) :
    ∀ (ds : List (Nat × Option Ir.Expr)) (ds' : List (String × Option HlslAst.Expr)),
      genForDefs cx tn ds = .ok ds' → (ds.all fun d => Ir.okVarDefM (side cx W vis rsv) d.1 d.2) = true →
      (∀ d ∈ ds, ∀ n, GenMsl.typeName (cx.vty (.loc d.1)) = .ok n → n = tn → cx.vty (.loc d.1) = T) →
      ∀ σ, Msl.execForDefs M env T ds' σ = Ir.execForDefs W ds σ
  | [], ds', hg, _, _ => by simp [genForDefs] at hg; subst hg; intro σ; rfl
  | (id, init) :: r, ds', hg, hok, hT => by
    simp only [List.all_cons, Bool.and_eq_true] at hok
    simp only [genForDefs] at hg
    cases hv : genVarDef cx id init with
    | error e => simp [hv] at hg
    | ok v =>
      obtain ⟨tn', name, i⟩ := v
      simp only [hv] at hg
      by_cases hne : tn' ≠ tn
      · simp [hne] at hg
      · have heq : tn' = tn := by simpa using hne
        simp only [heq, ne_eq, not_true_eq_false, if_false] at hg
        cases hr : genForDefs cx tn r with
        | error e => simp [hr] at hg
        | ok ds2 =>
          simp [hr] at hg; subst hg
          have hvd := vardef_eqM (W := W) (M := M) hag hw hv hok.1
          have hTy : cx.vty (.loc id) = T := by
            have htn : GenMsl.typeName (cx.vty (.loc id)) = .ok tn' := by
              simp only [genVarDef] at hv
              cases h1 : GenMsl.typeName (cx.vty (.loc id)) with
              | error e => simp [h1] at hv
              | ok n1 =>
                cases h2 : genOptExpr cx init with
                | error e => simp [h1, h2] at hv
                | ok i2 => simp [h1, h2] at hv; simp [hv.1]
            exact hT (id, init) (by simp) tn' htn heq
          have ih := fordefs_eqM hag hw T tn r ds2 hr hok.2 (fun d hd => hT d (by simp [hd]))
          intro σ
          simp only [Msl.execForDefs, Ir.execForDefs, ← hTy, hvd.2 σ]
          cases Ir.execVarDef W id init σ with
          | none => rfl
          | some σ1 => simp [hTy, ih σ1]

theorem forinit_eqM (hag : AgreeM cx vis env) (hw : Worlds cx rsv W M)
    {init : Ir.ForInit} {init' : HlslAst.ForInit}
    (hg : genForInit cx init = .ok init') (hok : Ir.okForInitM (side cx W vis rsv) init = true) :
    ∀ σ, Msl.execForInit M env init' σ = Ir.execForInit W init σ := by
  cases init with
  | empty => simp [genForInit] at hg; subst hg; intro σ; rfl
  | expr e =>
    cases hge : genExpr cx e with
    | error err => simp [genForInit, hge, Except.map] at hg
    | ok a =>
      simp [genForInit, hge, Except.map] at hg; subst hg
      obtain ⟨t, _, hs⟩ := sim_okM hag hw hge (by simpa [Ir.okForInitM] using hok)
      intro σ
      simp [Msl.execForInit, Ir.execForInit, hs.drop σ]
  | defs ds =>
    cases ds with
    | nil => simp [genForInit] at hg
    | cons d r =>
      obtain ⟨id, i0⟩ := d
      simp only [Ir.okForInitM, List.all_cons, Bool.and_eq_true] at hok
      simp only [genForInit] at hg
      cases hv : genVarDef cx id i0 with
      | error e => simp [hv] at hg
      | ok v =>
        obtain ⟨tn, name, i⟩ := v
        simp only [hv] at hg
        cases hr : genForDefs cx tn r with
        | error e => simp [hr] at hg
        | ok ds2 =>
          simp [hr] at hg; subst hg
          have hvd := vardef_eqM (W := W) (M := M) hag hw hv hok.1
          have htn : GenMsl.typeName (cx.vty (.loc id)) = .ok tn := by
            simp only [genVarDef] at hv
            cases h1 : GenMsl.typeName (cx.vty (.loc id)) with
            | error e => simp [h1] at hv
            | ok n1 =>
              cases h2 : genOptExpr cx i0 with
              | error e => simp [h1, h2] at hv
              | ok i2 => simp [h1, h2] at hv; simp [hv.1]
          have ih := fordefs_eqM (W := W) (M := M) hag hw (cx.vty (.loc id)) tn r ds2 hr hok.2
            (fun d _ n hn hnt => typeName_injM (by rw [hn, hnt]) htn)
          intro σ
          simp only [Msl.execForInit, hvd.1, Msl.execForDefs, Ir.execForInit, Ir.execForDefs, hvd.2 σ]
          cases Ir.execVarDef W id i0 σ with
          | none => rfl
          | some σ1 => simp [ih σ1]
end

open RsslVerif.Model.HlslAst (pushStmt)

theorem execs_run_ne_seeking (M : Msl.MWorld) (env : Ast.Env) (rt : Ty) (fuel : Nat) :
    ∀ (b : HlslAst.Stmts) (σ σ' : Store), Msl.execs M env rt fuel .run b σ ≠ some (.seeking, σ')
  | .nil, σ, σ' => by simp [Msl.execs, endOf]
  | .cons s r, σ, σ' => by
    simp only [Msl.execs]
    cases h : Msl.exec M env rt fuel .run s σ with
    | none => simp
    | some p =>
      obtain ⟨fl, σ1⟩ := p
      cases fl <;> simp
      · exact execs_run_ne_seeking M env rt fuel r σ1 σ'
      · exact execs_run_ne_seeking M env rt fuel r σ1 σ'

theorem bindS_run_of (M : Msl.MWorld) (env : Ast.Env) (rt : Ty) (fuel : Nat) (m : Mode) (b : HlslAst.Stmts) (σ : Store)
    (k : Mode → Store → SR) :
    bindS m (Msl.execs M env rt fuel .run b σ) k = bindS .run (Msl.execs M env rt fuel .run b σ) k := by
  cases h : Msl.execs M env rt fuel .run b σ with
  | none => rfl
  | some p =>
    obtain ⟨fl, σ1⟩ := p
    cases fl <;> try rfl
    exact absurd h (execs_run_ne_seeking M env rt fuel b σ σ1)

theorem execs_single (M : Msl.MWorld) (env : Ast.Env) (rt : Ty) (fuel : Nat) (m : Mode) (s : HlslAst.Stmt) (σ : Store) :
    Msl.execs M env rt fuel m (.cons s .nil) σ =
      (match Msl.exec M env rt fuel m s σ with
        | none => none
        | some (.normal, σ1) => some (.normal, σ1)
        | some (.seeking, σ1) => endOf m σ1
        | some (fl, σ1) => some (fl, σ1)) := by
  simp only [Msl.execs]
  cases Msl.exec M env rt fuel m s σ with
  | none => rfl
  | some p => obtain ⟨fl, σ1⟩ := p; cases fl <;> simp [endOf]

/-- a statement that is entered executing never reports "still looking for a label" -/
theorem exec_run_ne_seeking (M : Msl.MWorld) (env : Ast.Env) (rt : Ty) (fuel : Nat) :
    ∀ (s : HlslAst.Stmt) (σ σ' : Store), Msl.exec M env rt fuel .run s σ ≠ some (.seeking, σ')
  | .expr e, σ, σ' => by
    simp only [Msl.exec, skip]; cases Msl.eval M env e σ <;> simp [dropVal, normalOf]
  | .var ty n i, σ, σ' => by
    simp only [Msl.exec, skip]
    cases Ast.tyOfName ty with
    | none => simp
    | some T => simp only []; cases Msl.execVarDef M env T n i σ <;> simp [normalOf]
  | .block b, σ, σ' => by simp only [Msl.exec, skip]; exact execs_run_ne_seeking M env rt fuel b σ σ'
  | .ifThen c b, σ, σ' => by
    simp only [Msl.exec, skip]
    cases Msl.condE M env c σ with
    | none => simp
    | some p => obtain ⟨bv, σ1⟩ := p; cases bv <;> simp; exact exec_run_ne_seeking M env rt fuel b σ1 σ'
  | .ifElse c t f, σ, σ' => by
    simp only [Msl.exec, skip]
    cases Msl.condE M env c σ with
    | none => simp
    | some p =>
      obtain ⟨bv, σ1⟩ := p
      cases bv <;> simp
      · exact exec_run_ne_seeking M env rt fuel f σ1 σ'
      · exact exec_run_ne_seeking M env rt fuel t σ1 σ'
  | .for i c n b, σ, σ' => by
    simp only [Msl.exec, skip]
    cases Msl.execForInit M env i σ with
    | none => simp
    | some σ0 => exact loopW_ne_seeking _ _ _ _ _ _
  | .while c b, σ, σ' => by simp only [Msl.exec, skip]; exact loopW_ne_seeking _ _ _ _ _ _
  | .doWhile b c, σ, σ' => by simp only [Msl.exec, skip]; exact loopD_ne_seeking _ _ _ _ _
  | .break, σ, σ' => by simp [Msl.exec, skip]
  | .continue, σ, σ' => by simp [Msl.exec, skip]
  | .ret none, σ, σ' => by simp [Msl.exec, skip]
  | .ret (some e), σ, σ' => by
    simp only [Msl.exec, skip]
    cases Msl.typeOf M.msig env e with
    | none => simp
    | some te => simp only []; cases Msl.convR M.P te rt (Msl.eval M env e σ) <;> simp [retOf]
  | .empty, σ, σ' => by simp [Msl.exec, endOf]
  | .switch c body, σ, σ' => by
    cases body with
    | block b =>
      simp only [Msl.exec, skip]
      cases htc : Msl.typeOf M.msig env c with
      | none => simp
      | some tc =>
        simp only []
        split
        · cases hcv : Msl.convR M.P tc (Msl.promote tc) (Msl.eval M env c σ) with
          | none => simp
          | some p => obtain ⟨v, σ1⟩ := p; exact switchOut_ne_seeking _ _ _
        · simp
    | _ => simp [Msl.exec, skip]
  | .caseLabel e s, σ, σ' => by simp only [Msl.exec]; exact exec_run_ne_seeking M env rt fuel s σ σ'
  | .defaultLabel s, σ, σ' => by simp only [Msl.exec]; exact exec_run_ne_seeking M env rt fuel s σ σ'

/-- the label-filling `push` of `generate_scope_block` means "and then this statement" -/
theorem execs_push (M : Msl.MWorld) (env : Ast.Env) (rt : Ty) (fuel : Nat) (s : HlslAst.Stmt) :
    ∀ (acc : HlslAst.Stmts) (m : Mode) (σ : Store),
      Msl.execs M env rt fuel m (pushStmt acc s) σ =
        bindS m (Msl.execs M env rt fuel m acc σ) (fun m' σ' => Msl.execs M env rt fuel m' (.cons s .nil) σ')
  | .nil, m, σ => by
    cases m <;> simp [pushStmt, Msl.execs, endOf, bindS]
  | .cons x .nil, m, σ => by
    have generic : Msl.execs M env rt fuel m (.cons x (.cons s .nil)) σ =
        bindS m (Msl.execs M env rt fuel m (.cons x .nil) σ) (fun m' σ' => Msl.execs M env rt fuel m' (.cons s .nil) σ') := by
      rw [execs_single M env rt fuel m x σ]
      conv => lhs; rw [Msl.execs]
      cases Msl.exec M env rt fuel m x σ with
      | none => rfl
      | some p =>
        obtain ⟨fl, σ1⟩ := p
        cases fl <;> try rfl
        cases m <;> simp [endOf, bindS]
    cases x with
    | caseLabel e s0 =>
      cases s0 with
      | empty =>
        simp only [pushStmt]
        rw [execs_single, execs_single]
        have hrun : ∀ σ0, (match Msl.exec M env rt fuel .run s σ0 with
            | none => none
            | some (.normal, σ1) => some (Flow.normal, σ1)
            | some (.seeking, σ1) => endOf m σ1
            | some (fl, σ1) => some (fl, σ1)) =
            (match Msl.exec M env rt fuel .run s σ0 with
            | none => none
            | some (.normal, σ1) => some (Flow.normal, σ1)
            | some (.seeking, σ1) => endOf .run σ1
            | some (fl, σ1) => some (fl, σ1)) := by
          intro σ0
          cases h : Msl.exec M env rt fuel .run s σ0 with
          | none => rfl
          | some p =>
            obtain ⟨fl, σ1⟩ := p
            cases fl <;> try rfl
            exact absurd h (exec_run_ne_seeking M env rt fuel s σ0 σ1)
        cases m with
        | run => simp [Msl.exec, endOf, bindS, execs_single]
        | seekDefault =>
          simp only [Msl.exec, endOf, bindS, execs_single]
        | seekCase T v =>
          simp only [Msl.exec]
          cases Msl.typeOf M.msig env e with
          | none => rfl
          | some te =>
            simp only []
            cases Msl.convR M.P te T (Msl.eval M env e σ) with
            | none => rfl
            | some q =>
              obtain ⟨ev, _⟩ := q
              simp only []
              by_cases hv : ev = v
              · simp only [hv, if_true, endOf, bindS, execs_single]
                exact hrun σ
              · simp only [hv, if_false, endOf, bindS, execs_single]
      | _ => simpa [pushStmt] using generic
    | defaultLabel s0 =>
      cases s0 with
      | empty =>
        simp only [pushStmt]
        rw [execs_single, execs_single]
        have hrun : ∀ σ0, (match Msl.exec M env rt fuel .run s σ0 with
            | none => none
            | some (.normal, σ1) => some (Flow.normal, σ1)
            | some (.seeking, σ1) => endOf m σ1
            | some (fl, σ1) => some (fl, σ1)) =
            (match Msl.exec M env rt fuel .run s σ0 with
            | none => none
            | some (.normal, σ1) => some (Flow.normal, σ1)
            | some (.seeking, σ1) => endOf .run σ1
            | some (fl, σ1) => some (fl, σ1)) := by
          intro σ0
          cases h : Msl.exec M env rt fuel .run s σ0 with
          | none => rfl
          | some p =>
            obtain ⟨fl, σ1⟩ := p
            cases fl <;> try rfl
            exact absurd h (exec_run_ne_seeking M env rt fuel s σ0 σ1)
        cases m with
        | run => simp [Msl.exec, endOf, bindS, execs_single]
        | seekCase T v => simp only [Msl.exec, endOf, bindS, execs_single]
        | seekDefault =>
          simp only [Msl.exec, endOf, bindS, execs_single]
          exact hrun σ
      | _ => simpa [pushStmt] using generic
    | _ => simpa [pushStmt] using generic
  | .cons x (.cons y r), m, σ => by
    have ih := execs_push M env rt fuel s (.cons y r)
    simp only [pushStmt]
    rw [Msl.execs]
    conv => rhs; rw [Msl.execs]
    cases Msl.exec M env rt fuel m x σ with
    | none => rfl
    | some p =>
      obtain ⟨fl, σ1⟩ := p
      cases fl with
      | normal => simp only []; rw [ih .run σ1]; exact (bindS_run_of M env rt fuel m _ σ1 _).symm
      | seeking => simp only []; rw [ih m σ1]
      | _ => rfl

theorem bind_end (M : Msl.MWorld) (env : Ast.Env) (rt : Ty) (fuel : Nat) (m : Mode) (acc : HlslAst.Stmts) (σ : Store) :
    bindS m (Msl.execs M env rt fuel m acc σ) (fun m' σ' => endOf m' σ') = Msl.execs M env rt fuel m acc σ := by
  cases h : Msl.execs M env rt fuel m acc σ with
  | none => rfl
  | some p =>
    obtain ⟨fl, σ1⟩ := p
    cases fl <;> try rfl
    cases m with
    | run => exact absurd h (execs_run_ne_seeking M env rt fuel acc σ σ1)
    | _ => rfl

theorem wrap64_id {n : Int} (h1 : -9223372036854775808 ≤ n) (h2 : n < 9223372036854775808) : Msl.wrap64 n = n := by
  unfold Msl.wrap64
  rw [BitVec.toInt_ofInt]
  simp only [Int.bmod]
  omega

theorem ofNat_eq_ofInt (v : Int) (h : 0 ≤ v) : BitVec.ofNat 32 v.toNat = BitVec.ofInt 32 v := ofNat_toNat_int v h

/-- a `case` label: the emitted constant, converted to the (promoted) type of the controlling expression, is the IR's
constant converted to that type -/
theorem sim_labelM (W : World) (M : Msl.MWorld) (env : Ast.Env) (hp : M.P = W.P) (T : Ty)
    (c : Const) (a : HlslAst.Expr) (hc : Ir.labelOK T c = true) (hg : GenMsl.genLiteral c = .ok a) :
    ∃ te, Msl.typeOf M.msig env a = some te ∧
      ∀ σ, Msl.convR M.P te T (Msl.eval M env a σ) =
        (match castVal W.P T (Ir.constVal c) with | none => none | some x => some (x, σ)) := by
  simp only [Ir.labelOK, Bool.and_eq_true, Bool.or_eq_true, decide_eq_true_eq] at hc
  obtain ⟨hT, hc⟩ := hc
  cases c with
  | bool b => simp at hc
  | float32 x => simp at hc
  | floatLit x => simp at hc
  | uint32 v =>
    simp at hc; subst hc
    rw [genLiteral_eq] at hg
    simp [GenHlsl.genLiteral, Const.kind, GenHlsl.Const.intValue, GenSem.findArm_uint, GenHlsl.mkLit, Except.map] at hg
    subst hg
    have : v.toNat < 4294967296 := v.isLt
    exact ⟨.uint, by simp [Msl.typeOf, Msl.litTy, this],
      fun σ => by simp [Msl.eval, Msl.litTy, Msl.litVal, this, Msl.convR, Msl.convert, Ir.constVal, castVal]⟩
  | int32 v =>
    simp at hc; subst hc
    have hs := sim_litM W M env { sig := W.sig, vty := fun _ => Ty.int, vis := fun _ => true, req := fun _ => none, rsv := fun _ => [], called := fun _ => false }
      (.int32 v) a (by simp [Ir.okM]) hg
    have ht : Ir.typeOf W.sig (fun _ => Ty.int) (.lit (.int32 v)) = some .int := by simp [Ir.typeOf, Const.ty]
    refine ⟨_, hs.1, fun σ => ?_⟩
    have := hs.conv ht σ
    simpa [Const.ty, Ir.eval, Ir.constVal, castVal] using this
  | intLit v =>
    rw [genLiteral_eq] at hg
    simp only [Bool.and_eq_true, decide_eq_true_eq] at hc
    by_cases hn : v < 0
    · have h64 : -v ≤ GenHlsl.u64Max := by simp [GenHlsl.u64Max]; omega
      simp [GenHlsl.genLiteral, Const.kind, GenHlsl.Const.intValue, GenSem.findArm_intLit_neg v hn h64, GenHlsl.negMagnitude] at hg
      subst hg
      by_cases hsmall : (-v).toNat < 2147483648
      · have e1 : -(BitVec.ofNat 32 (-v).toNat) = BitVec.ofInt 32 v := by
          rw [ofNat_toNat_int _ (by omega), ← BitVec.ofInt_neg]; simp
        refine ⟨.int, by simp [Msl.typeOf, Msl.litTy, hsmall, astUnSem, Msl.promote], fun σ => ?_⟩
        rcases hT with rfl | rfl <;>
          simp [Msl.eval, Msl.typeOf, Msl.litTy, Msl.litVal, hsmall, astUnSem, Msl.promote, Msl.convR, Msl.convert, Msl.unopM, unop,
            Msl.castM, Ir.constVal, castVal, e1]
      · have hbig : (-v).toNat < 9223372036854775808 := by omega
        have e3 : Msl.wrap64 (-(((-v).toNat : Nat) : Int)) = v := by
          have e2 : (((-v).toNat : Nat) : Int) = -v := by omega
          rw [e2]; simp; exact wrap64_id (by omega) (by omega)
        have e4 : Msl.wrap64 (-max (-v) 0) = v := by
          have : max (-v) 0 = -v := by omega
          rw [this]; simp; exact wrap64_id (by omega) (by omega)
        refine ⟨.lit, by simp [Msl.typeOf, Msl.litTy, hsmall, hbig, astUnSem, Msl.promote], fun σ => ?_⟩
        rcases hT with rfl | rfl <;>
          simp only [Msl.eval, Msl.typeOf, Msl.litTy, Msl.litVal, hsmall, hbig, astUnSem, Msl.promote, Msl.convR, Msl.convert, Msl.unopM,
            Msl.castM, Ir.constVal, castVal, e3, if_true, if_false, if_pos rfl] <;> simp [castVal, e3, e4]
    · have h0 : 0 ≤ v := by omega
      have h64 : v ≤ GenHlsl.u64Max := by simp [GenHlsl.u64Max]; omega
      simp [GenHlsl.genLiteral, Const.kind, GenHlsl.Const.intValue, GenSem.findArm_intLit_nonneg v h0 h64, GenHlsl.mkLit, Except.map] at hg
      subst hg
      by_cases hsmall : v.toNat < 2147483648
      · refine ⟨.int, by simp [Msl.typeOf, Msl.litTy, hsmall], fun σ => ?_⟩
        rcases hT with rfl | rfl <;>
          simp [Msl.eval, Msl.litTy, Msl.litVal, hsmall, Msl.convR, Msl.convert, Msl.castM, Ir.constVal, castVal, ofNat_toNat_int v h0]
      · have hbig : v.toNat < 9223372036854775808 := by omega
        have e2 : ((v.toNat : Nat) : Int) = v := by omega
        refine ⟨.lit, by simp [Msl.typeOf, Msl.litTy, hsmall, hbig], fun σ => ?_⟩
        rcases hT with rfl | rfl <;>
          simp [Msl.eval, Msl.litTy, Msl.litVal, hsmall, hbig, Msl.convR, Msl.convert, Msl.castM, Ir.constVal, castVal, e2]

section
variable {W : World} {M : Msl.MWorld} {env : Ast.Env} {cx : Ctx} {vis : Var → Bool} {rsv : Nat → List Var}

mutual
theorem sim_stmtM (hag : AgreeM cx vis env) (hw : Worlds cx rsv W M) (rt : Ty) :
    ∀ (s : Ir.Stmt) (s' : HlslAst.Stmt) (lt : Option Ty),
      genStmt cx s = .ok s' → Ir.wtStmtM (side cx W vis rsv) rt lt s = true →
      ∀ m, ModeOK lt m → ∀ fuel σ, Msl.exec M env rt fuel m s' σ = Ir.exec W fuel m s σ
  | .expr e, s', lt, hg, hwt => by
    cases hge : genExpr cx e with
    | error err => simp [genStmt, hge, Except.map] at hg
    | ok a =>
      simp [genStmt, hge, Except.map] at hg; subst hg
      obtain ⟨t, _, hs⟩ := sim_okM hag hw hge (by simpa [Ir.wtStmtM] using hwt)
      intro m _ fuel σ
      simp [Msl.exec, Ir.exec, hs.drop σ]
  | .var id init, s', lt, hg, hwt => by
    cases hv : genVarDef cx id init with
    | error err => simp [genStmt, hv] at hg
    | ok v =>
      obtain ⟨tn, name, i⟩ := v
      simp [genStmt, hv] at hg; subst hg
      have hvd := vardef_eqM (W := W) (M := M) hag hw hv (by simpa [Ir.wtStmtM] using hwt)
      intro m _ fuel σ
      simp [Msl.exec, Ir.exec, hvd.1, hvd.2 σ]
  | .block b, s', lt, hg, hwt => by
    cases hb : genStmtsAcc cx b .nil with
    | error err => simp [genStmt, hb, Except.map] at hg
    | ok b' =>
      simp [genStmt, hb, Except.map] at hg; subst hg
      have ih := sim_accM hag hw rt b .nil b' none hb (by simpa [Ir.wtStmtM] using hwt) .run trivial
      intro m _ fuel σ
      simp [Msl.exec, Ir.exec, ih fuel σ, Msl.execs, endOf, bindS]
  | .ifThen c b, s', lt, hg, hwt => by
    simp only [Ir.wtStmtM, Bool.and_eq_true] at hwt
    cases hgc : genExpr cx c with
    | error err => simp [genStmt, hgc] at hg
    | ok c' =>
      cases hb : genStmtsAcc cx b .nil with
      | error err => simp [genStmt, hgc, hb] at hg
      | ok b' =>
        simp [genStmt, hgc, hb] at hg; subst hg
        obtain ⟨t, _, hs⟩ := sim_okM hag hw hgc hwt.1
        have ih := sim_accM hag hw rt b .nil b' none hb hwt.2 .run trivial
        intro m _ fuel σ
        simp only [Msl.exec, Ir.exec, Msl.condE, hs.1, hs.cond hw.prim σ]
        congr 1; funext _
        cases condOfB W.P (Ir.eval W c σ) with
        | none => rfl
        | some r => obtain ⟨bv, σ1⟩ := r; cases bv <;> simp [skip, ih fuel σ1, Msl.execs, endOf, bindS]
  | .ifElse c t f, s', lt, hg, hwt => by
    simp only [Ir.wtStmtM, Bool.and_eq_true] at hwt
    cases hgc : genExpr cx c with
    | error err => simp [genStmt, hgc] at hg
    | ok c' =>
      cases hb : genStmtsAcc cx t .nil with
      | error err => simp [genStmt, hgc, hb] at hg
      | ok t' =>
        cases hb2 : genStmtsAcc cx f .nil with
        | error err => simp [genStmt, hgc, hb, hb2] at hg
        | ok f' =>
          simp [genStmt, hgc, hb, hb2] at hg; subst hg
          obtain ⟨ty, _, hs⟩ := sim_okM hag hw hgc hwt.1.1
          have ih1 := sim_accM hag hw rt t .nil t' none hb hwt.1.2 .run trivial
          have ih2 := sim_accM hag hw rt f .nil f' none hb2 hwt.2 .run trivial
          intro m _ fuel σ
          simp only [Msl.exec, Ir.exec, Msl.condE, hs.1, hs.cond hw.prim σ]
          congr 1; funext _
          cases condOfB W.P (Ir.eval W c σ) with
          | none => rfl
          | some r =>
            obtain ⟨bv, σ1⟩ := r
            cases bv <;> simp [skip, ih1 fuel σ1, ih2 fuel σ1, Msl.execs, endOf, bindS]
  | .for init cond inc b, s', lt, hg, hwt => by
    simp only [Ir.wtStmtM, Bool.and_eq_true] at hwt
    obtain ⟨⟨⟨hwi, hwc⟩, hwn⟩, hwb⟩ := hwt
    cases hgi : genForInit cx init with
    | error err => simp [genStmt, hgi] at hg
    | ok init' =>
      cases hgc : genOptExpr cx cond with
      | error err => simp [genStmt, hgi, hgc] at hg
      | ok cond' =>
        cases hgn : genOptExpr cx inc with
        | error err => simp [genStmt, hgi, hgc, hgn] at hg
        | ok inc' =>
          cases hb : genStmtsAcc cx b .nil with
          | error err => simp [genStmt, hgi, hgc, hgn, hb] at hg
          | ok b' =>
            simp [genStmt, hgi, hgc, hgn, hb] at hg; subst hg
            have ih := sim_accM hag hw rt b .nil b' none hb hwb .run trivial
            intro m _ fuel σ
            have hbody : (fun s => Msl.execs M env rt fuel .run b' s) = (fun s => Ir.execs W fuel .run b s) := by
              funext s; simp [ih fuel s, Msl.execs, endOf, bindS]
            simp only [Msl.exec, Ir.exec, forinit_eqM hag hw hgi hwi σ, cond_fn_eqM hag hw hgc hwc, inc_fn_eqM hag hw hgn hwn, skip]
            congr 1; funext _
            cases Ir.execForInit W init σ with
            | none => rfl
            | some σ0 => simp only []; rw [hbody]
  | .while c b, s', lt, hg, hwt => by
    simp only [Ir.wtStmtM, Bool.and_eq_true] at hwt
    cases hgc : genExpr cx c with
    | error err => simp [genStmt, hgc] at hg
    | ok c' =>
      cases hb : genStmtsAcc cx b .nil with
      | error err => simp [genStmt, hgc, hb] at hg
      | ok b' =>
        simp [genStmt, hgc, hb] at hg; subst hg
        have ih := sim_accM hag hw rt b .nil b' none hb hwt.2 .run trivial
        have hc : Msl.condFn M env (some c') = Ir.condFn W (some c) :=
          cond_fn_eqM hag hw (by simp [genOptExpr, hgc, Except.map]) (by simpa [Ir.okOptM] using hwt.1)
        intro m _ fuel σ
        have hbody : (fun s => Msl.execs M env rt fuel .run b' s) = (fun s => Ir.execs W fuel .run b s) := by
          funext s; simp [ih fuel s, Msl.execs, endOf, bindS]
        simp only [Msl.exec, Ir.exec, hc, hbody, skip]
  | .doWhile b c, s', lt, hg, hwt => by
    simp only [Ir.wtStmtM, Bool.and_eq_true] at hwt
    cases hb : genStmtsAcc cx b .nil with
    | error err => simp [genStmt, hb] at hg
    | ok b' =>
      cases hgc : genExpr cx c with
      | error err => simp [genStmt, hgc, hb] at hg
      | ok c' =>
        simp [genStmt, hgc, hb] at hg; subst hg
        have ih := sim_accM hag hw rt b .nil b' none hb hwt.1 .run trivial
        have hc : Msl.condFn M env (some c') = Ir.condFn W (some c) :=
          cond_fn_eqM hag hw (by simp [genOptExpr, hgc, Except.map]) (by simpa [Ir.okOptM] using hwt.2)
        intro m _ fuel σ
        have hbody : (fun s => Msl.execs M env rt fuel .run b' s) = (fun s => Ir.execs W fuel .run b s) := by
          funext s; simp [ih fuel s, Msl.execs, endOf, bindS]
        simp only [Msl.exec, Ir.exec, hc, hbody, skip]
  | .break, s', lt, hg, _ => by
    simp [genStmt] at hg; subst hg; intro m _ fuel σ; rfl
  | .continue, s', lt, hg, _ => by
    simp [genStmt] at hg; subst hg; intro m _ fuel σ; rfl
  | .ret none, s', lt, hg, _ => by
    simp [genStmt, genOptExpr, Except.map] at hg; subst hg; intro m _ fuel σ; rfl
  | .ret (some e), s', lt, hg, hwt => by
    cases hge : genExpr cx e with
    | error err => simp [genStmt, genOptExpr, hge, Except.map] at hg
    | ok a =>
      simp [genStmt, genOptExpr, hge, Except.map] at hg; subst hg
      obtain ⟨ht, hs⟩ := sim_okTM hag hw hge (by simpa [Ir.wtStmtM] using hwt)
      intro m _ fuel σ
      simp [Msl.exec, Ir.exec, hs.1, hs.conv ht σ]
  | .switch T c b, s', lt, hg, hwt => by
    simp only [Ir.wtStmtM, Bool.and_eq_true, Bool.not_eq_true', Bool.or_eq_true, decide_eq_true_eq] at hwt
    obtain ⟨⟨⟨hwc, hmin⟩, hT⟩, hwb⟩ := hwt
    cases hgc : genExpr cx c with
    | error err => simp [genStmt, hgc] at hg
    | ok c' =>
      cases hb : genStmtsAcc cx b .nil with
      | error err => simp [genStmt, hgc, hb] at hg
      | ok b' =>
        simp [genStmt, hgc, hb] at hg; subst hg
        obtain ⟨ht, hs⟩ := sim_okTM hag hw hgc hwc
        obtain ⟨tyc, evc⟩ := hs.plain hmin
        have ih := sim_accM hag hw rt b .nil b' (some T) hb hwb
        have hprom : Msl.promote T = T ∧ Msl.isInteger T = true := by
          rcases hT with rfl | rfl <;> simp [Msl.promote, Msl.isInteger]
        intro m _ fuel σ
        have hbody : ∀ m, ModeOK (some T) m → ∀ σ, Msl.execs M env rt fuel m b' σ = Ir.execs W fuel m b σ := by
          intro m hm σ
          rw [ih m hm fuel σ]
          cases m <;> simp [Msl.execs, endOf, bindS]
        simp only [Msl.exec, Ir.exec, tyc, hprom.1, hprom.2, if_true, evc σ]
        congr 1; funext _
        cases Ir.eval W c σ with
        | none => simp [Msl.convR]
        | some p =>
          obtain ⟨v, σ1⟩ := p
          simp only [Msl.convR, Msl.convert, if_true]
          rw [hbody (.seekCase T v) rfl σ1]
          congr 1; funext s
          exact hbody .seekDefault trivial s
  | .caseLabel c, s', lt, hg, hwt => by
    cases hgl : GenMsl.genLiteral c with
    | error err => simp [genStmt, hgl] at hg
    | ok e =>
      simp [genStmt, hgl] at hg; subst hg
      intro m hm fuel σ
      cases m with
      | run => simp [Msl.exec, Ir.exec, endOf]
      | seekDefault => simp [Msl.exec, Ir.exec, endOf]
      | seekCase T v =>
        simp only [ModeOK] at hm
        subst hm
        simp only [Ir.wtStmtM] at hwt
        obtain ⟨te, hte, key⟩ := sim_labelM W M env hw.prim T c e hwt hgl
        simp only [Msl.exec, Ir.exec, hte, key, endOf]
        cases hcv : castVal W.P T (Ir.constVal c) with
        | none => rfl
        | some x => by_cases hv : x = v <;> simp [hv]
  | .defaultLabel, s', lt, hg, _ => by
    simp [genStmt] at hg; subst hg
    intro m _ fuel σ
    cases m <;> simp [Msl.exec, Ir.exec, endOf]
theorem sim_accM (hag : AgreeM cx vis env) (hw : Worlds cx rsv W M) (rt : Ty) :
    ∀ (b : Ir.Stmts) (acc acc' : HlslAst.Stmts) (lt : Option Ty),
      genStmtsAcc cx b acc = .ok acc' → Ir.wtStmtsM (side cx W vis rsv) rt lt b = true →
      ∀ m, ModeOK lt m → ∀ fuel σ,
        Msl.execs M env rt fuel m acc' σ =
          bindS m (Msl.execs M env rt fuel m acc σ) (fun m' σ' => Ir.execs W fuel m' b σ')
  | .nil, acc, acc', lt, hg, _ => by
    simp [genStmtsAcc] at hg; subst hg
    intro m _ fuel σ
    simp only [Ir.execs]
    exact (bind_end M env rt fuel m acc σ).symm
  | .cons s r, acc, acc', lt, hg, hwt => by
    simp only [Ir.wtStmtsM, Bool.and_eq_true] at hwt
    cases hs : genStmt cx s with
    | error err => simp [genStmtsAcc, hs] at hg
    | ok s' =>
      simp only [genStmtsAcc, hs] at hg
      have h1 := sim_stmtM hag hw rt s s' lt hs hwt.1
      have h2 := sim_accM hag hw rt r (pushStmt acc s') acc' lt hg hwt.2
      intro m hm fuel σ
      rw [h2 m hm fuel σ, execs_push]
      cases hR : Msl.execs M env rt fuel m acc σ with
      | none => rfl
      | some p =>
        obtain ⟨fl, σ1⟩ := p
        cases fl with
        | normal =>
          change bindS m (Msl.execs M env rt fuel Mode.run (.cons s' .nil) σ1) (fun m' σ' => Ir.execs W fuel m' r σ') =
            Ir.execs W fuel .run (.cons s r) σ1
          rw [execs_single, h1 .run trivial fuel σ1, Ir.execs]
          cases Ir.exec W fuel .run s σ1 with
          | none => rfl
          | some q => obtain ⟨fl2, σ2⟩ := q; cases fl2 <;> simp [bindS, endOf]
        | seeking =>
          change bindS m (Msl.execs M env rt fuel m (.cons s' .nil) σ1) (fun m' σ' => Ir.execs W fuel m' r σ') =
            Ir.execs W fuel m (.cons s r) σ1
          rw [execs_single, h1 m hm fuel σ1, Ir.execs]
          cases Ir.exec W fuel m s σ1 with
          | none => rfl
          | some q => obtain ⟨fl2, σ2⟩ := q; cases fl2 <;> cases m <;> simp [bindS, endOf]
        | _ => rfl
end
end

end RsslVerif.Lemmas.GenMsl

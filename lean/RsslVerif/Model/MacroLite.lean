/-!
# A compact model of the preprocessor: object-like macros + conditional gating

Mirrors, for the subset "object-like macros, `#define/#undef/#ifdef/#ifndef/#if/#elif/#else/#endif`,
`defined`", what `preprocess/src/preprocess.rs` does:

* the macro table is a list in definition order; `#define` removes every entry of that name and appends
  (`macros.retain(..); macros.push(..)`), `#undef` removes;
* a run of text between directives is expanded token by token, left to right; an identifier that names an
  enabled macro is replaced by the macro's body expanded with that macro disabled
  (`apply_single_macro` / `macro_disabled`);
* `#if/#elif` conditions are expanded with `defined X` / `defined(X)` replaced by `1`/`0` at the top level
  of the scan only, then handed to the condition evaluator (a parameter here: the theorems hold for any);
* the `ConditionChain` (`push`, `switch`, `pop`, `is_active`) is copied literally: every open block carries its
  three-state gate and whether its `#else` branch has started (fix 03ca601: a further `#else` / `#elif` of that
  block is the error `ElseAfterElse` / `ElifAfterElse`); `#elif` evaluates its condition even where it cannot
  matter, and before the chain is consulted (as the code does), `#if` inside an inactive region does not.
  A single file is modelled, so the chain's "blocks open when the current file started" count is 0.

Outside the model (the full macro model belongs to C12): function-like macros, `##`, `#include`,
`#pragma`, lexing.  The driver answers `unsupported` for tables with duplicate names (reachable only through
API-level defines), where the code disables by index and this model by name.
Core Lean only.
-/
namespace RsslVerif.Model.MacroLite

inductive Tok where
  | id (s : String)
  | lit (n : Nat)
  | punct (s : String)
  deriving DecidableEq, Repr, Inhabited

structure Macro where
  name : String
  body : List Tok
  deriving DecidableEq, Repr

abbrev Table := List Macro

/-- first enabled macro of that name (`find_single_macro`'s inner loop) -/
def lookup (ms : Table) (dis : List String) (s : String) : Option Macro :=
  ms.find? (fun m => m.name == s && !dis.contains m.name)

/-- expansion of one token; `fuel` bounds the nesting depth (each level disables one more name, so
    `ms.length + 1` always suffices: `Thm.C18.expand_fuel_irrelevant`) -/
def expandTok (ms : Table) : Nat → List String → Tok → List Tok
  | 0, _, t => [t]
  | fuel + 1, dis, .id s =>
    match lookup ms dis s with
    | some m => m.body.flatMap (expandTok ms fuel (m.name :: dis))
    | none => [.id s]
  | _ + 1, _, t => [t]

def fuelFor (ms : Table) : Nat := ms.length + 1

/-- expansion of a run of text (`apply_macros(.., apply_defined = false)`) -/
def expand (ms : Table) (ts : List Tok) : List Tok :=
  ts.flatMap (expandTok ms (fuelFor ms) [])

def isDefined (ms : Table) (x : String) : Bool := ms.any (fun m => m.name == x)

def boolLit (b : Bool) : Tok := .lit (if b then 1 else 0)

/-- the `defined` scan of an `#if` condition over an arbitrary "is defined" test and token expander;
    `none` = malformed `defined` -/
def expandCondWith (d : String → Bool) (e : Tok → List Tok) : List Tok → Option (List Tok)
  | [] => some []
  | .id "defined" :: .punct "(" :: .id x :: .punct ")" :: rest =>
    (expandCondWith d e rest).map (boolLit (d x) :: ·)
  | .id "defined" :: .id x :: rest =>
    (expandCondWith d e rest).map (boolLit (d x) :: ·)
  | .id "defined" :: _ => none
  | t :: rest => (expandCondWith d e rest).map (e t ++ ·)

/-- expansion of an `#if` condition (`apply_macros(.., apply_defined = true)`) -/
def expandCond (ms : Table) (c : List Tok) : Option (List Tok) :=
  expandCondWith (isDefined ms) (expandTok ms (fuelFor ms) []) c

inductive Line where
  | text (ts : List Tok)
  | define (name : String) (body : List Tok)
  | undef (name : String)
  | ifdef (neg : Bool) (name : String)
  | if_ (cond : List Tok)
  | elif (cond : List Tok)
  | else_
  | endif
  deriving DecidableEq, Repr

inductive Gate where
  | enabled
  | disabledInner
  | disabledOuter
  deriving DecidableEq, Repr

inductive PErr where
  | elseNotMatched
  | endifNotMatched
  | notFinished
  | badCondition
  | elseAfterElse
  | elifAfterElse
  deriving DecidableEq, Repr

/-- `ConditionBlock`: an `#if` block that has not reached its `#endif` -/
structure Block where
  state : Gate
  /-- the `#else` branch has started - which has to be the last branch -/
  seenElse : Bool
  deriving DecidableEq, Repr

structure St where
  macros : Table
  /-- innermost block first -/
  chain : List Block
  out : List Tok
  deriving DecidableEq, Repr

def active (chain : List Block) : Bool := chain.all (·.state == .enabled)

/-- `ConditionChain::switch(active, is_else, _)` -/
def switch (a isElse : Bool) : List Block → Except PErr (List Block)
  | [] => .error .elseNotMatched
  | b :: r =>
    if b.seenElse then .error (if isElse then .elseAfterElse else .elifAfterElse)
    else
      .ok (⟨match b.state with
        | .enabled => .disabledOuter
        | .disabledInner => if a then .enabled else .disabledInner
        | .disabledOuter => .disabledOuter, isElse⟩ :: r)

/-- `ConditionChain::push` of the gate an `#if` / `#ifdef` opens with -/
def gateOf (a : Bool) : Block := ⟨if a then .enabled else .disabledInner, false⟩

/-- the block pushed for an `#if` / `#ifdef` / `#ifndef` inside a skipped region -/
def skippedBlock : Block := ⟨.disabledInner, false⟩

/-- evaluate a condition: expand, then the condition evaluator `ev` (`none` = parse failure) -/
def condValue (ev : List Tok → Option Bool) (ms : Table) (c : List Tok) : Option Bool :=
  match expandCond ms c with
  | none => none
  | some ts => ev ts

def removeName (ms : Table) (n : String) : Table := ms.filter (fun m => m.name != n)

/-- one directive or text run (`preprocess_command` / `flush_normal`) -/
def step (ev : List Tok → Option Bool) (st : St) : Line → Except PErr St
  | .text ts =>
    if active st.chain then .ok { st with out := st.out ++ expand st.macros ts } else .ok st
  | .define n b =>
    if active st.chain then .ok { st with macros := removeName st.macros n ++ [⟨n, b⟩] } else .ok st
  | .undef n =>
    if active st.chain then .ok { st with macros := removeName st.macros n } else .ok st
  | .ifdef neg n =>
    if active st.chain then
      .ok { st with chain := gateOf (neg != isDefined st.macros n) :: st.chain }
    else .ok { st with chain := skippedBlock :: st.chain }
  | .if_ c =>
    if active st.chain then
      match condValue ev st.macros c with
      | none => .error .badCondition
      | some a => .ok { st with chain := gateOf a :: st.chain }
    else .ok { st with chain := skippedBlock :: st.chain }
  | .elif c =>
    match condValue ev st.macros c with
    | none => .error .badCondition
    | some a =>
      match switch a false st.chain with
      | .error e => .error e
      | .ok ch => .ok { st with chain := ch }
  | .else_ =>
    match switch true true st.chain with
    | .error e => .error e
    | .ok ch => .ok { st with chain := ch }
  | .endif =>
    match st.chain with
    | [] => .error .endifNotMatched
    | _ :: r => .ok { st with chain := r }

def steps (ev : List Tok → Option Bool) (st : St) : List Line → Except PErr St
  | [] => .ok st
  | l :: ls =>
    match step ev st l with
    | .error e => .error e
    | .ok st' => steps ev st' ls

/-- `preprocess_initial_file`: run all lines from the initial table; the chain must be closed at the end -/
def run (ev : List Tok → Option Bool) (ms : Table) (ls : List Line) : Except PErr (List Tok) :=
  match steps ev ⟨ms, [], []⟩ ls with
  | .error e => .error e
  | .ok st => if st.chain.isEmpty then .ok st.out else .error .notFinished

end RsslVerif.Model.MacroLite

import RsslVerif.Model.SourceMap
/-!
# Lemmas about the newline-counting loop of `get_file_location` and about text insertion
-/
namespace RsslVerif.Lemmas.SourceMap
open RsslVerif.Gen.SourceMapTables RsslVerif.Model.SourceMap

/-- number of line breaks in a byte string -/
def nlCount (bs : Bytes) : Nat := bs.countP isNl

/-- column after scanning `bs` when the column before was `c` (the column never depends on the line) -/
def scanCol (c : Nat) (bs : Bytes) : Nat :=
  bs.foldl (fun c b => if isNl b then firstColumn else c + 1) c

theorem scan_nil (p : Pos) : scan p [] = p := rfl

theorem scan_cons (p : Pos) (c : UInt8) (bs : Bytes) : scan p (c :: bs) = scan (p.step c) bs := rfl

theorem scan_append (p : Pos) (a b : Bytes) : scan p (a ++ b) = scan (scan p a) b := by
  simp [scan, List.foldl_append]

theorem nlCount_append (a b : Bytes) : nlCount (a ++ b) = nlCount a + nlCount b := by
  simp [nlCount, List.countP_append]

theorem nlCount_nil : nlCount [] = 0 := rfl

theorem nlCount_cons (c : UInt8) (bs : Bytes) :
    nlCount (c :: bs) = (if isNl c then 1 else 0) + nlCount bs := by
  simp only [nlCount, List.countP_cons]
  split <;> omega

/-- the line after a scan is the line before plus the number of line breaks -/
theorem scan_line (p : Pos) (bs : Bytes) : (scan p bs).line = p.line + nlCount bs := by
  induction bs generalizing p with
  | nil => simp [scan_nil, nlCount_nil]
  | cons c bs ih =>
    rw [scan_cons, ih, nlCount_cons]
    unfold Pos.step
    split <;> simp <;> omega

theorem scan_col (p : Pos) (bs : Bytes) : (scan p bs).col = scanCol p.col bs := by
  induction bs generalizing p with
  | nil => rfl
  | cons c bs ih =>
    rw [scan_cons, ih]
    unfold Pos.step scanCol
    simp only [List.foldl_cons]
    split <;> rfl

theorem scanCol_nil (c : Nat) : scanCol c [] = c := rfl

theorem scanCol_cons (c : Nat) (b : UInt8) (bs : Bytes) :
    scanCol c (b :: bs) = scanCol (if isNl b then firstColumn else c + 1) bs := rfl

theorem scanCol_append (c : Nat) (a b : Bytes) : scanCol c (a ++ b) = scanCol (scanCol c a) b := by
  simp [scanCol, List.foldl_append]

/-- without a line break the column advances by the number of bytes -/
theorem scanCol_noNl (c : Nat) (bs : Bytes) (h : nlCount bs = 0) : scanCol c bs = c + bs.length := by
  induction bs generalizing c with
  | nil => rfl
  | cons b bs ih =>
    rw [nlCount_cons] at h
    have hb : isNl b = false := by
      cases hb : isNl b
      · rfl
      · simp [hb] at h
    rw [scanCol_cons, hb, ih _ (by simpa [hb] using h)]
    simp
    omega

/-- after a line break the column no longer depends on where the scan started -/
theorem scanCol_reset (c c' : Nat) (bs : Bytes) (h : 0 < nlCount bs) : scanCol c bs = scanCol c' bs := by
  induction bs generalizing c c' with
  | nil => simp [nlCount_nil] at h
  | cons b bs ih =>
    rw [scanCol_cons, scanCol_cons]
    cases hb : isNl b
    · rw [nlCount_cons, hb] at h
      exact ih _ _ (by simpa using h)
    · simp

/-- a byte string made of whole lines: empty, or ending in a line break -/
def NlTerminated (ins : Bytes) : Prop := ins = [] ∨ ∃ pre c, ins = pre ++ [c] ∧ isNl c = true

theorem scanCol_nlTerminated (c : Nat) (ins : Bytes) (h : NlTerminated ins) (hne : ins ≠ []) :
    scanCol c ins = firstColumn := by
  rcases h with h | ⟨pre, b, rfl, hb⟩
  · exact absurd h hne
  · rw [scanCol_append]
    simp [scanCol_cons, scanCol_nil, hb]

/-- scanning whole lines from the start of a line ends at the start of a line, `nlCount` lines further down -/
theorem scan_lines (p : Pos) (ins : Bytes) (h : NlTerminated ins) (hcol : p.col = firstColumn) :
    scan p ins = ⟨p.line + nlCount ins, p.col⟩ := by
  have hl := scan_line p ins
  have hc := scan_col p ins
  by_cases hne : ins = []
  · subst hne; simp [scan_nil, nlCount_nil]
  · rw [scanCol_nlTerminated _ _ h hne] at hc
    cases hs : scan p ins with
    | mk l c =>
      rw [hs] at hl hc
      simp at hl hc
      simp [hl, hc, hcol]

/-! ### `take` / `drop` of an insertion -/

theorem take_insertAt_after (s ins : Bytes) (p q : Nat) (hpq : p ≤ q) (hq : q ≤ s.length) :
    (insertAt s p ins).take (q + ins.length) = s.take p ++ ins ++ (s.drop p).take (q - p) := by
  have hp : p ≤ s.length := Nat.le_trans hpq hq
  have hlen : (s.take p ++ ins).length = p + ins.length := by simp [List.length_take, Nat.min_eq_left hp]
  unfold insertAt
  have : q + ins.length = (s.take p ++ ins).length + (q - p) := by rw [hlen]; omega
  rw [this, List.take_length_add_append]

theorem drop_insertAt_after (s ins : Bytes) (p q : Nat) (hpq : p ≤ q) (hq : q ≤ s.length) :
    (insertAt s p ins).drop (q + ins.length) = s.drop q := by
  have hp : p ≤ s.length := Nat.le_trans hpq hq
  have hlen : (s.take p ++ ins).length = p + ins.length := by simp [List.length_take, Nat.min_eq_left hp]
  unfold insertAt
  have : q + ins.length = (s.take p ++ ins).length + (q - p) := by rw [hlen]; omega
  rw [this, List.drop_length_add_append, List.drop_drop]
  congr 1
  omega

theorem take_insertAt_before (s ins : Bytes) (p q : Nat) (hqp : q ≤ p) (hp : p ≤ s.length) :
    (insertAt s p ins).take q = s.take q := by
  unfold insertAt
  rw [List.append_assoc, List.take_append_of_le_length (by simp [List.length_take]; omega), List.take_take]
  congr 1
  omega

theorem take_split (s : Bytes) (p q : Nat) (hpq : p ≤ q) : s.take q = s.take p ++ (s.drop p).take (q - p) := by
  have : q = p + (q - p) := by omega
  rw [this, List.take_add]
  simp

theorem length_insertAt (s ins : Bytes) (p : Nat) : (insertAt s p ins).length = s.length + ins.length := by
  unfold insertAt
  simp [List.length_take, List.length_drop]
  omega

/-! ### the general position formula for an insertion -/

/-- position of old offset `q ≥ p` after inserting `ins` at `p`, in terms of scans -/
theorem lineCol_insertAt_after (s ins : Bytes) (p q : Nat) (hpq : p ≤ q) (hq : q ≤ s.length) :
    lineCol (insertAt s p ins) (q + ins.length) =
      scan (scan (lineCol s p) ins) ((s.drop p).take (q - p)) := by
  unfold lineCol
  rw [take_insertAt_after s ins p q hpq hq, scan_append, scan_append]

theorem lineCol_split (s : Bytes) (p q : Nat) (hpq : p ≤ q) :
    lineCol s q = scan (lineCol s p) ((s.drop p).take (q - p)) := by
  unfold lineCol
  rw [take_split s p q hpq, scan_append]

/-- positions before the insertion point are untouched -/
theorem lineCol_insertAt_before (s ins : Bytes) (p q : Nat) (hqp : q ≤ p) (hp : p ≤ s.length) :
    lineCol (insertAt s p ins) q = lineCol s q := by
  unfold lineCol
  rw [take_insertAt_before s ins p q hqp hp]

/-! ### `lastLine`, `sourceLine` -/

theorem takeWhile_append_of_all {α : Type} (p : α → Bool) (l r : List α) (h : ∀ x ∈ l, p x = true) :
    (l ++ r).takeWhile p = l ++ r.takeWhile p := by
  induction l with
  | nil => rfl
  | cons a l ih =>
    have ha : p a = true := h a (by simp)
    simp only [List.cons_append, List.takeWhile_cons, ha, if_true]
    rw [ih (fun x hx => h x (by simp [hx]))]

theorem takeWhile_append_of_exists {α : Type} (p : α → Bool) (l r : List α) (h : ∃ x ∈ l, p x = false) :
    (l ++ r).takeWhile p = l.takeWhile p := by
  induction l with
  | nil => obtain ⟨x, hx, _⟩ := h; cases hx
  | cons a l ih =>
    cases ha : p a
    · simp [List.takeWhile_cons, ha]
    · simp only [List.cons_append, List.takeWhile_cons, ha, if_true]
      obtain ⟨x, hx, hp⟩ := h
      rcases List.mem_cons.1 hx with rfl | hx
      · rw [ha] at hp; cases hp
      · rw [ih ⟨x, hx, hp⟩]

theorem lastLine_nil : lastLine [] = [] := rfl

theorem lastLine_append_nl (a : Bytes) (c : UInt8) (h : isNl c = true) : lastLine (a ++ [c]) = [] := by
  simp [lastLine, List.reverse_append, h]

theorem lastLine_append_noNl (a b : Bytes) (h : nlCount b = 0) : lastLine (a ++ b) = lastLine a ++ b := by
  have hall : ∀ x ∈ b.reverse, (!isNl x) = true := by
    intro x hx
    have hx' : x ∈ b := by simpa using hx
    have : b.countP isNl = 0 := h
    rw [List.countP_eq_zero] at this
    simpa using this x hx'
  unfold lastLine
  rw [List.reverse_append, takeWhile_append_of_all _ _ _ hall]
  simp

theorem lastLine_append_hasNl (a b : Bytes) (h : 0 < nlCount b) : lastLine (a ++ b) = lastLine b := by
  have hex : ∃ x ∈ b.reverse, (!isNl x) = false := by
    have : 0 < b.countP isNl := h
    rw [List.countP_pos_iff] at this
    obtain ⟨x, hx, hp⟩ := this
    exact ⟨x, by simpa using hx, by simp [hp]⟩
  unfold lastLine
  rw [List.reverse_append, takeWhile_append_of_exists _ _ _ hex]

theorem lastLine_noNl (b : Bytes) (h : nlCount b = 0) : lastLine b = b := by
  have := lastLine_append_noNl [] b h
  simpa [lastLine_nil] using this

/-- the column after a scan: reset by the last line break, otherwise advanced by the length -/
theorem scanCol_eq (c : Nat) (bs : Bytes) :
    scanCol c bs = if 0 < nlCount bs then firstColumn + (lastLine bs).length else c + bs.length := by
  induction bs generalizing c with
  | nil => simp [scanCol_nil, nlCount_nil]
  | cons b rest ih =>
    rw [scanCol_cons, ih, nlCount_cons]
    by_cases hr : 0 < nlCount rest
    · have : lastLine (b :: rest) = lastLine rest := lastLine_append_hasNl [b] rest hr
      have h2 : 0 < (if isNl b = true then 1 else 0) + nlCount rest := by omega
      simp [hr, h2, this]
    · have hr0 : nlCount rest = 0 := by omega
      have hl : lastLine (b :: rest) = lastLine [b] ++ rest := lastLine_append_noNl [b] rest hr0
      cases hb : isNl b
      · simp [hr0, hb]; omega
      · have : lastLine [b] = [] := lastLine_append_nl [] b hb
        simp [hr0, hb, hl, this]

/-- the column is one more than the length of the current line's prefix -/
theorem scanCol_first_eq (bs : Bytes) : scanCol firstColumn bs = firstColumn + (lastLine bs).length := by
  rw [scanCol_eq]
  by_cases h : 0 < nlCount bs
  · simp [h]
  · have h0 : nlCount bs = 0 := by omega
    simp [h0, lastLine_noNl bs h0]

theorem lineCol_col (s : Bytes) (q : Nat) : (lineCol s q).col = firstColumn + (lastLine (s.take q)).length := by
  unfold lineCol
  rw [scan_col]
  exact scanCol_first_eq _

theorem lineCol_line (s : Bytes) (q : Nat) : (lineCol s q).line = firstLine + nlCount (s.take q) := by
  unfold lineCol
  rw [scan_line]
  rfl

/-- inserting whole lines at a line start does not change the text of the line a later offset is on -/
theorem sourceLine_insert_lines (s ins : Bytes) (p q : Nat) (hpq : p ≤ q) (hq : q ≤ s.length)
    (hstart : (lineCol s p).col = firstColumn) (hins : NlTerminated ins) :
    sourceLine (insertAt s p ins) (q + ins.length) = sourceLine s q := by
  unfold sourceLine
  rw [drop_insertAt_after s ins p q hpq hq, take_insertAt_after s ins p q hpq hq, take_split s p q hpq]
  congr 1
  have hp0 : lastLine (s.take p) = [] := by
    have := lineCol_col s p
    rw [hstart] at this
    have hl : (lastLine (s.take p)).length = 0 := by omega
    exact List.eq_nil_of_length_eq_zero hl
  by_cases hr : 0 < nlCount ((s.drop p).take (q - p))
  · rw [lastLine_append_hasNl _ _ hr, lastLine_append_hasNl _ _ hr]
  · have hr0 : nlCount ((s.drop p).take (q - p)) = 0 := by omega
    rw [lastLine_append_noNl _ _ hr0, lastLine_append_noNl _ _ hr0]
    congr 1
    rcases hins with rfl | ⟨pre, c, rfl, hc⟩
    · simp
    · rw [hp0, ← List.append_assoc, lastLine_append_nl _ c hc]

/-! ### several insertions given in original coordinates (`applyEdits`, `moveThrough`) -/

theorem foldl_add_init (l : List (Nat × Bytes)) (a : Nat) :
    l.foldl (fun a e => a + e.2.length) a = a + l.foldl (fun a e => a + e.2.length) 0 := by
  induction l generalizing a with
  | nil => simp
  | cons e l ih => simp only [List.foldl_cons]; rw [ih, ih (0 + e.2.length)]; omega

theorem moveThrough_cons (p : Nat) (ins : Bytes) (rest : List (Nat × Bytes)) (q : Nat) :
    moveThrough ((p, ins) :: rest) q = moveThrough rest q + (if p ≤ q then ins.length else 0) := by
  unfold moveThrough
  simp only [List.filter_cons]
  by_cases h : p ≤ q
  · simp only [h, decide_true, if_true, List.foldl_cons]
    rw [foldl_add_init]; omega
  · simp [h]

theorem moveThrough_ge (es : List (Nat × Bytes)) (q : Nat) : q ≤ moveThrough es q := by
  unfold moveThrough; omega

theorem moveThrough_all_after (es : List (Nat × Bytes)) (q : Nat) (h : ∀ e ∈ es, q < e.1) :
    moveThrough es q = q := by
  unfold moveThrough
  have : es.filter (fun e => decide (e.1 ≤ q)) = [] := by
    rw [List.filter_eq_nil_iff]; intro e he; have := h e he; simp; omega
  rw [this]; rfl

/-- insertion offsets in ascending order (the order the harness and `applyEdits` use) -/
def Ascending : List (Nat × Bytes) → Prop
  | [] => True
  | (p, _) :: rest => (∀ e ∈ rest, p ≤ e.1) ∧ Ascending rest

theorem getElem?_insertAt_after (t ins : Bytes) (p q : Nat) (hpq : p ≤ q) (hp : p ≤ t.length) :
    (insertAt t p ins)[q + ins.length]? = t[q]? := by
  unfold insertAt
  have hl : (t.take p ++ ins).length = p + ins.length := by simp [List.length_take]; omega
  rw [List.getElem?_append_right (by omega), hl, List.getElem?_drop]
  congr 1; omega

theorem getElem?_insertAt_before (t ins : Bytes) (p q : Nat) (hqp : q < p) (hq : q < t.length) :
    (insertAt t p ins)[q]? = t[q]? := by
  unfold insertAt
  rw [List.append_assoc, List.getElem?_append_left (by simp [List.length_take]; omega)]
  simp [hqp]

theorem length_applyEdits_ge (s : Bytes) (es : List (Nat × Bytes)) : s.length ≤ (applyEdits s es).length := by
  induction es with
  | nil => simp [applyEdits]
  | cons e es ih =>
    obtain ⟨p, ins⟩ := e
    simp only [applyEdits, length_insertAt]; omega

end RsslVerif.Lemmas.SourceMap

import RsslVerif.Spec.SemWT
import RsslVerif.Spec.SemMsl
import RsslVerif.Model.GenMsl
/-!
# `Spec.SemMslWT` — the side conditions of the Metal theorems (C02, semantic half)

Besides "the type checker accepted the program" (`Ir.typeOf`, `Ir.wtStmts` of `Spec.SemWT`) the theorems about the Metal
exporter need `Ir.okM`, which says where the *C++* reading of the emitted text is known to coincide with the typed one:

* no `IntLiteral` / `FloatLiteral` constant inside an expression (RSSL computes on them exactly, Metal in `int` / `long` /
  `float`: the class of the known finding *metal-integer-literal-typing*); case labels are handled separately;
* the typed constant `Int32(i32::MIN)` — printed `-2147483648`, a `long` in Metal — only where the context converts it
  back to `int` (initialiser, right-hand side of `=`, argument, `return`, cast), never as an operand of an operator, a
  branch of `?:` or the tail of a sequence (same finding);
* arithmetic, bitwise and relational operators (and compound assignments) on operands of type `int`, `uint`, `float`
  (shifts: `int`, `uint`): on `bool` operands C++ promotes to `int` first; the values agree, but proving it needs the
  run-time types of variables, which this development does not track (the oracle covers those operators by test);
* calls: every out/inout argument is a variable that is not one of the callee's own parameter slots (no recursion through
  references), and the `in` arguments *after* an out/inout argument have no side effects (otherwise the moment of the
  copy-in differs: known finding *inout-copy-in-after-later-arguments*);
* names: every variable mentioned is in scope (`V`), and so is every static the callee of a call needs.
-/
namespace RsslVerif.Spec.Sem
open RsslVerif.Gen.HlslGenTables RsslVerif.Gen.HlslIntrinsicTables RsslVerif.Model
open RsslVerif.Model.Ir (Ty Var Const Dir)

namespace Ir
open RsslVerif.Model.Ir

/-- the constant `Int32(i32::MIN)` -/
def isMin : Expr → Bool
  | .lit (.int32 v) => v == BitVec.intMin 32
  | _ => false

def arithTy : Option Ty → Bool
  | some .int | some .uint | some .float => true
  | _ => false

def intTy : Option Ty → Bool
  | some .int | some .uint => true
  | _ => false

def scalarTy : Ty → Bool
  | .bool | .int | .uint | .float => true
  | _ => false

def isShiftM : MBin → Bool
  | .shl | .shr => true
  | _ => false

mutual
/-- evaluation has no effect on the store: no assignment, increment or call -/
def pureExpr : Expr → Bool
  | .lit _ => true
  | .var _ => true
  | .global _ => true
  | .cast _ e => pureExpr e
  | .tern c t f => pureExpr c && pureExpr t && pureExpr f
  | .seq es => pureExprs es
  | .call _ _ => false
  | .intr _ _ _ args => pureExprs args
  | .op o args =>
    (match irOpSem o with
      | .un _ | .bin _ | .land | .lor => true
      | _ => false) && pureExprs args
def pureExprs : Exprs → Bool
  | .nil => true
  | .cons e r => pureExpr e && pureExprs r
end

/-- the `in` arguments of the list have no side effects -/
def laterPure : Exprs → List (Dir × Ty) → Bool
  | .cons e r, (d, _) :: ps => (decide (d ≠ .in_) || pureExpr e) && laterPure r ps
  | _, _ => true

/-- out/inout arguments name variables outside `rsv`, and the `in` arguments after them are pure -/
def refArgsOK (rsv : List Var) : Exprs → List (Dir × Ty) → Bool
  | .cons e r, (d, _) :: ps =>
    (if d = .in_ then true
     else
      match lvalOf e with
      | some x => !rsv.contains x && laterPure r ps
      | none => false) && refArgsOK rsv r ps
  | _, _ => true

/-- what the Metal theorems need to know about the surroundings of an expression -/
structure Side where
  sig : Sig
  vty : Var → Ty
  /-- the variables in scope -/
  vis : Var → Bool
  /-- `function_required_globals` -/
  req : Nat → Option (List Nat)
  /-- the frame slots of a callee that no argument may name: its parameters and the trampoline's result -/
  rsv : Nat → List Var
  /-- `called_functions`: the functions some function of the module calls -/
  called : Nat → Bool

mutual
def okM (S : Side) : Expr → Bool
  | .lit c =>
    match c with
    | .intLit _ => false
    | .floatLit _ => false
    | _ => true
  | .var id => S.vis (.loc id)
  | .global id => S.vis (.glob id)
  | .cast ty e => okM S e && scalarTy ty && (typeOf S.sig S.vty e != some .lit)
  | .tern c t f => okM S c && okM S t && okM S f && !isMin t && !isMin f
  | .seq es => okMSeq S es
  | .call f args =>
    okMArgs S args && S.called f &&
    (match S.sig f, S.req f with
      | some (_, ps), some gs => refArgsOK (S.rsv f) args ps && gs.all (fun g => S.vis (.glob g))
      | _, _ => false)
  | .intr _ _ _ _ => false
  | .op o args =>
    match args with
    | .cons a .nil =>
      okM S a && !isMin a &&
        (match irOpSem o with
          | .un .lnot => true
          | .un _ => arithTy (typeOf S.sig S.vty a)
          | _ => true)
    | .cons a (.cons b .nil) =>
      okM S a && okM S b && !isMin a && (decide (irOpSem o = .assign) || !isMin b) &&
        (match irOpSem o with
          | .bin m => if isShiftM m then intTy (typeOf S.sig S.vty a) else arithTy (typeOf S.sig S.vty a)
          | .compound m => if isShiftM m then intTy (typeOf S.sig S.vty a) else arithTy (typeOf S.sig S.vty a)
          | _ => true)
    | _ => true
def okMSeq (S : Side) : Exprs → Bool
  | .nil => true
  | .cons e r =>
    match r with
    | .nil => okM S e && !isMin e
    | .cons _ _ => okM S e && okMSeq S r
def okMArgs (S : Side) : Exprs → Bool
  | .nil => true
  | .cons e r => okM S e && okMArgs S r
end

/-- an expression the type checker accepted (any type) that satisfies the Metal side conditions -/
def okExprM (S : Side) (e : Expr) : Bool := (typeOf S.sig S.vty e).isSome && okM S e

/-- …of the given type -/
def okExprTM (S : Side) (t : Ty) (e : Expr) : Bool :=
  (match typeOf S.sig S.vty e with | some t' => decide (t' = t) | none => false) && okM S e

def okOptM (S : Side) : Option Expr → Bool
  | none => true
  | some e => okExprM S e

def okVarDefM (S : Side) (id : Nat) : Option Expr → Bool
  | none => S.vis (.loc id)
  | some e => S.vis (.loc id) && okExprTM S (S.vty (.loc id)) e

def okForInitM (S : Side) : ForInit → Bool
  | .empty => true
  | .expr e => okExprM S e
  | .defs ds => ds.all fun d => okVarDefM S d.1 d.2

/-- a `case` label under a `switch` on type `T`: a typed constant of that type, or an `IntLiteral` a `long` can hold -/
def labelOK (T : Ty) (c : Const) : Bool :=
  (decide (T = .int) || decide (T = .uint)) &&
  match c with
  | .intLit v => decide (-9223372036854775808 < v) && decide (v < 9223372036854775808)
  | .int32 _ => decide (T = .int)
  | .uint32 _ => decide (T = .uint)
  | _ => false

mutual
/-- statements the type checker accepted inside a function returning `rt`, with the Metal side conditions; `lt` = the
type of the controlling expression when the statement sits directly in the block of a `switch` -/
def wtStmtM (S : Side) (rt : Ty) (lt : Option Ty) : Stmt → Bool
  | .expr e => okExprM S e
  | .var id init => okVarDefM S id init
  | .block b => wtStmtsM S rt none b
  | .ifThen c b => okExprM S c && wtStmtsM S rt none b
  | .ifElse c t f => okExprM S c && wtStmtsM S rt none t && wtStmtsM S rt none f
  | .for init cond inc b => okForInitM S init && okOptM S cond && okOptM S inc && wtStmtsM S rt none b
  | .while c b => okExprM S c && wtStmtsM S rt none b
  | .doWhile b c => wtStmtsM S rt none b && okExprM S c
  | .break => true
  | .continue => true
  | .ret none => true
  | .ret (some e) => okExprTM S rt e
  | .switch T c b => okExprTM S T c && !isMin c && (decide (T = .int) || decide (T = .uint)) && wtStmtsM S rt (some T) b
  | .caseLabel c =>
    match lt with
    | some T => labelOK T c
    | none => false
  | .defaultLabel => lt.isSome
def wtStmtsM (S : Side) (rt : Ty) (lt : Option Ty) : Stmts → Bool
  | .nil => true
  | .cons s r => wtStmtM S rt lt s && wtStmtsM S rt lt r
end

end Ir
end RsslVerif.Spec.Sem

import RsslVerif.Model.Macro
/-!
# Model of the directive loop, `FileLoader`, `#include` and `#pragma once` (C12)

Mirrors `preprocess_included_file` (the line state machine: text lines are collected in `active_tokens`, with their
line ends, and macro-expanded as one block when the next directive -- or the end of the file -- is reached),
the `define` / `undef` / `include` / `pragma` arms of `preprocess_command`, `FileLoader::load` /
`mark_as_pragma_once`, and `preprocess_initial_file` (API-level defines become object-like macros whose tokens have
no location; they are pushed without removing an earlier entry of the same name).

Representation choices:
* a file is the list of its lines, a line is its token list (the lexer is C10's concern; the harness checks with the
  real lexer that every rendered line lexes to exactly the tokens of the request);
* `FileLoader.file_name_remap` gives every distinct *include name* one fresh `FileId`, and
  `pragma_once_files` is a set of `FileId`s: the ids are in bijection with the include names seen so far, so the
  set is modelled as a list of include names.  The cache of loaded files is not observable with a deterministic
  include handler and is not modelled.
* the recursion of `preprocess_included_file` through `#include` is bounded by `fuel`; since fix 6b8d369 the Rust
  code has the bound `MAX_INCLUDE_DEPTH` (tested before the file is loaded): run with
  `fuel = Gen.MacroTables.maxIncludeDepth`, `Err.includeFuel` is exactly `IncludeDepthExceeded`.
* conditional directives belong to C11 and are answered `unsupported`.
-/
namespace RsslVerif.Model.Include
open RsslVerif.Model.Macro

inductive Line where
  /-- `#define` followed by these tokens -/
  | define (toks : List PTok)
  | undef (toks : List PTok)
  | incl (name : String)
  | pragmaOnce
  /-- `#pragma warning ...`: a directive without effect -/
  | pragmaWarning
  /-- a line that is not a directive -/
  | text (toks : List PTok)
  deriving DecidableEq, Repr, Inhabited

/-- the include handler: include name ↦ lines of the file -/
abbrev Handler := String → Option (List Line)

structure State where
  /-- `macros: Vec<Macro>` in definition order -/
  macros : List Macro
  /-- the output buffer -/
  out : List PTok
  /-- `FileLoader.pragma_once_files`, by include name -/
  once : List String
  deriving DecidableEq, Repr, Inhabited

def eol : PTok := ⟨.endline, true⟩

/-- `flush_normal` (the condition chain is always active here) -/
def flush (st : State) (active : List PTok) : Except Err State :=
  match applyMacros st.macros active with
  | .error e => .error e
  | .ok ts => .ok { st with out := st.out ++ ts }

/-- `macros.retain(|m| m.name != name)` -/
def removeNamed (n : String) : List Macro → List Macro
  | [] => []
  | m :: r => if m.name = n then removeNamed n r else m :: removeNamed n r

/-- the `define` arm -/
def doDefine (macros : List Macro) (command : List PTok) : Except Err (List Macro) :=
  match parseDefine command with
  | .error e => .error e
  | .ok m => .ok (removeNamed m.name macros ++ [m])

/-- the `undef` arm (with its `assert_eq!(current_count + 1, previous_count)`) -/
def doUndef (macros : List Macro) (command : List PTok) : Except Err (List Macro) :=
  match trim command with
  | [⟨.id s, _⟩] =>
    let kept := removeNamed s macros
    if kept.length = macros.length then .ok kept
    else if kept.length + 1 = macros.length then .ok kept
    else .error (.panic "preprocess/src/preprocess.rs: assertion `left == right` failed")
  | _ => .error .invalidUndef

/-- One line of the current file. `inc` processes an included file (the recursive call);
`cur` is the include name of the current file. The pair is (state, `active_tokens`). -/
def stepLine (inc : String → State → Except Err State) (cur : String) :
    State × List PTok → Line → Except Err (State × List PTok)
  | (st, active), .text toks => .ok (st, active ++ toks ++ [eol])
  | (st, active), .define cmd =>
    match flush st active with
    | .error e => .error e
    | .ok st =>
      match doDefine st.macros cmd with
      | .error e => .error e
      | .ok ms => .ok ({ st with macros := ms }, [])
  | (st, active), .undef cmd =>
    match flush st active with
    | .error e => .error e
    | .ok st =>
      match doUndef st.macros cmd with
      | .error e => .error e
      | .ok ms => .ok ({ st with macros := ms }, [])
  | (st, active), .pragmaWarning =>
    match flush st active with
    | .error e => .error e
    | .ok st => .ok (st, [])
  | (st, active), .pragmaOnce =>
    match flush st active with
    | .error e => .error e
    | .ok st => .ok ({ st with once := cur :: st.once }, [])
  | (st, active), .incl name =>
    match flush st active with
    | .error e => .error e
    | .ok st =>
      match inc name st with
      | .error e => .error e
      | .ok st => .ok (st, [])

def foldLines (inc : String → State → Except Err State) (cur : String) :
    State × List PTok → List Line → Except Err (State × List PTok)
  | s, [] => .ok s
  | s, l :: rest =>
    match stepLine inc cur s l with
    | .error e => .error e
    | .ok s' => foldLines inc cur s' rest

/-- an empty file still yields the line end the lexer adds at the end of every file that does not end with one -/
def fileStart : List Line → List PTok
  | [] => [eol]
  | _ => []

/-- `preprocess_included_file` on the lines of one file -/
def runFile (inc : String → State → Except Err State) (cur : String) (st : State) (lines : List Line) :
    Except Err State :=
  match foldLines inc cur (st, fileStart lines) lines with
  | .error e => .error e
  | .ok (st, active) => flush st active

/-- `FileLoader::load` followed by `preprocess_included_file` -/
def includeFile (h : Handler) : Nat → String → State → Except Err State
  | 0, _, _ => .error .includeFuel
  | fuel + 1, name, st =>
    match h name with
    | none => .error (.failedToFindFile name)
    | some lines =>
      if st.once.contains name then runFile (includeFile h fuel) name st []
      else runFile (includeFile h fuel) name st lines

/-- An API-level define `(name, value)`: `preprocess_initial_file` registers the text `name value` as a file of its
own (`<define>`), lexes it with that location and without a trailing line end, and hands the tokens to
`Macro::parse`.  Both parts are given here as the tokens they lex to (a name such as `F(x)` is the four tokens
`F ( x )`, so it defines a function-like macro); the blank is the one `format!("{name} {value}")` inserts. -/
structure ApiDefine where
  name : List Tok
  value : List Tok
  deriving DecidableEq, Repr, Inhabited

def located (ts : List Tok) : List PTok := ts.map (⟨·, true⟩)

/-- the tokens handed to `Macro::parse` -/
def apiCommand (d : ApiDefine) : List PTok := located d.name ++ ⟨.ws, true⟩ :: located d.value

/-- "Add initial macros": parse, remove an earlier macro of that name, push -- the `#define` arm -/
def initialMacros : List Macro → List ApiDefine → Except Err (List Macro)
  | ms, [] => .ok ms
  | ms, d :: ds =>
    match doDefine ms (apiCommand d) with
    | .error e => .error e
    | .ok ms' => initialMacros ms' ds

/-- `preprocess_initial_file` on the lines of the entry file, `inc` = processing of an included file -/
def runInitial (inc : String → State → Except Err State) (entry : String) (api : List ApiDefine)
    (lines : List Line) : Except Err State :=
  match initialMacros [] api with
  | .error e => .error e
  | .ok ms => runFile inc entry { macros := ms, out := [], once := [] } lines

/-- `preprocess`: load the entry file, install the initial defines, run -/
def preprocess (h : Handler) (fuel : Nat) (api : List ApiDefine) (entry : String) :
    Except Err (List PTok) :=
  match h entry with
  | none => .error (.failedToFindFile entry)
  | some lines =>
    match runInitial (includeFile h fuel) entry api lines with
    | .error e => .error e
    | .ok st => .ok st.out

/-- `prepare_tokens`: drop white space (`MacroArg` cannot survive; its assertion is a panic site) -/
def prepare (ts : List PTok) : Except Err (List Tok) :=
  if ts.any (fun t => match t.tok with | .arg _ => true | _ => false) then
    .error (.panic "assert !matches!(t.0, Token::MacroArg(_))")
  else .ok ((ts.filter (fun t => !t.tok.isWhitespace)).map (·.tok))

end RsslVerif.Model.Include
